"""C19 - every pattern validator accepts exactly the language of its published regex (language equality of DFAs)."""
import json, os
from automata import DFA, regex_dfa, show, RegexError
from rustexpr import Interp, Undecided
from foldinterp import fold_validator
from framework import Check

SPEC = 'autosar-data-specification/src/'


def load_syn(ctx):
    d = json.load(open(os.path.join(ctx['facts'], 'syn.json')))
    return d['files']


def pattern_specs(syn):
    spec = syn[SPEC + 'specification.rs']
    cd = [s for s in spec['statics'] if s['name'] == 'CHARACTER_DATA']
    if len(cd) != 1:
        return None
    out = []
    for idx, e in enumerate(cd[0]['e']['es']):
        if e['k'] == 'struct' and e['path'] == 'CharacterDataSpec::Pattern':
            f = e['fields']
            ml = f['max_length']
            if ml['k'] == 'path' and ml['v'] == 'None':
                mlen = None
            elif ml['k'] == 'call' and ml['f'].get('v') == 'Some':
                mlen = ml['args'][0]['v']
            else:
                mlen = '?'
            out.append({'idx': idx, 'check_fn': f['check_fn'].get('v'), 'regex': f['regex'].get('v'), 'max_length': mlen, 'line': e.get('line')})
    return out


def strip(e):
    if isinstance(e, dict):
        return {k: strip(v) for k, v in e.items() if k != 'line'}
    if isinstance(e, list):
        return [strip(x) for x in e]
    return e


def table_validator(fn, statics):
    """recognise the canonical table-driven shape; returns (DFA, info) or raises Undecided."""
    fn = strip(fn)
    st = fn['body']['stmts']
    if len(st) != 3:
        raise Undecided('not the 3-statement table shape')
    s0, s1, s2 = st
    if not (s0['k'] == 'local' and s0['pat']['k'] == 'ident' and s0['pat']['mut'] and s0['init'] == {'k': 'int', 'v': 0, 'suffix': ''}):
        raise Undecided('first statement is not `let mut state = 0`')
    sv = s0['pat']['name']
    pn = fn['params'][0]['pat']['name']
    f = s1.get('e', {})
    if not (s1['k'] == 'expr' and f.get('k') == 'for' and f['e'] == {'k': 'path', 'v': pn} and f['pat']['k'] == 'ident'):
        raise Undecided('second statement is not `for c in s`')
    cv = f['pat']['name']
    body = f['body']['stmts']
    if len(body) != 2:
        raise Undecided('loop body is not 2 statements')
    a = body[0].get('e', {})
    ok = (a.get('k') == 'assign' and a['l'].get('v') == sv and a['r']['k'] == 'index' and a['r']['e']['k'] == 'index'
          and a['r']['e']['e']['k'] == 'path'
          and a['r']['e']['i'] == {'k': 'cast', 'ty': 'usize', 'e': {'k': 'path', 'v': sv}}
          and a['r']['i']['k'] == 'cast' and a['r']['i']['ty'] == 'usize' and a['r']['i']['e'].get('k') == 'unary' and a['r']['i']['e']['op'] == '*'
          and a['r']['i']['e']['e'].get('v') == cv)
    if not ok:
        raise Undecided('loop body does not assign state = TABLE[state as usize][*c as usize]')
    tname = a['r']['e']['e']['v']
    b = body[1].get('e', {})
    ok = (b.get('k') == 'if' and b['e'] is None and b['c'].get('k') == 'bin' and b['c']['op'] == '==' and b['c']['l'].get('v') == sv
          and b['c']['r'].get('k') == 'int' and len(b['t']['stmts']) == 1 and b['t']['stmts'][0]['e'].get('k') == 'return'
          and b['t']['stmts'][0]['e']['e'] == {'k': 'bool', 'v': False})
    if not ok:
        raise Undecided('loop body does not contain `if state == DEAD { return false; }`')
    dead = b['c']['r']['v']
    m = s2.get('e', {})
    if not (s2['k'] == 'expr' and not s2['semi'] and m.get('k') == 'macro' and m['name'] == 'matches' and 'matches' in m
            and m['matches']['e'].get('v') == sv and not m['matches']['guard']):
        raise Undecided('tail is not matches!(state, ..)')
    acc = pat_ints(m['matches']['pat'])
    tab = [s for s in statics if s['name'] == tname]
    if len(tab) != 1:
        raise Undecided('table %s not found' % tname)
    tab = tab[0]
    rows = []
    if tab['e']['k'] != 'array':
        raise Undecided('table is not an array literal')
    for r in tab['e']['es']:
        if r['k'] != 'array' or len(r['es']) != 256 or any(x['k'] != 'int' for x in r['es']):
            raise Undecided('table row is not 256 integer literals')
        rows.append([x['v'] for x in r['es']])
    n = len(rows)
    decl = tab['ty']
    problems = []
    if ('[[u8;256];%d' % n) not in decl.replace('usize', ''):
        problems.append('declared type %s does not match %d rows' % (decl, n))
    for i, r in enumerate(rows):
        for byte, x in enumerate(r):
            if x != dead and x >= n:
                problems.append('entry [%d][%d] = %d indexes past the table (run-time panic)' % (i, byte, x))
    if any(x >= n and x != dead for x in acc if True) and False:
        pass
    acc_in = {x for x in acc if x < n}
    d = DFA.from_table(rows, 0, acc_in, dead=dead)
    return d, {'table': tname, 'rows': n, 'dead': dead, 'accepting': sorted(acc), 'problems': problems}


def pat_ints(p):
    k = p['k']
    if k == 'or':
        out = set()
        for q in p['ps']:
            out |= pat_ints(q)
        return out
    if k == 'lit' and p['e']['k'] == 'int':
        return {p['e']['v']}
    if k == 'range' and p['from'] and p['to'] and p['from']['k'] == 'int' and p['to']['k'] == 'int':
        return set(range(p['from']['v'], p['to']['v'] + (1 if p['incl'] else 0)))
    raise Undecided('accepting-state pattern %s' % k)


def total_validators(facts_dir):
    """names of the validate_regex_* functions that are PROVEN total (defined on every byte string, i.e. they cannot panic):
    table-driven ones whose table is well formed, hand-written ones whose (true, false) languages cover all inputs.
    Used by the panic ledgers of C02 / C12 to discharge the sites inside the validators."""
    syn = load_syn({'facts': facts_dir})
    rxfile = syn[SPEC + 'regex.rs']
    fns = {f['name']: f for f in rxfile['fns']}
    interp = Interp(fns)
    out = set()
    for name, fn in fns.items():
        if not name.startswith('validate_regex_'):
            continue
        try:
            try:
                T, info = table_validator(fn, rxfile['statics'])
                if not info['problems']:
                    out.add(name)
                continue
            except Undecided:
                try:
                    T, info = fold_validator(name, fns, rxfile['statics'])
                    if not info['problems']:
                        out.add(name)
                    continue
                except Undecided:
                    T, F = interp.function(name)
            if T.union(F).complement().is_empty():
                out.add(name)
        except Undecided:
            pass
    return out


def run(ctx):
    C = Check('C19', ctx['tier'], 'proof', ctx['seed'])
    C.trusted_base = ['syn 2 parser + asd-syn extractor', 'regex->NFA->DFA construction and product/complement in rules/automata.py',
                      'shape recognisers / abstract interpreter in rules/rustexpr.py, configuration exploration in rules/foldinterp.py (fail closed on any construct outside the fragment)']
    C.rule('C19-DATA-lang', 'for each Pattern{check_fn, regex} literal in CHARACTER_DATA: L(check_fn) = L(^regex$) over all byte strings, and check_fn never panics; a mismatch carries a shortest distinguishing string')
    syn = load_syn(ctx)
    pats = pattern_specs(syn)
    if not pats:
        C.anchor_missing('C19-DATA-lang', 'CHARACTER_DATA Pattern literals')
        return C.finish('fail closed')
    rxfile = syn[SPEC + 'regex.rs']
    fns = {f['name']: f for f in rxfile['fns']}
    interp = Interp(fns)
    C.floor('C19-DATA-lang.pairs', len(pats), 29)
    C.floor('C19-DATA-lang.validators', len({p['check_fn'] for p in pats}), 28)
    seen_pairs = set()
    nstates = 0
    for p in pats:
        name, rxs = p['check_fn'], p['regex']
        key = '%s|%s' % (name, rxs)
        if key in seen_pairs:
            continue
        seen_pairs.add(key)
        where = '%sspecification.rs:%s' % (SPEC, p['line'])
        if name not in fns:
            C.fail('C19-DATA-lang', '%s|missing' % name, 'validator function %s not found in regex.rs' % name, where)
            continue
        try:
            L = regex_dfa(rxs)
        except (RegexError, ValueError, IndexError) as e:
            C.fail('C19-DATA-lang', '%s|regex-unparsed' % name, 'published regex %r outside the supported subset: %s' % (rxs, e), where)
            continue
        fn = fns[name]
        fwhere = '%sregex.rs:%s' % (SPEC, fn['line'])
        kind = None
        try:
            try:
                T, info = table_validator(fn, rxfile['statics'])
                F = T.complement()
                kind = 'table'
                for pr in info['problems']:
                    C.fail('C19-DATA-lang', '%s|table-wellformed|%s' % (name, pr.split(' = ')[0]), pr, fwhere)
                if not info['problems']:
                    # two independent readings of the same function must agree: the shape recogniser (table read off the literal) and
                    # the configuration exploration of foldinterp.py
                    try:
                        T2, info2 = fold_validator(name, fns, rxfile['statics'])
                        same, w2, _ = T.equiv(T2)
                        C.check(same, 'C19-DATA-lang', '%s|engines-agree' % name, 'the table reading and the evaluated reading of %s differ on "%s" (checker inconsistency, fail closed)' % (name, show(w2) if w2 is not None else ''), fwhere)
                    except Undecided:
                        pass
            except Undecided as tu:
                try:
                    # any other shape that consumes the input with one loop / fold (helper function, try_fold, ...)
                    T, info = fold_validator(name, fns, rxfile['statics'])
                    F = T.complement()
                    kind = 'fold'
                    for pr in info['problems']:
                        C.fail('C19-DATA-lang', '%s|panics' % name, pr, fwhere)
                except Undecided as fu:
                    T, F = interp.function(name)
                    kind = 'handwritten'
                    info = {}
        except Undecided as u:
            C.fail('C19-DATA-lang', '%s|undecided' % name, 'validator is outside the analysable fragment (%s); language equality not established' % u, fwhere)
            continue
        nstates += L.nstates() + T.nstates()
        eq, w, in_val = T.equiv(L)
        panic = T.union(F).complement()
        pw = panic.shortest()
        if pw is not None:
            C.fail('C19-DATA-lang', '%s|panics' % name, 'validator %s panics (index out of range) on input "%s"' % (name, show(pw)), fwhere)
        if eq:
            C.ok('C19-DATA-lang', key, 'L(%s) = L(%s) [%s, %d/%d states]' % (name, rxs, kind, T.nstates(), L.nstates()),
                 sample={'validator': name, 'regex': rxs, 'kind': kind, 'validator_states': T.nstates(), 'regex_states': L.nstates(), 'verdict': 'equal'})
        else:
            side = 'accepted by the validator but not matched by the regex' if in_val else 'matched by the regex but rejected by the validator'
            dh = T.product(L, lambda x, y: x != y).canon_hash()
            C.fail('C19-DATA-lang', '%s|differs|"%s"|%s|difflang=%s' % (name, show(w), 'val-accepts' if in_val else 'val-rejects', dh),
                   'L(%s) != L(%s): "%s" is %s' % (name, rxs, show(w), side), fwhere)
    # every validate_regex_* function is referenced (sibling completeness)
    unref = sorted(n for n in fns if n.startswith('validate_regex_') and n not in {p['check_fn'] for p in pats})
    C.check(not unref, 'C19-DATA-lang', 'all-validators-referenced', 'validators not referenced from CHARACTER_DATA: %s' % unref)
    C.extra['exhaustive'] = True
    C.extra['automaton_states_total'] = nstates
    C.extra['pairs'] = len(seen_pairs)
    return C.finish('Each of the (validator, regex) pairs found in the CHARACTER_DATA literal is decided by language equality of two '
                    'deterministic automata over the 256-byte alphabet (regex -> Thompson NFA -> subset construction; validator -> '
                    'DFA read off the literal transition table for the table-driven shape, or abstract interpretation of the boolean '
                    'slice expression into (true, false, panic) languages for the hand-written shape). Equality is over ALL byte strings.')

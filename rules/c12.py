"""C12 - single-threaded use never panics, hangs or reports a spurious lock conflict.
(a) no blocking acquisition of a lock the same call chain may already hold exclusively; (b) no try/timed acquisition (whose
failure becomes ParentElementLocked) of such a lock; (c) closed panic ledger for ALL public entry points; (d) loop progress
and recursion for all public entry points; (e) exact data rule discharging the compat-walk lookup."""
import json, os
from ir import Program, callee_of
from flow import call_matches, is_local_op, origins
from locks import LockGraph, own_str
from framework import Check
import ledger as LG
import events as E

REVIEWED_LOCK = {
    # key -> reason (premise checked where noted)
    'Element::move_element_here|held=Element:W:blocking@arg1|acq=Element:W:timed:error@arg2.parent|other':
        'src_parent == dest is excluded: ElementRaw::move_element_here compares src_parent.downgrade() with self_weak and returns before move_element_local (premise checked: eq call dominates the call)',
    'Element::move_element_here_at|held=Element:W:blocking@arg1|acq=Element:W:timed:error@arg2.parent|other':
        'same: move_element_here_at dispatches the same-parent case to move_element_position (premise checked)',
}


def run(ctx):
    C = Check('C12', ctx['tier'], 'other', ctx['seed'])
    P = Program(ctx['facts'])
    C.rule('C12-FLOW-selflock', 'no blocking acquisition of an element lock while this call chain holds a lock (one of them exclusive) on an object that is not provably distinct: same object, or two Element arguments without a dominating `==` early return')
    C.rule('C12-FLOW-spurious', 'no try/timed acquisition whose failure is turned into ParentElementLocked on an object that this call chain may already hold exclusively (distinct only if child-of-held, ancestor-of-held or fresh)')
    C.rule('C12-LEDGER-panic', 'closed ledger of panic-capable sites reachable from every public item of both crates (same discharge rules as C02)')
    C.rule('C12-FLOW-progress', 'loop progress for every loop reachable from a public item')
    C.rule('C12-FLOW-recursion', 'recursion reachable from a public item must be bounded by the specification, not by the element tree')
    C.rule('C12-DATA-compat-indices', 'exact, over the specification tables: all alternative types of one sub-element name place every shared sub-element name at the same positions, so positions found in the target-version type exist in the current type (discharges the unwrap in Element::check_version_compatibility)')
    C.assumptions = ['reviewed guards of tables/panic_ledger.json are trusted', 'single thread: no other holder of any lock']

    # ---------------- locks ----------------
    G = LockGraph(P)
    seen = set()
    n_lock = 0
    for e in G.edges:
        h, a = e['held'], e['acq']
        if h.cls == a.cls and h.cls in ('Model', 'File'):
            # the model / file lock taken again (one of them exclusive) by the call chain that already holds it: blocks forever
            if a.kind == 'blocking' and (h.mode == 'W' or a.mode == 'W') and e['rel'] == 'same':
                k = '%s|held=%s@%s|acq=%s@%s|same' % (e['fn'], h.desc(), own_str(h.own), a.desc(), own_str(a.own))
                if k not in seen:
                    seen.add(k)
                    n_lock += 1
                    C.fail('C12-FLOW-selflock', k, 'self-deadlock in single-threaded use: the %s lock is acquired (blocking, %s) while this call chain already holds it (%s); parking_lot locks are not reentrant, the call never returns' % (h.cls.lower(), a.mode, h.mode), e['where'])
            continue
        if h.cls != 'Element' or a.cls != 'Element':
            continue
        if not (h.mode == 'W' or a.mode == 'W'):
            continue   # read/read on one thread cannot block
        rel = e['rel']
        if a.kind == 'blocking':
            bad = rel in ('same', 'same?')
            # two distinct parameters of the function that holds the guard: alias unless an == guard dominates
            alias = rel == 'other' and h.own[0][0] == 'param' and a.own[0][0] == 'param' and not h.own[1] and not a.own[1] and h.own[0] != a.own[0]
            if not (bad or alias):
                continue
            k = '%s|held=%s@%s|acq=%s@%s|%s' % (e['fn'], h.desc(), own_str(h.own), a.desc(), own_str(a.own), 'same' if bad else 'alias')
            if k in seen:
                continue
            seen.add(k)
            n_lock += 1
            if alias and eq_guard(P, e['fn'], h.own[0][1], a.own[0][1]):
                C.ok('C12-FLOW-selflock', k + '|eq-guard', 'an `==` comparison of the two arguments with an early return dominates the acquisition', sample={'fn': e['fn'], 'guard': 'self == other -> early return'})
                continue
            C.fail('C12-FLOW-selflock', k, 'possible self-deadlock in single-threaded use: %s is acquired (blocking) while %s is held and the two may be the same element%s' % (
                a.desc(), h.desc(), ' (pass the same element for both arguments)' if alias else ''), e['where'])
        elif a.kind in ('try', 'timed') and a.onfail == 'error':
            if rel in ('child', 'parent', 'fresh') or h.own[0] == ('fresh',):
                continue
            k = '%s|held=%s@%s|acq=%s:%s@%s|%s' % (e['fn'], h.desc(), own_str(h.own), a.desc(), a.onfail, own_str(a.own), rel)
            if k in seen:
                continue
            seen.add(k)
            n_lock += 1
            if k in REVIEWED_LOCK and same_parent_guard(P):
                C.ok('C12-FLOW-spurious', k + '|reviewed', REVIEWED_LOCK[k])
                continue
            C.fail('C12-FLOW-spurious', k, 'possible spurious ParentElementLocked in single-threaded use: a %s acquisition (failure -> error) of %s while %s is held and the two are not provably distinct' % (
                a.kind, own_str(a.own), h.desc() + '@' + own_str(h.own)), e['where'])
    C.extra['lock_edges_examined'] = len(G.edges)
    C.floor('C12-FLOW-selflock.edges', len(G.edges), 200)

    # ---------------- ledger ----------------
    entry = [b.id for b in P.bodies.values() if b.reachable and b.kind != 'Closure']
    C.floor('C12-LEDGER-panic.entries', len(entry), 240)
    cl, sites = LG.run_ledger(C, P, 'C12-LEDGER-panic', entry, 'a public item')
    C.floor('C12-LEDGER-panic.sites', len(sites), 250)
    n = LG.run_progress(C, P, 'C12-FLOW-progress', cl)
    C.floor('C12-FLOW-progress.loops', n, 70)
    LG.run_recursion(C, P, 'C12-FLOW-recursion', cl)
    compat_indices(C, ctx)
    return C.finish('Single-thread reading of the lock graph (self-deadlock and spurious lock errors), closed panic ledger / loop progress / recursion for all %d public entry points, '
                    'and an exhaustive data rule over the specification tables. Does not decide value-dependent panics behind reviewed guards.' % len(entry))


def eq_guard(P, fn_short, pa, pb):
    """in the PUBLIC wrapper that holds the guard: an Element == comparison of the two params dominates the write() acquisition."""
    try:
        b = P.get(fn_short)
    except KeyError:
        return False
    eqs = [pos for pos, t in b.iter_calls() if call_matches(t, r'Element as .*PartialEq>::eq$|PartialEq.*>::eq$|PartialEq.*>::ne$')]
    acqs = [pos for pos, t in b.iter_calls() if call_matches(t, r'RwLock::<R, T>::(write|read)$')]
    return bool(eqs) and bool(acqs) and all(any(b.pos_dominates(e, a) for e in eqs) for a in acqs)


def same_parent_guard(P):
    ok = True
    for fn in ('ElementRaw::move_element_here', 'ElementRaw::move_element_here_at'):
        b = P.get(fn)
        eqs = [pos for pos, t in b.iter_calls() if call_matches(t, r'PartialEq for WeakElement>::eq$|WeakElement as .*PartialEq>::eq$')]
        ml = [pos for pos, t in b.iter_calls() if (callee_of(t) or '').endswith('move_element_local')]
        ok = ok and bool(eqs) and bool(ml) and all(any(b.pos_dominates(e, m) for e in eqs) for m in ml)
    return ok


def compat_indices(C, ctx):
    syn = json.load(open(os.path.join(ctx['facts'], 'syn.json')))['files']
    sp = syn['autosar-data-specification/src/specification.rs']
    st = {s['name']: s for s in sp['statics'] if not s['cfg']}
    try:
        elements = [(e['args'][0]['v'], e['args'][1]['v']) for e in st['ELEMENTS']['e']['es']]
        sub = [(e['name'], e['args'][0]['v']) for e in st['SUBELEMENTS']['e']['es']]
        ver = [x['v'] for x in st['VERSION_INFO']['e']['es']]
        dts = []
        for e in st['DATATYPES']['e']['es']:
            f = e['fields']
            s0, s1 = [x['v'] for x in f['sub_elements']['es']]
            dts.append((s0, s1, f['sub_element_ver']['v']))
    except (KeyError, TypeError, IndexError) as ex:
        C.anchor_missing('C12-DATA-compat-indices', 'specification tables (%s)' % ex)
        return

    def cells(t, prefix=(), depth=0):
        s0, s1, sv = dts[t]
        for i in range(s1 - s0):
            k, v = sub[s0 + i]
            if k == 'e':
                yield prefix + (i,), v, ver[sv + i]
            elif depth < 12:
                yield from cells(v, prefix + (i,), depth + 1)

    def cell_at(t, idx):
        for i, ix in enumerate(idx):
            s0, s1, sv = dts[t]
            if ix >= s1 - s0:
                return None
            k, v = sub[s0 + ix]
            if i == len(idx) - 1:
                return (k, v)
            if k != 'g':
                return None
            t = v
    pairs = 0
    bad = []
    cache = {}
    for Pt in range(len(dts)):
        byname = {}
        for idx, d, m in cells(Pt):
            byname.setdefault(elements[d][0], set()).add(elements[d][1])
        for name, types in byname.items():
            if len(types) < 2:
                continue
            for ta in types:
                for tb in types:
                    if ta == tb or (ta, tb) in cache:
                        continue
                    cache[(ta, tb)] = True
                    pairs += 1
                    names_a = {elements[d][0] for _, d, _ in cells(ta)}
                    for idxs, sd, sm in cells(tb):
                        sname = elements[sd][0]
                        if sname not in names_a:
                            continue
                        c = cell_at(ta, idxs)
                        if c is None or c[0] != 'e' or elements[c[1]][0] != sname:
                            bad.append((name, ta, tb, sname, idxs))
    C.check(not bad, 'C12-DATA-compat-indices', 'all-alternative-types', '%d (type, alternative type, sub-element) triples place a shared sub-element at different positions, e.g. %s: check_version_compatibility would unwrap None or read the wrong mask' % (len(bad), bad[:2]),
            sample={'alternative_type_pairs_examined': pairs, 'mismatches': len(bad)})
    C.floor('C12-DATA-compat-indices.pairs', pairs, 20)
    C.extra['compat_type_pairs'] = pairs

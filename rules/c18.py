"""C18 - specification tables are exact: name<->text bijections, version tables, table well-formedness (exact,
finite DATA rules over the extracted literals) + sibling agreement of listings and lookups (MIR)."""
import json, os, hashlib, re
from framework import Check, VERIF
from ir import Program, callee_of, has_field
from flow import origins, is_local_op, call_matches, must_pass, iter_uses

SPEC = 'autosar-data-specification/src/'
M32 = 0xFFFFFFFF


def strip(e):
    if isinstance(e, dict):
        return {k: strip(v) for k, v in e.items() if k != 'line'}
    if isinstance(e, list):
        return [strip(x) for x in e]
    return e


def skeleton(e, holes):
    """copy of the AST with integer literal values replaced by holes (collected in order)."""
    if isinstance(e, dict):
        if e.get('k') == 'int':
            holes.append(e['v'])
            return {'k': 'int'}
        return {k: skeleton(v, holes) for k, v in sorted(e.items()) if k != 'line'}
    if isinstance(e, list):
        return [skeleton(x, holes) for x in e]
    return e


def sha(x):
    return hashlib.sha256(json.dumps(x, sort_keys=True).encode()).hexdigest()[:16]


def rotl(x, r):
    return ((x << r) | (x >> (32 - r))) & M32


def walk(e):
    if isinstance(e, dict):
        yield e
        for v in e.values():
            for x in walk(v):
                yield x
    elif isinstance(e, list):
        for v in e:
            for x in walk(v):
                yield x


def hash_consts(body):
    """read the constants of hashfunc from its AST by role; None if any role is ambiguous."""
    try:
        consts = {n['name']: n['e']['v'] for n in walk(body) if n.get('k') == 'const' and n['e']['k'] == 'int'}
        seeds = {n['pat']['name']: n['init']['v'] for n in walk(body) if n.get('k') == 'local' and n.get('init') and n['init'].get('k') == 'int' and n['pat'].get('k') == 'ident'}
        rot = {'f1': set(), 'f2': set()}
        mul = {'f1': set(), 'f2': set()}
        for n in walk(body):
            if n.get('k') == 'mcall' and n['m'] == 'rotate_left' and n['recv'].get('k') == 'path' and n['recv']['v'] in rot:
                rot[n['recv']['v']].add(n['args'][0]['v'])
            if n.get('k') == 'assign' and n['l'].get('k') == 'path' and n['l']['v'] in mul:
                r = n['r']
                if r.get('k') == 'mcall' and r['m'] == 'wrapping_mul' and r['args'][0].get('k') == 'path':
                    mul[n['l']['v']].add(r['args'][0]['v'])
        widths = []
        for n in walk(body):
            if n.get('k') in ('while', 'if') and n['c'].get('k') == 'bin' and n['c']['op'] == '>=' and n['c']['l'].get('m') == 'len' and n['c']['r'].get('k') == 'int':
                w = n['c']['r']['v']
                blk = n['body'] if n['k'] == 'while' else n['t']
                rng = set()
                for m in walk(blk):
                    if m.get('k') == 'range':
                        for side in ('from', 'to'):
                            if m.get(side) and m[side].get('k') == 'int':
                                rng.add(m[side]['v'])
                if rng != {w}:
                    return None
                widths.append((n['k'], w))
        if len(rot['f1']) != 1 or len(rot['f2']) != 1 or len(mul['f1']) != 1 or len(mul['f2']) != 1:
            return None
        if [k for k, _ in widths] != ['while', 'if']:
            return None
        C1 = consts[next(iter(mul['f1']))]; C2 = consts[next(iter(mul['f2']))]
        return [C1, C2, seeds['f1'], seeds['f2'], widths[0][1], widths[0][1], next(iter(rot['f1'])), next(iter(rot['f2'])), widths[0][1], widths[1][1]]
    except (KeyError, IndexError, TypeError, StopIteration):
        return None


def hash_model(h, data):
    C1, C2, S1, S2, W4, _, R1, R2, _, W2 = h[:10]
    f1, f2 = S1, S2
    i = 0
    n = len(data)

    def mix(val, f1, f2):
        return ((rotl(f1, R1) ^ val) * C1) & M32, ((rotl(f2, R2) ^ val) * C2) & M32
    while n - i >= W4:
        val = int.from_bytes(data[i:i + W4], 'little')
        f1, f2 = mix(val, f1, f2)
        i += W4
    if n - i >= W2:
        val = int.from_bytes(data[i:i + W2], 'little')
        f1, f2 = mix(val, f1, f2)
        i += W2
    if n - i > 0:
        f1, f2 = mix(data[i], f1, f2)
    return f1 ^ f2, f1, f2


def run(ctx):
    C = Check('C18', ctx['tier'], 'proof', ctx['seed'])
    C.trusted_base = ['syn 2 + asd-syn (literal extraction)', 'the 25-line arithmetic model of hashfunc in rules/c18.py, tied to the source by skeleton hash + constants read from the AST',
                      'little-endian target (u32::from_ne_bytes) as built in this sandbox', 'rustc MIR + asd-mir for the SIB/MUST rules']
    syn = json.load(open(os.path.join(ctx['facts'], 'syn.json')))['files']
    ref = json.load(open(os.path.join(VERIF, 'tables', 'c18_skeletons.json')))
    C.rule('C18-DATA-names', 'for ElementName/AttributeName/EnumItem: discriminants = {0..N-1}, N = len(STRING_TABLE); no duplicate text; from_bytes compares the table text with the input before transmuting (=> non-members rejected, accepted input yields the item whose text it is); the perfect hash maps every table string to its own index')
    C.rule('C18-DATA-version', 'AutosarVersion: 21 distinct single-bit discriminants; filename injective; from_str(filename(v)) = v; from_u64(discr(v)) = v and nothing else maps; LATEST is the maximum')
    C.rule('C18-DATA-wellformed', 'every index stored in the specification tables is in range, ranges are ordered, the group graph is acyclic, masks are non-zero subsets of the 21 version bits')
    C.rule('C18-SIB-listing', 'listing iterators and lookups read the same cells (same statics, same accessor callees, same base+pos index shape)')
    C.rule('C18-SIB-dest', 'reference_dest_value returns only values drawn from REF_ITEMS[ref_info(target)] that are also in the DEST items; verify_reference_dest tests membership in the same slice')

    # ------------------------------------------------------------------ hashfunc model tie
    lib = syn[SPEC + 'lib.rs']
    hf = [f for f in lib['fns'] if f['name'] == 'hashfunc']
    holes = []
    model_ok = False
    if len(hf) != 1:
        C.anchor_missing('C18-DATA-names', 'hashfunc')
    else:
        sk = skeleton(hf[0]['body'], [])
        h = sha(sk)
        holes = hash_consts(hf[0]['body'])
        model_ok = (h == ref['hashfunc_skeleton']) and holes is not None
        C.check(model_ok, 'C18-DATA-names', 'hashfunc|model-matches-source',
                'the operator skeleton of hashfunc no longer matches the checker\'s model (sha %s, expected %s; constants %s): perfect-hash totality is undecided by this checker (fail closed)' % (h, ref['hashfunc_skeleton'], holes),
                where='%slib.rs:%s' % (SPEC, hf[0]['line']), sample={'hashfunc_constants': holes})
    total_names = 0
    for fname, enum in (('elementname.rs', 'ElementName'), ('attributename.rs', 'AttributeName'), ('enumitem.rs', 'EnumItem')):
        f = syn[SPEC + fname]
        en = [e for e in f['enums'] if e['name'] == enum]
        st = [s for s in f['statics'] if s['name'] == enum + '::STRING_TABLE']
        fb = [x for x in f['fns'] if x['name'] == 'from_bytes' and x['owner'] == enum]
        ts = [x for x in f['fns'] if x['name'] == 'to_str' and x['owner'] == enum]
        if len(en) != 1 or len(st) != 1 or len(fb) != 1 or len(ts) != 1:
            C.anchor_missing('C18-DATA-names', '%s enum/STRING_TABLE/from_bytes/to_str' % enum)
            continue
        en, st, fb, ts = en[0], st[0], fb[0], ts[0]
        table = [x.get('v') for x in st['e']['es']] if st['e']['k'] == 'array' else None
        if table is None or any(not isinstance(x, str) for x in table):
            C.fail('C18-DATA-names', '%s|string-table-literal' % enum, 'STRING_TABLE is not an array of string literals')
            continue
        N = len(table)
        total_names += N
        where = '%s%s' % (SPEC, fname)
        C.check(('[&\'staticstr;%d]' % N) == st['ty'].replace(' ', ''), 'C18-DATA-names', '%s|declared-length' % enum, 'declared STRING_TABLE type %s does not match %d entries' % (st['ty'], N), where)
        C.check(any('repr(u16)' in a.replace(' ', '') for a in en['attrs']) and N <= 65536, 'C18-DATA-names', '%s|repr-u16' % enum, 'enum is not #[repr(u16)] or has more than 65536 items', where)
        discr = {}
        bad = False
        for v in en['variants']:
            d = v['discr']
            if not d or d['k'] != 'int' or v['fields']:
                bad = True
                continue
            discr.setdefault(d['v'], []).append(v['name'])
        C.check(not bad, 'C18-DATA-names', '%s|explicit-discriminants' % enum, 'a variant has no explicit integer discriminant or carries fields', where)
        dup = {k: v for k, v in discr.items() if len(v) > 1}
        C.check(not dup, 'C18-DATA-names', '%s|discriminants-distinct' % enum, 'duplicate discriminants: %s' % list(dup.items())[:3], where)
        C.check(set(discr) == set(range(N)), 'C18-DATA-names', '%s|discriminants-cover-table' % enum,
                'discriminant set != {0..%d}: missing %s extra %s (transmute of a table index would be undefined / to_str would index out of range)' % (
                    N - 1, sorted(set(range(N)) - set(discr))[:5], sorted(set(discr) - set(range(N)))[:5]), where,
                sample={'enum': enum, 'items': N, 'discriminants': 'exactly 0..%d' % (N - 1)})
        seen = {}
        dups = []
        for i, s in enumerate(table):
            if s in seen:
                dups.append((s, seen[s], i))
            seen[s] = i
        C.check(not dups, 'C18-DATA-names', '%s|texts-distinct' % enum, 'duplicate texts in STRING_TABLE (to_str not injective): %s' % dups[:3], where)
        # to_str indexes the table with the discriminant
        tsk = sha(strip(ts['body']))
        tsk_norm = sha(json.loads(json.dumps(strip(ts['body'])).replace(enum, 'ENUM')))
        C.check(tsk_norm == ref['to_str_body'], 'C18-DATA-names', '%s|to_str-shape' % enum, 'to_str is no longer `ENUM::STRING_TABLE[*self as usize]` (sha %s)' % tsk_norm, where)
        # from_bytes template
        fholes = []
        fsk = skeleton(fb['body'], fholes)
        fsk_norm = json.loads(json.dumps(fsk).replace(enum, 'ENUM').replace('Parse%sError' % enum, 'PARSEERR'))
        # remove the displacement literal (data) from the skeleton
        disp = None
        for s0 in fsk_norm['stmts']:
            if s0.get('k') == 'static' and s0.get('name') == 'DISPLACEMENTS':
                disp_ty = s0['ty']
                s0['e'] = 'DATA'
                s0['ty'] = 'TY'
        hb = sha(fsk_norm)
        shape_ok = (hb == ref['from_bytes_skeleton'])
        C.check(shape_ok, 'C18-DATA-names', '%s|from_bytes-shape' % enum,
                'from_bytes no longer has the shape hash -> displacement -> index %% N -> compare STRING_TABLE[idx] with input (Err on mismatch) -> transmute (sha %s)' % hb, where)
        dstat = [s0 for s0 in fb['body']['stmts'] if s0.get('k') == 'static' and s0.get('name') == 'DISPLACEMENTS']
        if not dstat or not shape_ok:
            C.fail('C18-DATA-names', '%s|perfect-hash-undecided' % enum, 'perfect-hash totality undecided (from_bytes shape or DISPLACEMENTS literal not recognised)', where)
            continue
        dl = dstat[0]['e']['es']
        D = len(dl)
        disp = [(t['es'][0]['v'], t['es'][1]['v']) for t in dl]
        # holes of from_bytes (after the displacement data): [.. D .. N]
        tail = fholes[2 * D:]
        C.check(tail == [D, N] and ('[(u16,u16);%d]' % D) == dstat[0]['ty'].replace(' ', ''), 'C18-DATA-names', '%s|moduli-match-lengths' % enum,
                'from_bytes uses moduli %s but len(DISPLACEMENTS)=%d, len(STRING_TABLE)=%d' % (tail, D, N), where)
        if model_ok and tail == [D, N]:
            miss = []
            for i, s in enumerate(table):
                g, f1, f2 = hash_model(holes, s.encode())
                d1, d2 = disp[g % D]
                idx = ((d2 + f1 * d1 + f2) & M32) % N
                if idx != i:
                    miss.append((s, i, idx))
            C.check(not miss, 'C18-DATA-names', '%s|perfect-hash-total' % enum,
                    '%d table strings do not hash to their own index (from_str(to_str(x)) fails), e.g. %s' % (len(miss), miss[:3]), where,
                    sample={'enum': enum, 'perfect_hash': 'all %d strings map to their own index' % N})
    C.extra['names_checked'] = total_names

    # ------------------------------------------------------------------ MIR: compare before transmute
    P = Program(ctx['facts'])
    for enum in ('ElementName', 'AttributeName', 'EnumItem'):
        try:
            b = P.get('%s::from_bytes' % enum)
        except KeyError as e:
            C.anchor_missing('C18-MUST-compare', str(e))
            continue
        tr = [pos for pos, s in b.iter_stmts() if s['k'] == 'assign' and s['rv']['k'] == 'cast' and 'Transmute' in s['rv']['ck']]
        ne = [(pos, t) for pos, t in b.iter_calls() if call_matches(t, r'PartialEq.*::ne$|cmp::.*::ne$')]
        ok = len(tr) >= 1 and len(ne) == 1
        if ok:
            npos, nt = ne[0]
            tb = nt['t']
            sw = b.blocks[tb]['term']
            ok = sw['k'] == 'switch' and all(b.pos_dominates(npos, x) for x in tr)
            if ok:
                true_t = sw['else']  # ne() == true  => mismatch
                reach = b.reach_from((true_t, 0), include_start=True)
                ok = not any(x in reach for x in tr)
                # the mismatch edge ends in an Err aggregate
                errs = [p for p, s in b.iter_stmts() if s['k'] == 'assign' and s['rv']['k'] == 'agg' and s['rv'].get('var') == 'Err' and p in reach]
                ok = ok and len(errs) >= 1
        C.check(ok, 'C18-MUST-compare', '%s::from_bytes|compare-dominates-transmute' % enum,
                'in %s::from_bytes the transmute is not guarded by the byte comparison with the table text (a non-member text could be accepted)' % enum,
                where=b.where(tr[0]) if tr else '', sample={'fn': '%s::from_bytes' % enum, 'transmute_guarded_by': 'STRING_TABLE[idx].as_bytes() != input -> Err'})

    version_rules(C, syn)
    tables = wellformed(C, syn)
    sib_rules(C, P)
    C.rule('C18-WHO-tableindex', 'every index into DATATYPES is a type/group id and every index into ELEMENTS a definition id, by provenance (ElementType.typ vs .def are both u16)')
    table_index_provenance(C, P)
    C.extra['exhaustive'] = True
    # text -> item goes through ONE decoder: FromStr hands the bytes of its argument, unchanged, to from_bytes
    C.rule('C18-SIB-fromstr', 'FromStr for ElementName / AttributeName / EnumItem is exactly from_bytes(input.as_bytes()): nothing else touches the text (no trimming, case folding or normalisation), so "a text that is not exactly the text of an item fails" is decided by the one hash lookup that C18-DATA-names checks')
    for ty in ('ElementName', 'AttributeName', 'EnumItem'):
        b = P.find('<%s as FromStr>::from_str' % ty)
        if b is None:
            C.anchor_missing('C18-SIB-fromstr', 'FromStr for ' + ty)
            continue
        cs = [(callee_of(t) or '') for pos, t in b.iter_calls()]
        ok = len(cs) == 2 and cs[0].endswith('<impl str>::as_bytes') and cs[1].endswith('%s::from_bytes' % ty)
        if ok:
            t0 = [t for pos, t in b.iter_calls()][0]
            ok = is_local_op(t0['args'][0]) and (t0['args'][0]['l'] == 1 or any((org[0] == 'param' and org[1] == 1) or (org[0] == 'place' and org[1]['l'] == 1) or (isinstance(org[1], dict) and org[1].get('k') == 'assign' and org[1]['rv']['k'] == 'ref' and org[1]['rv']['pl']['l'] == 1) for org in origins(b, t0['args'][0])))
        C.check(ok, 'C18-SIB-fromstr', '%s|from_str-is-from_bytes-of-the-unchanged-text' % ty, 'FromStr for %s does more than from_bytes(input.as_bytes()) (%s): texts that are not exactly the text of an item convert' % (ty, [c.rsplit('::', 1)[-1] for c in cs]),
                '%s:%d' % (b.file, b.line), sample={'type': ty, 'callees': [c.rsplit('::', 1)[-1] for c in cs]})
    # lookups are functions of their arguments: the specification crate keeps no state between calls (a cache keyed by less than all
    # arguments returns the answer of an earlier call)
    C.rule('C18-WHO-pure', 'no body of autosar-data-specification touches interior-mutable or global mutable state (atomics, cells, locks, once-cells, thread locals): every lookup result depends on the arguments and the constant tables only')
    impure = []
    for b_ in P.bodies.values():
        if b_.crate != 'autosar_data_specification':
            continue
        for pos, t in b_.iter_calls():
            c = (callee_of(t) or '') + ' ' + ((t['f'].get('fn') or '') if isinstance(t['f'], dict) else '')
            if re.search(r'sync::atomic::|cell::(Cell|RefCell|UnsafeCell|OnceCell)|sync::(Mutex|RwLock|OnceLock|LazyLock|Once)\b|thread::local|LocalKey', c):
                impure.append((b_.short, b_.where(pos), c.split()[0].rsplit('::', 2)[-2:]))
    C.check(not impure, 'C18-WHO-pure', 'specification-crate-keeps-no-state', 'the specification crate reads or writes mutable global state (%s): the result of a lookup can depend on earlier calls (a cached answer for another version)' % ', '.join('%s in %s' % ('::'.join(x[2]), x[0]) for x in impure[:3]),
            impure[0][1] if impure else '', sample={'bodies_scanned': len([1 for b_ in P.bodies.values() if b_.crate == 'autosar_data_specification']), 'stateful_calls': len(impure)})
    # the same for the version label: every text comparison of AutosarVersion::from_str compares the argument itself
    b = P.find('<AutosarVersion as FromStr>::from_str')
    if b is None:
        C.anchor_missing('C18-SIB-fromstr', 'FromStr for AutosarVersion')
    else:
        def is_arg(o, depth=6):
            if not is_local_op(o):
                return False
            if o['l'] == 1:
                return True
            ogs = origins(b, o)
            return bool(ogs) and all((org[0] == 'param' and org[1] == 1) or (org[0] == 'place' and (org[1]['l'] == 1 or (depth > 0 and is_arg({'l': org[1]['l'], 'p': []}, depth - 1))))
                                     or (isinstance(org[1], dict) and org[1].get('k') == 'assign' and org[1]['rv']['k'] == 'ref' and (org[1]['rv']['pl']['l'] == 1 or (depth > 0 and is_arg({'l': org[1]['rv']['pl']['l'], 'p': []}, depth - 1)))) for org in ogs)
        eqs = [(pos, t) for pos, t in b.iter_calls() if call_matches(t, r'PartialEq.*>::(eq|ne)$|::eq_ignore_ascii_case$|::starts_with$|::ends_with$|::contains$')]
        odd = [(pos, t) for pos, t in eqs if not any(is_arg(a) for a in t['args']) or call_matches(t, r'::eq_ignore_ascii_case$|::starts_with$|::ends_with$|::contains$')]
        others = sorted({(callee_of(t) or '?').rsplit('::', 1)[-1] for pos, t in b.iter_calls() if not call_matches(t, r'PartialEq.*>::(eq|ne)$')})
        C.check(not odd, 'C18-SIB-fromstr', 'AutosarVersion|from_str-compares-the-unchanged-text', 'FromStr for AutosarVersion compares something other than its argument with the schema file names (%s): a text that is not exactly the file name of a version converts' % ('derived through ' + ', '.join(others) if others else 'derived text'),
                b.where(odd[0][0]) if odd else '%s:%d' % (b.file, b.line), sample={'type': 'AutosarVersion', 'comparisons': len(eqs), 'other_calls': others})
    return C.finish('Exact decision over the literal specification data extracted from the source text: every name of the three '
                    'name enums, every version, every cell of DATATYPES/ELEMENTS/SUBELEMENTS/ATTRIBUTES/VERSION_INFO/REF_ITEMS/'
                    'CHARACTER_DATA; plus MIR-level structure rules (comparison dominates transmute; listings and lookups read the same '
                    'cells; DEST values are drawn from the slice the verifier tests). Does not decide agreement with the AUTOSAR XSDs.')


# ---------------------------------------------------------------------- versions
def match_table(fn):
    """for `match x { PAT => EXPR, ... }` as the only/tail statement: list of (pat, expr)."""
    st = fn['body']['stmts']
    e = st[-1].get('e') if st else None
    if not e or e['k'] != 'match':
        return None
    return [(strip(a['pat']), strip(a['body'])) for a in e['arms']]


def from_str_by_search(f, fn, variants):
    """recognises  `CONST.iter().copied().find(|v| v.filename() == input).ok_or(Err)`  (also `.cloned()`, `into_iter()`, the operands of
    `==` swapped) where CONST is a literal array that lists every variant exactly once.  Returns True if from_str has that form."""
    if not fn:
        return None
    st = fn['body']['stmts']
    e = strip(st[-1].get('e')) if st and st[-1].get('e') else None
    if len(st) != 1 or not e or e.get('k') != 'mcall' or e.get('m') not in ('ok_or', 'ok_or_else') or len(e.get('args', [])) != 1:
        return None
    param = fn['params'][0]['pat'].get('name') if fn.get('params') else None
    fd = strip(e['recv'])
    if fd.get('k') != 'mcall' or fd.get('m') != 'find' or len(fd.get('args', [])) != 1:
        return None
    clo = strip(fd['args'][0])
    if clo.get('k') != 'closure' or len(clo.get('params', [])) != 1:
        return None
    cp = clo['params'][0]
    while cp.get('k') in ('ref', 'reference') and cp.get('pat'):
        cp = cp['pat']
    vname_ = cp.get('name')
    body = strip(clo['body'])
    if body.get('k') != 'bin' or body.get('op') != '==':
        return None
    def is_filename_of_v(x):
        x = strip(x)
        if x.get('k') == 'unary' and x.get('op') == '*':
            x = strip(x['e'])
        return x.get('k') == 'mcall' and x.get('m') == 'filename' and not x.get('args') and strip(x['recv']).get('k') == 'path' and strip(x['recv']).get('v') == vname_
    def is_input(x):
        x = strip(x)
        while x.get('k') == 'unary' and x.get('op') in ('*', '&'):
            x = strip(x['e'])
        return x.get('k') == 'path' and x.get('v') == param
    if not ((is_filename_of_v(body['l']) and is_input(body['r'])) or (is_filename_of_v(body['r']) and is_input(body['l']))):
        return None
    src = strip(fd['recv'])
    while src.get('k') == 'mcall' and src.get('m') in ('iter', 'copied', 'cloned', 'into_iter') and not src.get('args'):
        src = strip(src['recv'])
    if src.get('k') != 'path':
        return None
    cname = src['v'].split('::')[-1]
    cs = [s_ for s_ in f['statics'] if s_['name'].split('::')[-1] == cname and s_.get('e', {}).get('k') == 'array']
    if len(cs) != 1:
        return None
    items = [strip(x) for x in cs[0]['e']['es']]
    names = [x['v'].split('::')[-1] for x in items if x.get('k') == 'path']
    if len(names) != len(items) or len(set(names)) != len(names) or set(names) != set(variants):
        return None
    return True


def version_rules(C, syn):
    f = syn[SPEC + 'autosarversion.rs']
    where = SPEC + 'autosarversion.rs'
    en = [e for e in f['enums'] if e['name'] == 'AutosarVersion']
    if len(en) != 1:
        C.anchor_missing('C18-DATA-version', 'enum AutosarVersion')
        return
    disc = {}
    for v in en[0]['variants']:
        d = v['discr']
        if not d or d['k'] != 'int':
            C.fail('C18-DATA-version', 'discr|%s' % v['name'], 'variant without explicit discriminant', where)
            return
        disc[v['name']] = d['v']
    n = len(disc)
    C.floor('C18-DATA-version.variants', n, 21)
    C.check(all(x > 0 and (x & (x - 1)) == 0 for x in disc.values()) and len(set(disc.values())) == n, 'C18-DATA-version', 'single-distinct-bits',
            'discriminants are not distinct single bits', where, sample={'versions': n, 'bits': sorted(disc.values())[:4] + ['...']})
    C.check(any('repr(u32)' in a.replace(' ', '') for a in en[0]['attrs']), 'C18-DATA-version', 'repr-u32', 'AutosarVersion is not repr(u32)', where)
    fns = {(x['owner'], x['name']): x for x in f['fns']}
    fnm = match_table(fns.get(('AutosarVersion', 'filename'), {'body': {'stmts': []}}))
    fs = match_table(fns.get(('<AutosarVersion as core::str::FromStr>', 'from_str'), {'body': {'stmts': []}}))
    fu = match_table(fns.get(('<AutosarVersion as FromPrimitive>', 'from_u64'), {'body': {'stmts': []}}))
    fs_by_search = None
    if fnm and fu and not fs:
        fs_by_search = from_str_by_search(f, fns.get(('<AutosarVersion as core::str::FromStr>', 'from_str')), set(disc))
    if not fnm or not (fs or fs_by_search) or not fu:
        C.anchor_missing('C18-DATA-version', 'filename/from_str/from_u64 match tables')
        return
    def vname(p):
        return p.rsplit('::', 1)[-1]
    file_of = {}
    for pat, body in fnm:
        if pat['k'] == 'path' and body['k'] == 'str':
            file_of[vname(pat['v'])] = body['v']
    C.check(set(file_of) == set(disc), 'C18-DATA-version', 'filename-total', 'filename() does not cover exactly the variants', where)
    C.check(len(set(file_of.values())) == len(file_of), 'C18-DATA-version', 'filename-injective', 'two versions share a schema file name', where)
    from_str = {}
    wild_err = False
    if fs_by_search:
        # from_str(input) = the variant v of a constant list of ALL variants with v.filename() == input, else Err: the inverse of
        # filename() by construction (filename is injective, checked above)
        from_str = {fn_: v for v, fn_ in file_of.items()}
        wild_err = True
        fs = []
    for pat, body in fs:
        if pat['k'] == 'lit' and pat['e']['k'] == 'str' and body['k'] == 'call' and body['f'].get('v') == 'Ok':
            from_str[pat['e']['v']] = vname(body['args'][0]['v'])
        elif pat['k'] == 'wild' and body['k'] == 'call' and body['f'].get('v') == 'Err':
            wild_err = True
        else:
            C.fail('C18-DATA-version', 'from_str-arm|%s' % json.dumps(pat)[:60], 'unrecognised arm in from_str', where)
    C.check(wild_err, 'C18-DATA-version', 'from_str-rejects-others', 'from_str has no `_ => Err` arm', where)
    bad = [v for v, fn_ in file_of.items() if from_str.get(fn_) != v]
    C.check(not bad and len(from_str) == len(file_of), 'C18-DATA-version', 'from_str-inverts-filename', 'from_str(filename(v)) != v for %s (or extra texts accepted: %s)' % (bad, sorted(set(from_str) - set(file_of.values()))), where,
            sample={'from_str∘filename': 'identity on %d versions' % len(file_of)})
    from_u = {}
    wild_none = False
    for pat, body in fu:
        if pat['k'] == 'lit' and pat['e']['k'] == 'int' and body['k'] == 'call' and body['f'].get('v') == 'Some':
            from_u[pat['e']['v']] = vname(body['args'][0]['v'])
        elif pat['k'] == 'wild' and body.get('v') == 'None':
            wild_none = True
        else:
            C.fail('C18-DATA-version', 'from_u64-arm', 'unrecognised arm in from_u64', where)
    C.check(wild_none, 'C18-DATA-version', 'from_u64-rejects-others', 'from_u64 has no `_ => None` arm', where)
    bad = [v for v, d in disc.items() if from_u.get(d) != v]
    C.check(not bad and len(from_u) == n, 'C18-DATA-version', 'from_u64-inverts-discriminant', 'from_u64(discriminant(v)) != v for %s' % bad, where)
    # from_val delegates to from_u32 (num_traits default -> from_u64)
    fv = fns.get(('AutosarVersion', 'from_val'))
    okfv = fv and strip(fv['body']['stmts'][-1]['e']) == {'k': 'call', 'f': {'k': 'path', 'v': 'Self::from_u32'}, 'args': [{'k': 'path', 'v': 'n'}]}
    C.check(bool(okfv), 'C18-DATA-version', 'from_val-delegates', 'from_val is no longer Self::from_u32(n)', where)
    latest = [s for s in f['statics'] if s['name'] == 'AutosarVersion::LATEST']
    if latest and latest[0]['e']['k'] == 'path':
        lv = vname(latest[0]['e']['v'])
        C.check(disc.get(lv) == max(disc.values()), 'C18-DATA-version', 'latest-is-max', 'LATEST (%s) is not the highest version' % lv, where)
    else:
        C.anchor_missing('C18-DATA-version', 'AutosarVersion::LATEST')
    C.extra['version_bits'] = sum(disc.values())
    C._allbits = sum(disc.values())


# ---------------------------------------------------------------------- table well-formedness
def ints(t):
    return [x['v'] for x in t['es']]


def wellformed(C, syn):
    f = syn[SPEC + 'specification.rs']
    where = SPEC + 'specification.rs'
    st = {}
    for s in f['statics']:
        if not s['cfg']:
            st[s['name']] = s
    need = ['CHARACTER_DATA', 'REFERENCE_TYPE_IDX', 'ELEMENTS', 'AUTOSAR_ELEMENT', 'SUBELEMENTS', 'ATTRIBUTES', 'VERSION_INFO', 'DATATYPES', 'REF_ITEMS']
    for n in need:
        if n not in st:
            C.anchor_missing('C18-DATA-wellformed', 'static ' + n)
            return None
    allbits = getattr(C, '_allbits', (1 << 21) - 1)
    n_cd = len(st['CHARACTER_DATA']['e']['es'])
    elements = st['ELEMENTS']['e']['es']
    n_el = len(elements)
    sub = st['SUBELEMENTS']['e']['es']
    n_sub = len(sub)
    attrs = st['ATTRIBUTES']['e']['es']
    n_at = len(attrs)
    ver = ints(st['VERSION_INFO']['e'])
    n_ver = len(ver)
    dts = st['DATATYPES']['e']['es']
    n_dt = len(dts)
    n_ref = len(st['REF_ITEMS']['e']['es'])
    import re
    for name, n in (('CHARACTER_DATA', n_cd), ('ELEMENTS', n_el), ('SUBELEMENTS', n_sub), ('ATTRIBUTES', n_at), ('VERSION_INFO', n_ver), ('DATATYPES', n_dt), ('REF_ITEMS', n_ref)):
        m = re.search(r';(\d+)\]$', st[name]['ty'])
        C.check(bool(m) and int(m.group(1)) == n, 'C18-DATA-wellformed', '%s|declared-length' % name, 'declared length of %s (%s) != %d literal entries' % (name, st[name]['ty'], n), where)
    cells = 0
    problems = []

    def prob(key, msg):
        if len(problems) < 50:
            problems.append((key, msg))
    # ELEMENTS
    for i, e in enumerate(elements):
        cells += 1
        if e['k'] != 'macro' or e['name'] != 'element' or 'args' not in e or len(e['args']) != 7:
            prob('ELEMENTS|shape', 'ELEMENTS[%d] is not element!(7 args)' % i)
            continue
        a = e['args']
        if a[1]['k'] != 'int' or a[1]['v'] >= n_dt:
            prob('ELEMENTS|elemtype-range', 'ELEMENTS[%d].elemtype=%s >= len(DATATYPES)' % (i, a[1].get('v')))
        if a[4]['k'] != 'int' or (a[4]['v'] & ~allbits & 0xFFFFFFFF and a[4]['v'] != 0xFFFFFFFF):
            prob('ELEMENTS|splittable-mask', 'ELEMENTS[%d].splittable=%s has bits outside the version set' % (i, a[4].get('v')))
    # SUBELEMENTS
    subk = []
    for i, e in enumerate(sub):
        cells += 1
        if e['k'] != 'macro' or e['name'] not in ('e', 'g') or len(e.get('args', [])) != 1 or e['args'][0]['k'] != 'int':
            prob('SUBELEMENTS|shape', 'SUBELEMENTS[%d] is not e!(n)/g!(n)' % i)
            subk.append(('?', 0))
            continue
        v = e['args'][0]['v']
        subk.append((e['name'], v))
        if e['name'] == 'e' and v >= n_el:
            prob('SUBELEMENTS|element-range', 'SUBELEMENTS[%d] = e!(%d) >= len(ELEMENTS)' % (i, v))
        if e['name'] == 'g' and v >= n_dt:
            prob('SUBELEMENTS|group-range', 'SUBELEMENTS[%d] = g!(%d) >= len(DATATYPES)' % (i, v))
        elif e['name'] == 'g':
            gm = dts[v]['fields']['mode'].get('v') if dts[v].get('k') == 'struct' else None
            if gm == 'ContentMode::Characters':
                prob('SUBELEMENTS|groups-not-characters', 'SUBELEMENTS[%d] = g!(%d) refers to a Characters-mode type (the panic!/unreachable! arms for group modes become reachable)' % (i, v))
    # ATTRIBUTES
    for i, e in enumerate(attrs):
        cells += 1
        if e['k'] != 'tuple' or len(e['es']) != 3 or e['es'][1]['k'] != 'int':
            prob('ATTRIBUTES|shape', 'ATTRIBUTES[%d] malformed' % i)
        elif e['es'][1]['v'] >= n_cd:
            prob('ATTRIBUTES|chardata-range', 'ATTRIBUTES[%d].chardata=%d >= len(CHARACTER_DATA)' % (i, e['es'][1]['v']))
    for i, v in enumerate(ver):
        cells += 1
        if v & ~allbits:
            prob('VERSION_INFO|mask', 'VERSION_INFO[%d]=%#x has bits outside the version set' % (i, v))
    # DATATYPES
    groups = {}
    dt_parsed = []
    for i, e in enumerate(dts):
        cells += 1
        if e['k'] != 'struct' or e['path'] != 'ElementSpec':
            prob('DATATYPES|shape', 'DATATYPES[%d] is not an ElementSpec literal' % i)
            dt_parsed.append(None)
            continue
        fl = e['fields']
        try:
            s0, s1 = ints(fl['sub_elements'])
            sv = fl['sub_element_ver']['v']
            a0, a1 = ints(fl['attributes'])
            av = fl['attributes_ver']['v']
            r0, r1 = ints(fl['ref_info'])
            cd = fl['character_data']
            cdv = None if cd.get('v') == 'None' else cd['args'][0]['v']
            mode = fl['mode']['v']
        except (KeyError, ValueError, TypeError):
            prob('DATATYPES|shape', 'DATATYPES[%d] fields malformed' % i)
            dt_parsed.append(None)
            continue
        dt_parsed.append((s0, s1, sv, a0, a1, av, cdv, mode, r0, r1))
        if not (s0 <= s1 <= n_sub):
            prob('DATATYPES|sub_elements-range', 'DATATYPES[%d].sub_elements=(%d,%d) not ordered/in range' % (i, s0, s1))
        elif sv + (s1 - s0) > n_ver:
            prob('DATATYPES|sub_element_ver-range', 'DATATYPES[%d]: sub_element_ver %d + %d > len(VERSION_INFO)' % (i, sv, s1 - s0))
        if not (a0 <= a1 <= n_at):
            prob('DATATYPES|attributes-range', 'DATATYPES[%d].attributes=(%d,%d) not ordered/in range' % (i, a0, a1))
        elif av + (a1 - a0) > n_ver:
            prob('DATATYPES|attributes_ver-range', 'DATATYPES[%d]: attributes_ver %d + %d > len(VERSION_INFO)' % (i, av, a1 - a0))
        if not (r0 <= r1 <= n_ref):
            prob('DATATYPES|ref_info-range', 'DATATYPES[%d].ref_info=(%d,%d) not ordered/in range' % (i, r0, r1))
        if cdv is not None and cdv >= n_cd:
            prob('DATATYPES|character_data-range', 'DATATYPES[%d].character_data=%d >= len(CHARACTER_DATA)' % (i, cdv))
        if mode == 'ContentMode::Characters' and s1 != s0:
            prob('DATATYPES|characters-has-subelements', 'DATATYPES[%d] is Characters but lists sub elements' % i)
        if s0 <= s1 <= n_sub:
            groups[i] = [v for (k, v) in subk[s0:s1] if k == 'g']
    # group graph acyclic (bounded recursion of find_sub_element_internal / SubelemDefinitionsIter)
    color = {}
    cyc = []
    maxdepth = [0]
    import sys
    sys.setrecursionlimit(10000)

    def dfs(u, depth):
        color[u] = 1
        maxdepth[0] = max(maxdepth[0], depth)
        for v in groups.get(u, []):
            if color.get(v) == 1:
                cyc.append((u, v))
            elif color.get(v) is None:
                dfs(v, depth + 1)
        color[u] = 2
    for u in list(groups):
        if color.get(u) is None:
            dfs(u, 0)
    for c in cyc[:5]:
        prob('DATATYPES|group-cycle', 'group graph has a cycle through %d -> %d (unbounded recursion in find_sub_element_internal)' % c)
    # groups referenced via g! must not be Characters
    # scalars
    rti = st['REFERENCE_TYPE_IDX']['e']
    ae = st['AUTOSAR_ELEMENT']['e']
    if rti['k'] != 'int' or rti['v'] >= n_cd:
        prob('REFERENCE_TYPE_IDX|range', 'REFERENCE_TYPE_IDX out of range')
    else:
        cde = st['CHARACTER_DATA']['e']['es'][rti['v']]
        if cde.get('path') != 'CharacterDataSpec::Pattern':
            prob('REFERENCE_TYPE_IDX|pattern', 'CHARACTER_DATA[REFERENCE_TYPE_IDX] is not a Pattern entry')
    if ae['k'] != 'int' or ae['v'] >= n_el:
        prob('AUTOSAR_ELEMENT|range', 'AUTOSAR_ELEMENT out of range')
    # enum item masks in CHARACTER_DATA
    n_items = 0
    for i, e in enumerate(st['CHARACTER_DATA']['e']['es']):
        cells += 1
        if e.get('path') == 'CharacterDataSpec::Enum':
            it = e['fields']['items']
            arr = it['e']['es'] if it['k'] == 'ref' else it.get('es', [])
            for t in arr:
                n_items += 1
                m = t['es'][1]['v']
                if m == 0 or (m & ~allbits):
                    prob('CHARACTER_DATA|enum-mask', 'CHARACTER_DATA[%d] enum item %s has mask %#x' % (i, t['es'][0].get('v'), m))
    seen_keys = set()
    for key, msg in problems:
        k2 = key
        j = 1
        while k2 in seen_keys:
            j += 1
            k2 = '%s#%d' % (key, j)
        seen_keys.add(k2)
        C.fail('C18-DATA-wellformed', k2, msg, where)
    C.ok('C18-DATA-wellformed', 'all-cells', '%d cells examined, group nesting depth %d, %d enum items' % (cells, maxdepth[0], n_items),
         sample={'cells_examined': cells, 'group_nesting_depth': maxdepth[0], 'tables': {'DATATYPES': n_dt, 'ELEMENTS': n_el, 'SUBELEMENTS': n_sub, 'ATTRIBUTES': n_at, 'VERSION_INFO': n_ver, 'REF_ITEMS': n_ref, 'CHARACTER_DATA': n_cd}})
    C.floor('C18-DATA-wellformed.cells', cells, 49000)
    C.extra['cells_examined'] = cells
    C.extra['group_nesting_depth'] = maxdepth[0]
    return dt_parsed


# ---------------------------------------------------------------------- sibling rules on MIR
def statics_of(b):
    out = set()
    for pos, role, o, st in iter_uses(b):
        if isinstance(o, dict) and 'static' in o:
            out.add(o['static'].rsplit('::', 1)[-1])
    return out


def callees_of(P, b, depth=1):
    out = set()
    for pos, t in b.iter_calls():
        c = callee_of(t)
        if c in P.bodies:
            out.add(P.bodies[c].short)
    return out


def fields_of(b):
    out = set()
    for pos, role, o, st in iter_uses(b):
        if is_local_op(o):
            for p in o['p']:
                if p.startswith('.') and not p[1:2].isdigit():
                    out.add(p[1:])
    return out


def sib_rules(C, P):
    S = 'autosar_data_specification'
    def closure_info(shorts):
        st, cl, fl = set(), set(), set()
        for s in shorts:
            b = P.get(s)
            for x in P.with_closures(b):
                st |= statics_of(x)
                cl |= callees_of(P, x)
                fl |= fields_of(x)
        return st, cl, fl
    try:
        # sub elements: listing vs lookup
        st1, cl1, fl1 = closure_info(['<SubelemDefinitionsIter as Iterator>::next'])
        st2, cl2, fl2 = closure_info(['ElementType::find_sub_element_internal', 'ElementType::get_sub_elements'])
        cols = {
            'range accessor get_sub_element_idx': ('ElementType::get_sub_element_idx' in cl1, 'ElementType::get_sub_element_idx' in cl2),
            'SUBELEMENTS table': ('SUBELEMENTS' in st1, 'SUBELEMENTS' in st2),
            'version base get_sub_element_ver': ('ElementType::get_sub_element_ver' in cl1, 'ElementType::get_sub_element_ver' in cl2),
            'VERSION_INFO table': ('VERSION_INFO' in st1, 'VERSION_INFO' in st2),
            'ELEMENTS name': ('ELEMENTS' in st1 and 'ElementDefinition.name' in fl1, 'ELEMENTS' in st2 and 'ElementDefinition.name' in fl2),
            'type from ElementType::new': ('ElementType::new' in cl1, 'ElementType::new' in cl2),
        }
        for col, (a, b) in cols.items():
            C.check(a and b, 'C18-SIB-listing', 'subelements|%s' % col, 'sub-element listing (%s) and lookup (%s) no longer both use: %s' % (a, b, col),
                    sample={'column': col, 'listing': a, 'lookup': b})
        # index shape: VERSION_INFO[get_sub_element_ver(t) + pos]
        for s in ('<SubelemDefinitionsIter as Iterator>::next', 'ElementType::find_sub_element_internal', 'ElementType::find_attribute_spec'):
            b = P.get(s)
            ok = any(version_index_shape(x) for x in P.with_closures(b))
            C.check(ok, 'C18-SIB-listing', '%s|version-index-is-base-plus-pos' % s, 'VERSION_INFO is not indexed by <accessor result> + <position> in %s' % s)
        version_base_rule(C, P, 'C18-SIB-listing')
        # attributes
        st1, cl1, fl1 = closure_info(['<AttrDefinitionsIter as Iterator>::next'])
        st2, cl2, fl2 = closure_info(['ElementType::find_attribute_spec'])
        cols = {
            'range accessor get_attributes_idx': ('ElementType::get_attributes_idx' in cl1, 'ElementType::get_attributes_idx' in cl2),
            'ATTRIBUTES table': ('ATTRIBUTES' in st1, 'ATTRIBUTES' in st2),
            'CHARACTER_DATA table': ('CHARACTER_DATA' in st1, 'CHARACTER_DATA' in st2),
        }
        for col, (a, b) in cols.items():
            C.check(a and b, 'C18-SIB-listing', 'attributes|%s' % col, 'attribute listing (%s) and lookup (%s) no longer both use: %s' % (a, b, col), sample={'column': col, 'listing': a, 'lookup': b})
        # accessors read the right DATATYPES field
        for s, fld in (('ElementType::get_sub_element_idx', 'ElementSpec.sub_elements'), ('ElementType::get_sub_element_ver', 'ElementSpec.sub_element_ver'),
                       ('ElementType::get_attributes_idx', 'ElementSpec.attributes'), ('ElementType::get_attributes_ver', 'ElementSpec.attributes_ver')):
            b = P.get(s)
            C.check('DATATYPES' in statics_of(b) and fld in fields_of(b) and len(fields_of(b) & {'ElementSpec.sub_elements', 'ElementSpec.sub_element_ver', 'ElementSpec.attributes', 'ElementSpec.attributes_ver'}) == 1,
                    'C18-SIB-listing', '%s|reads:%s' % (s, fld), '%s no longer reads exactly DATATYPES[..].%s' % (s, fld))
        # lookup returns only under name equality AND version test
        b0 = P.get('ElementType::find_sub_element_internal')
        ok = False
        direct = []
        # the loop body may live in a closure (`iter().enumerate().find_map(|..| ..)`): the version is then a captured variable
        for b in P.with_closures(b0):
            somes = [pos for pos, s in b.iter_stmts() if s['k'] == 'assign' and s['rv']['k'] == 'agg' and s['rv'].get('var') == 'Some']
            eqs = [pos for pos, t in b.iter_calls() if call_matches(t, r'ElementName as .*PartialEq>::eq$')]
            # the version mask is the u32 parameter of the function, whatever it is called (inside a closure: the captured variable of that name)
            vparam = [l for l in range(1, b.argc + 1) if (b.local_ty(l) or '') == 'u32'] if b is b0 else []
            vnames = {b0.names.get(l) for l in range(1, b0.argc + 1) if (b0.local_ty(l) or '') == 'u32'} - {None}
            ands = []
            for pos, s in b.iter_stmts():
                if s['k'] == 'assign' and s['rv']['k'] == 'bin' and s['rv']['op'] == 'BitAnd' and 'x' not in s['s']:
                    oa = origins(b, s['rv']['a']) + origins(b, s['rv']['b'])
                    from flow import upvar_names
                    if any(o[0] == 'param' and o[1] in vparam for o in oa) or (vnames & (upvar_names(b, s['rv']['a']) | upvar_names(b, s['rv']['b']))):
                        ands.append(pos)
            if somes and eqs and ands:
                ok = True
                direct += [p for p in somes if any(b.pos_dominates(e, p) for e in eqs) and any(b.pos_dominates(a, p) for a in ands)]
        C.check(ok and len(direct) >= 1, 'C18-SIB-listing', 'find_sub_element_internal|match-needs-name-and-version', 'the direct match in find_sub_element_internal is no longer guarded by both the name comparison and the version-mask test')
        # dest
        st1, cl1, fl1 = closure_info(['ElementType::reference_dest_value'])
        st2, cl2, fl2 = closure_info(['ElementType::verify_reference_dest'])
        for col, (a, b_) in {'REF_ITEMS table': ('REF_ITEMS' in st1, 'REF_ITEMS' in st2), 'DATATYPES.ref_info': ('ElementSpec.ref_info' in fl1, 'ElementSpec.ref_info' in fl2)}.items():
            C.check(a and b_, 'C18-SIB-dest', col, 'reference_dest_value (%s) and verify_reference_dest (%s) no longer both use %s' % (a, b_, col), sample={'column': col, 'proposer': a, 'verifier': b_})
        rb = P.get('ElementType::reference_dest_value')
        C.check('ElementType::find_attribute_spec' in cl1 and 'CharacterDataSpec.items' in fl1, 'C18-SIB-dest', 'proposer-reads-DEST-items', 'reference_dest_value no longer intersects with the DEST attribute\'s enum items')
        somes = [pos for pos, s in rb.iter_stmts() if s['k'] == 'assign' and s['rv']['k'] == 'agg' and s['rv'].get('var') == 'Some' and s['rv'].get('adt') == 'Option']
        eqs = [pos for pos, t in rb.iter_calls() if call_matches(t, r'PartialEq.*::eq$')]
        good = [p for p in somes if any(rb.pos_dominates(e, p) for e in eqs)]
        # alternative form: the value is selected by an iterator search whose predicate (possibly a nested any()) contains the equality test
        from flow import deep_sources as _dsr
        rc_ = _dsr(rb, {'l': 0, 'p': []}, depth=14)[1]
        alt = not somes and any(re.search(r'Iterator>?::(find|filter|find_map|position)$', c or '') for c in rc_) and any((c or '').endswith('::eq') for c in rc_)
        C.check((len(good) >= 1 and len(good) == len(somes)) or alt, 'C18-SIB-dest', 'proposer-returns-only-on-equality', 'reference_dest_value can return a value without the equality test against a DEST item')
        # the ref_info index in the proposer uses `other.typ`, in the verifier `self.typ`
        vb = P.get('ElementType::verify_reference_dest')
        C.check(len(list(vb.calls_to(r'contains'))) == 1, 'C18-SIB-dest', 'verifier-tests-membership', 'verify_reference_dest no longer tests membership with contains()')
    except KeyError as e:
        C.anchor_missing('C18-SIB-listing', str(e))


TABLE_INDEX_SOURCES = {
    'DATATYPES': {'field:ElementType.typ', 'field:GroupType.0', 'payload:Group', 'param:etype'},
    'ELEMENTS': {'field:ElementType.def', 'payload:Element', 'param:def'},
}


def version_base_rule(C, P, RULE):
    """get_sub_element_spec (behind get_sub_element_version_mask / _multiplicity, which the strict validator and the editor consult): the version base follows the group descent"""
    # get_sub_element_spec descends through groups: the version base must follow the sub-element slice level by level
    gs = P.get('ElementType::get_sub_element_spec')
    se = [(pos, t) for pos, t in gs.iter_calls() if call_matches(t, r'ElementType::get_sub_elements$')]
    sv = [(pos, t) for pos, t in gs.iter_calls() if call_matches(t, r'ElementType::get_sub_element_ver$')]
    from flow import deep_sources
    def argsrc(b, t):
        n_, c_, f_ = deep_sources(b, t['args'][0])
        return (frozenset(n_), frozenset(x for x in f_))
    okp = len(se) == len(sv) and len(se) >= 2 and sorted(map(str, (argsrc(gs, t) for _, t in se))) == sorted(map(str, (argsrc(gs, t) for _, t in sv)))
    C.check(okp, RULE, 'get_sub_element_spec|version-base-follows-group-descent',
            'get_sub_element_spec switches the sub-element slice when it descends into a group (%d sites) but not the version-list base (%d sites): masks of grouped sub-elements are read from the wrong list' % (len(se), len(sv)),
            sample={'fn': 'get_sub_element_spec', 'slice_switches': len(se), 'version_base_switches': len(sv)})
    # ... and the VERSION_INFO index uses the loop-carried base (all get_sub_element_ver results reach it)
    reach_all = False
    vi_locals = set()
    for pos, s_ in gs.iter_stmts():
        if s_['k'] == 'assign' and s_['rv']['k'] == 'use' and isinstance(s_['rv']['o'], dict) and s_['rv']['o'].get('static', '').endswith('VERSION_INFO'):
            vi_locals.add(s_['dst']['l'])
    for pos, s_ in gs.iter_stmts():
        if s_['k'] == 'assign' and s_['rv']['k'] == 'bin' and 'Add' in s_['rv']['op']:
            got = set()
            for o in (s_['rv']['a'], s_['rv']['b']):
                for org in origins(gs, o):
                    if org[0] not in ('param', 'const', 'place') and org[1].get('k') == 'call' and call_matches(org[1], r'get_sub_element_ver$'):
                        got.add(id(org[1]))
            if len(got) == len(sv) and len(sv) >= 2:
                reach_all = True
    C.check(reach_all, RULE, 'get_sub_element_spec|mask-index-uses-current-level-base', 'the VERSION_INFO index in get_sub_element_spec is not computed from the version base of the level that was reached')


def table_index_provenance(C, P):
    """every index into DATATYPES / ELEMENTS is a type id / definition id by provenance (ElementType.typ vs .def are
    both u16 and silently interchangeable)."""
    n = 0
    for b in P.bodies.values():
        if b.crate != 'autosar_data_specification':
            continue
        tabs = {}
        for pos, s in b.iter_stmts():
            if s['k'] == 'assign' and s['rv']['k'] == 'use' and isinstance(s['rv']['o'], dict) and 'static' in s['rv']['o']:
                nm = s['rv']['o']['static'].rsplit('::', 1)[-1]
                if nm in TABLE_INDEX_SOURCES and not s['dst']['p']:
                    tabs[s['dst']['l']] = nm
        if not tabs:
            continue
        seen = set()
        for pos, role, o, st in iter_uses(b):
            if not (is_local_op(o) and o['l'] in tabs):
                continue
            idxs = [p for p in o['p'] if p.startswith('[_')]
            if not idxs:
                continue
            il = int(idxs[0][2:-1])
            if (o['l'], il) in seen:
                continue
            seen.add((o['l'], il))
            tab = tabs[o['l']]
            srcs = set()
            for org in origins(b, {'l': il, 'p': []}):
                if org[0] == 'param':
                    srcs.add('param:%s' % b.names.get(org[1], '_%d' % org[1]))
                elif org[0] == 'place':
                    pl = org[1]
                    flds = [p for p in pl['p'] if p.startswith('.')]
                    downs = [p for p in pl['p'] if p.startswith('as ')]
                    if flds and flds[-1] == '.SubElement.0' and downs:
                        srcs.add('payload:' + downs[-1][3:])
                    elif flds and not flds[-1][1:2].isdigit():
                        srcs.add('field:' + flds[-1][1:])
                    elif downs:
                        srcs.add('payload:' + downs[-1][3:])
                    elif flds:
                        # tuple field of a param/deref, e.g. (*self).0 of GroupType
                        ty = b.local_ty(pl['l'])
                        srcs.add('field:%s%s' % ('GroupType' if 'GroupType' in ty else ty, flds[-1]))
                    else:
                        # deref of a reference bound by a pattern (e.g. `SubElement::Group(groupid)` -> *groupid)
                        srcs.add('deref:%s' % b.names.get(pl['l'], b.local_ty(pl['l'])))
                elif org[0] == 'const':
                    srcs.add('const')
                else:
                    srcs.add('computed')
            n += 1
            allowed = TABLE_INDEX_SOURCES[tab] | {'deref:groupid', 'deref:definiton_id', 'deref:idx', 'deref:chardata_id'}
            if tab == 'DATATYPES':
                allowed = allowed - {'deref:definiton_id', 'deref:idx'}
            else:
                allowed = allowed - {'deref:groupid'}
            ok = bool(srcs) and srcs <= allowed
            C.check(ok, 'C18-WHO-tableindex', '%s|%s[%s]' % (b.short, tab, ','.join(sorted(srcs))),
                    '%s indexes %s with a value of provenance %s (expected a %s)' % (b.short, tab, sorted(srcs), 'type id (.typ / group id)' if tab == 'DATATYPES' else 'definition id (.def / element id)'),
                    where=b.where(pos), sample={'fn': b.short, 'table': tab, 'index_from': sorted(srcs)} if n % 5 == 0 else None)
    C.floor('C18-WHO-tableindex', n, 20)


def version_index_shape(b):
    """some Index into the VERSION_INFO static uses a local that is the sum of a get_*_ver() result and another value."""
    vi_locals = set()
    for pos, s in b.iter_stmts():
        if s['k'] == 'assign' and s['rv']['k'] == 'use' and isinstance(s['rv']['o'], dict) and s['rv']['o'].get('static', '').endswith('VERSION_INFO'):
            vi_locals.add(s['dst']['l'])
    if not vi_locals:
        return False
    for pos, role, o, st in iter_uses(b):
        if is_local_op(o) and o['l'] in vi_locals and any(p.startswith('[_') for p in o['p']):
            idx = [p for p in o['p'] if p.startswith('[_')][0]
            il = int(idx[2:-1])
            for org in origins(b, {'l': il, 'p': []}):
                if org[0] in ('param', 'const', 'place'):
                    continue
                st2 = org[1]
                # _idx = move (_t.0) where _t = AddWithOverflow(a, b)
                if st2.get('k') == 'assign' and st2['rv']['k'] == 'bin' and 'Add' in st2['rv']['op']:
                    if _has_ver_origin(b, st2['rv']['a']) or _has_ver_origin(b, st2['rv']['b']):
                        return True
            # place origin: _29 = move (_32.0)
            for pos2, s2 in b.iter_stmts():
                if s2['k'] == 'assign' and not s2['dst']['p'] and s2['dst']['l'] == il and s2['rv']['k'] == 'use' and is_local_op(s2['rv']['o']) and s2['rv']['o']['p'] == ['.0']:
                    tl = s2['rv']['o']['l']
                    for pos3, s3 in b.iter_stmts():
                        if s3['k'] == 'assign' and s3['dst']['l'] == tl and s3['rv']['k'] == 'bin' and 'Add' in s3['rv']['op']:
                            if _has_ver_origin(b, s3['rv']['a']) or _has_ver_origin(b, s3['rv']['b']):
                                return True
    return False


def _has_ver_origin(b, o):
    for org in origins(b, o):
        if org[0] not in ('param', 'const', 'place') and org[1].get('k') == 'call' and call_matches(org[1], r'get_(sub_element|attributes)_ver$'):
            return True
    return False

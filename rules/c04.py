"""C04 - path lookup is exact: every event that changes which identifiable elements exist (or their paths) is paired
with the matching edit of AutosarModelRaw.identifiables; names are checked for uniqueness before they are installed;
prefix re-keying is segment-safe."""
import re
from ir import Program, callee_of, has_field
from flow import origins, is_local_op, call_matches, must_pass, iter_uses, forward_taint, resolve_place, const_val, switch_edges_on_call_result
import events as E
from pairing import paired, dominated_by, followed_on_ok_paths, calls
from framework import Check


def ident_positions(b, kinds):
    return [o['pos'] for o in E.ident_ops(b) if o['op'] in kinds]


def before_on_all_paths(b, pos, partners):
    through = set(partners) | E.loops_containing(b, partners)
    return bool(partners) and must_pass(b, (0, 0), [pos], through)


def param_of(b, o):
    """parameter index an operand originates from (through refs/copies), or None"""
    for org in origins(b, o):
        if org[0] == 'param':
            return org[1]
        if org[0] == 'place' and not org[1]['p']:
            return org[1]['l'] if 1 <= org[1]['l'] <= b.argc else None
    if is_local_op(o):
        pl = resolve_place(b, {'l': o['l'], 'p': ['*']})
        if 1 <= pl['l'] <= b.argc:
            return pl['l']
    return None


# reviewed ledger for insertion of Element items: function -> (relation, partner kinds, reason)
INSERT = {
    'ElementRaw::create_named_sub_element_inner': ('followed', {'add'}, 'the new named element is registered under its path before Ok is returned'),
    'ElementRaw::create_copied_sub_element_inner': ('before', {'add'}, 'every identifiable element of the copy is registered by the DFS loop before the copy is linked'),
    'ElementRaw::move_element_local': ('before', {'fix'}, 'the moved subtree is re-keyed (whole prefix, or each collected path) before it is linked'),
    'ElementRaw::move_element_full': ('before', {'add'}, 'every collected path is registered in the destination model before the subtree is linked'),
}
INSERT_EXEMPT = {
    'AutosarModel::import_new_items': 'merge: the imported elements\' paths were collected by the parser and are inserted in bulk by load_buffer_internal (checked: C04-PAIR-index load_buffer_internal|bulk-insert)',
    'ArxmlParser::parse_element': 'builds a detached tree; paths are collected in ArxmlParser.identifiables (checked) and installed by load_buffer_internal',
    'ElementRaw::deep_copy': 'builds a detached copy (parent None); registration is done by create_copied_sub_element_inner',
    'ElementRaw::create_sub_element_inner': 'creates only elements that are not named in the file version (checked: Err on is_named_in_version)',
    'ElementRaw::sort': 're-inserts the same handles (C14)',
}
REMOVE = {
    ('ElementRaw::remove_sub_element', 'remove'): ('dominated', r'remove_internal$', None),
    ('ElementRaw::move_element_local', 'remove'): ('followed', None, {'fix'}),
    ('ElementRaw::move_element_full', 'remove'): ('followed', None, {'remove'}),
    ('ElementRaw::remove_internal', 'clear'): ('dominated-or-loop', r'remove_internal$', None),
    ('AutosarModel::remove_file', 'clear'): ('dominated', None, {'clear'}),
    ('Element::set_character_data_internal', 'clear'): ('dominated-or-loop', r'remove_sub_element$', None),
}
REMOVE_EXEMPT = {('Element::remove_character_data', 'clear'), ('Element::remove_character_content_item', 'remove'), ('ElementRaw::make_unique_item_name', 'clear'),
                 ('ElementRaw::set_character_data_internal', 'index-assign'), ('ElementRaw::set_item_name', 'index-assign'), ('ElementRaw::sort', 'clear')}


def rekey_scan_rule(C, P, RULE):
    """re-keying walks over EVERY key of the index: no range / skip / take restriction (the map order is not the tree order: swap_remove
    moves the last entry into the hole).  Shared: C04 (index = tree) and C06 (a rewritten reference must still resolve)."""
    fi = P.get('AutosarModel::fix_identifiables')
    ks = calls(fi, r'IndexMap::<K, V, S>::(keys|iter|iter_mut)$')
    lim = calls(fi, r'Iterator>?::(skip|take|skip_while|take_while|step_by|rev)$|IndexMap::<K, V, S>::(get_index_of|get_range|get_index|split_off|first|last)$')
    C.check(len(ks) >= 1 and not lim, RULE, 'fix_identifiables|scans-every-key', 'fix_identifiables does not examine every key of the path index (skip/take/index range): nested entries that are stored before their container in the map keep their old path after a rename or move',
            fi.where(lim[0]) if lim else '%s:%d' % (fi.file, fi.line), sample={'fn': 'fix_identifiables', 'scan': 'identifiables.keys() (all)'})


def run(ctx):
    C = Check('C04', ctx['tier'], 'other', ctx['seed'])
    P = Program(ctx['facts'])
    C.rule('C04-PAIR-index', 'every insertion/removal of element items and every write of SHORT-NAME text is paired (dominance / all-Ok-paths) with add_/fix_/remove_identifiable or a bulk edit of the path index; reviewed exemptions for detached trees')
    C.rule('C04-MUST-unique', 'a name is installed only after get_element_by_path(new path) was consulted, and its Some edge leaves through an Err exit or a renaming loop')
    C.rule('C04-DEV-prefix', 'every str::strip_prefix result used to re-key paths is tested is_empty() || starts_with(\'/\') (the /pkg1 vs /pkg10 guard), or its strings are paths collected from the moved subtree itself')
    C.rule('C04-MUST-identifiable', 'every site that adds an entry to the path index registers an element for which is_identifiable() holds: the insertion is only reachable over the true edge of an is_identifiable() test, '
           'or the key was produced by Element::path() (which fails for anything else), or the element was just given a SHORT-NAME as first item; the parser registers only a SHORT-NAME that is the first sub element')
    C.rule('C04-SIB-model', 'in the cross-model move the uniqueness check and the registration use the destination model, the de-registration the source model')
    C.assumptions = ['identity of objects approximated by co-occurrence in one function plus dominance', 'does not decide index = tree after arbitrary histories, nor duplicates inside one loaded document']

    n_trig = 0
    for b in sorted(P.bodies.values(), key=lambda x: x.short):
        if b.crate != 'autosar_data':
            continue
        ops = E.content_ops(b)
        for o in ops:
            where = b.where(o['pos'])
            if o['kind'] == 'insert' and o['item'] == 'Element':
                n_trig += 1
                if b.short in INSERT_EXEMPT:
                    ok = True
                    if b.short == 'ElementRaw::create_sub_element_inner':
                        ok = unnamed_only(b, o['pos'])
                    if b.short == 'ArxmlParser::parse_element':
                        ok = parser_collects(b)
                    C.check(ok, 'C04-PAIR-index', '%s|insert|reviewed' % b.short, 'premise of reviewed exemption no longer holds: %s' % INSERT_EXEMPT[b.short], where)
                    continue
                if b.short not in INSERT:
                    C.fail('C04-PAIR-index', '%s|insert|unreviewed' % b.short, 'an element is linked into the tree in a function outside the reviewed ledger: is it registered in the path index?', where)
                    continue
                rel, kinds, reason = INSERT[b.short]
                pp = ident_positions(b, kinds)
                ok = before_on_all_paths(b, o['pos'], pp) if rel == 'before' else paired(b, o['pos'], pp, rel)
                C.check(ok, 'C04-PAIR-index', '%s|insert|needs:%s_identifiable' % (b.short, '/'.join(sorted(kinds))),
                        'an element becomes part of the tree without the path index being updated (%s)' % reason, where,
                        sample={'fn': b.short, 'event': 'content.insert(Element)', 'partner': sorted(kinds), 'relation': rel})
            elif o['kind'] in ('remove', 'replace'):
                key = (b.short, o['op'])
                if key in REMOVE_EXEMPT:
                    continue  # text-only edits; premises are checked by C03-PAIR-link
                n_trig += 1
                if key not in REMOVE:
                    C.fail('C04-PAIR-index', '%s|%s|unreviewed' % key, 'items leave a content list in a function outside the reviewed ledger: are their index entries removed?', where)
                    continue
                rel, rx, kinds = REMOVE[key]
                pp = calls(b, rx) if rx else ident_positions(b, kinds)
                ok = paired(b, o['pos'], pp, rel)
                C.check(ok, 'C04-PAIR-index', '%s|%s|needs:%s' % (b.short, o['op'], rx or '/'.join(sorted(kinds))),
                        'elements leave the tree while their entries stay in the path index', where,
                        sample={'fn': b.short, 'event': 'content.%s' % o['op'], 'partner': rx or sorted(kinds), 'relation': rel})
    # remove_internal really de-registers: remove_identifiable guarded by is_identifiable, on the path built from the parent path
    ri = P.get('ElementRaw::remove_internal')
    rid = ident_positions(ri, {'remove'})
    C.check(len(rid) == 1 and bool(dominated_by(ri, rid[0], calls(ri, r'ElementRaw>::is_identifiable$'))) and bool(dominated_by(ri, rid[0], calls(ri, r'ElementRaw>::item_name$'))),
            'C04-PAIR-index', 'ElementRaw::remove_internal|deregisters-identifiable', 'remove_internal no longer removes the path of an identifiable element from the index')
    rec = [pos for pos, t in ri.iter_calls() if callee_of(t) == ri.id]
    C.check(bool(rec), 'C04-PAIR-index', 'ElementRaw::remove_internal|recurses', 'remove_internal no longer recurses (descendant paths would stay in the index)')
    # load: bulk insert
    lb = P.get('AutosarModel::load_buffer_internal')
    ins = [o for o in E.ident_ops(lb) if o['op'] == 'insert']
    src_ok = False
    for pos, role, pl, st in iter_uses(lb):
        if is_local_op(pl) and has_field(pl, 'ArxmlParser.identifiables'):
            src_ok = True
    C.check(len(ins) == 1 and bool(E.loops_containing(lb, [ins[0]['pos']])) and src_ok, 'C04-PAIR-index', 'load_buffer_internal|bulk-insert',
            'load_buffer_internal no longer installs the parser\'s collected paths in the index')
    imp_callers = callers_of(P, 'AutosarModel::import_new_items')
    C.check(imp_callers == {'AutosarModel::merge_element'} and callers_of(P, 'AutosarModel::merge_element') <= {'AutosarModel::merge_file_data', 'AutosarModel::merge_sub_elements'}
            and callers_of(P, 'AutosarModel::merge_file_data') == {'AutosarModel::load_buffer_internal'}, 'C04-PAIR-index', 'import_new_items|only-from-load', 'import_new_items is reachable outside the load path (its index update is done by load_buffer_internal)')

    # ---- SHORT-NAME writes ---------------------------------------------------------------------
    sn_rules(C, P)
    C.floor('C04-PAIR-index.triggers', n_trig, 14)

    # ---- uniqueness -----------------------------------------------------------------------------
    unique_rules(C, P)
    # ---- prefix ----------------------------------------------------------------------------------
    prefix_rules(C, P)
    C.rule('C04-MUST-exact', 'AutosarModel::get_element_by_path passes its argument unchanged to the index lookup')
    lookup_rules(C, P)
    removal_path_rule(C, P)
    # ---- model roles in the cross-model move -----------------------------------------------------
    mf = P.get('ElementRaw::move_element_full')
    dst = [l for l, n in mf.names.items() if n == 'model' and l <= mf.argc]
    src = [l for l, n in mf.names.items() if n == 'model_src' and l <= mf.argc]
    if len(dst) != 1 or len(src) != 1:
        C.anchor_missing('C04-SIB-model', 'move_element_full parameters model/model_src')
    else:
        roles = {'add_identifiable': dst[0], 'add_reference_origin': dst[0], 'make_unique_item_name': dst[0], 'remove_identifiable': src[0], 'remove_reference_origin': src[0]}
        n = 0
        for pos, t in mf.iter_calls():
            nm = (callee_of(t) or '').rsplit('::', 1)[-1]
            if nm in roles:
                n += 1
                ai = 1 if nm == 'make_unique_item_name' else 0
                p = param_of(mf, t['args'][ai])
                C.check(p == roles[nm], 'C04-SIB-model', 'move_element_full|%s|uses:%s' % (nm, 'model' if roles[nm] == dst[0] else 'model_src'),
                        '%s in the cross-model move operates on the wrong model (parameter _%s instead of _%d)' % (nm, p, roles[nm]), mf.where(pos),
                        sample={'fn': 'move_element_full', 'call': nm, 'model': 'destination' if roles[nm] == dst[0] else 'source'})
        C.floor('C04-SIB-model', n, 5)
    import scope
    scope.closed_world(C, P, 'C04-PAIR-index')
    must_identifiable(C, P)
    # loading: a path that occurs twice within ONE file is detected (the bulk insert of load_buffer_internal tolerates an
    # existing entry of the same element kind, which is right for a second file but hides a duplicate inside the file)
    pe_ = P.get('ArxmlParser::parse_element')
    seen_set = False
    for x in P.with_closures(pe_) + P.with_closures(P.get('AutosarModel::load_buffer_internal')):
        for pos, t in x.iter_calls():
            if call_matches(t, r'(HashSet::<T, S.*>::(insert|contains)|HashMap::<K, V, S.*>::(contains_key|insert|entry)|IndexMap::<K, V, S>::(contains_key|insert|entry|insert_full))$'):
                rp = E.recv_place(x, t)
                if rp is not None and any(str(p_).startswith('.ArxmlParser.') for p_ in rp.get('p', [])):
                    seen_set = True
    C.check(seen_set, 'C04-MUST-unique', 'load|duplicate-path-within-one-file', 'the loader does not detect a path that occurs twice within one file: both elements stay in the model with the same AUTOSAR path and one index entry',
            '%s:%d' % (pe_.file, pe_.line))
    rekey_scan_rule(C, P, 'C04-PAIR-index')
    C.rule('C04-DEV-merge-disjoint', 'a file merge never inserts an element that was already merged into its counterpart (two elements with one path): shared with C09-DEV-bonly')
    from c09 import dev_bonly
    dev_bonly(C, P, 'C04-DEV-merge-disjoint')
    return C.finish('Pairing of structural edits with path-index maintenance, decided on the MIR of every body (dominance / all-Ok-paths queries over '
                    'type-resolved events), uniqueness check before every name installation, segment-safe prefix re-keying. '
                    'Does not decide the equality index = tree after arbitrary histories.')


def callers_of(P, short):
    tid = P.get(short).id
    return {b.short for b in P.bodies.values() for pos, t in b.iter_calls() if callee_of(t) == tid and b.id != tid}


def unnamed_only(b, pos):
    """the insert is reachable only over the false edge of is_named_in_version()."""
    cs = calls(b, r'ElementType::is_named_in_version$')
    if len(cs) != 1 or not b.pos_dominates(cs[0], pos):
        return False
    t = b.blocks[cs[0][0]]['term']
    sw = b.blocks[t['t']]['term']
    if sw['k'] != 'switch':
        return False
    true_t = sw['else']
    return pos not in b.reach_from((true_t, 0), include_start=True)


def parser_collects(b):
    for pos, t in b.iter_calls():
        if call_matches(t, r'Vec::<.*>::push$'):
            rp = E.recv_place(b, t)
            if rp is not None and has_field(rp, 'ArxmlParser.identifiables'):
                return True
    return False


def sn_rules(C, P):
    # 1. ElementRaw::set_item_name: the SHORT-NAME write is followed by fix_identifiables
    si = P.get('ElementRaw::set_item_name')
    w = calls(si, r'ElementRaw>::set_character_data')
    fx = ident_positions(si, {'fix'})
    C.check(len(w) == 1 and paired(si, w[0], fx, 'followed'), 'C04-PAIR-index', 'ElementRaw::set_item_name|sn-write|needs:fix_identifiables',
            'the item name is rewritten without re-keying the path index (element and descendants become unreachable by path)', si.where(w[0]) if w else '',
            sample={'fn': 'ElementRaw::set_item_name', 'event': 'SHORT-NAME write', 'partner': 'fix_identifiables (prefix re-key incl. descendants)'})
    # the written element was tested to be the SHORT-NAME
    C.check(bool(w) and bool(dominated_by(si, w[0], calls(si, r'ElementName as .*PartialEq>::eq$'))), 'C04-PAIR-index', 'ElementRaw::set_item_name|writes-shortname-only', 'set_item_name writes the name into a child that was not tested to be the SHORT-NAME')
    # 2. make_unique_item_name callers re-register afterwards
    mu = P.get('ElementRaw::make_unique_item_name')
    exp = {'ElementRaw::create_copied_sub_element_inner': {'add'}, 'ElementRaw::move_element_local': {'fix'}, 'ElementRaw::move_element_full': {'add'}}
    found = set()
    for b in P.bodies.values():
        for pos, t in b.iter_calls():
            if callee_of(t) == mu.id:
                found.add(b.short)
                kinds = exp.get(b.short)
                if kinds is None:
                    C.fail('C04-PAIR-index', '%s|make_unique_item_name|unreviewed-caller' % b.short, 'make_unique_item_name (renames without touching the index) has a new caller', b.where(pos))
                    continue
                ok = paired(b, pos, ident_positions(b, kinds), 'followed')
                C.check(ok, 'C04-PAIR-index', '%s|make_unique_item_name|needs:%s' % (b.short, '/'.join(sorted(kinds))),
                        'an element is renamed for uniqueness but not registered under the new name on every Ok path', b.where(pos))
    C.check(found == set(exp), 'C04-PAIR-index', 'make_unique_item_name|callers', 'callers of make_unique_item_name changed: %s' % sorted(found))
    # 2b. the registering primitive registers on every path and the index primitives lock blockingly (their callers do not look at a result)
    ai = P.find('AutosarModel::add_identifiable')
    if ai is None:
        C.anchor_missing('C04-PAIR-index', 'AutosarModel::add_identifiable')
    else:
        ins_ = [o['pos'] for o in E.ident_ops(ai) if o['op'] in ('insert', 'entry', 'add')]
        rets_ = [pos for pos, t in ai.iter_terms() if t['k'] == 'return']
        C.check(bool(ins_) and bool(rets_) and all(must_pass(ai, (0, 0), [r_], through=set(ins_)) for r_ in rets_), 'C04-PAIR-index', 'add_identifiable|registers-on-every-path',
                'add_identifiable can return without having stored the entry (a path around the insert, e.g. behind a try-lock): the element exists but get_element_by_path() does not find it', '%s:%d' % (ai.file, ai.line),
                sample={'fn': 'add_identifiable', 'event': 'return', 'partner': 'identifiables.insert on every path'})
    for fn_ in ('AutosarModel::add_identifiable', 'AutosarModel::remove_identifiable', 'AutosarModel::fix_identifiables'):
        b_ = P.find(fn_)
        if b_ is not None:
            tl = calls(b_, r'RwLock::<R, T>::try_(write|read)\w*$|RwLock<.*>::try_(write|read)\w*$')
            C.check(not tl, 'C04-PAIR-index', '%s|blocking-model-lock' % fn_.split('::')[-1], '%s takes the model lock with a try-lock: when it is not obtained the update of the path index is skipped silently' % fn_, b_.where(tl[0]) if tl else '')
    # 3. create_named_sub_element_inner: SHORT-NAME text set, then add_identifiable
    cn = P.get('ElementRaw::create_named_sub_element_inner')
    w = calls(cn, r'ElementRaw>::set_character_data')
    C.check(len(w) == 1 and paired(cn, w[0], ident_positions(cn, {'add'}), 'followed'), 'C04-PAIR-index', 'create_named_sub_element_inner|sn-write|needs:add', 'a named element is created without registering its path')
    # 4. public setter: SHORT-NAME case re-keys with fix_identifiables (prefix re-key => descendants follow)
    unique_before_link(C, P, 'C04-MUST-unique', ('ElementRaw::create_copied_sub_element_inner', 'ElementRaw::move_element_local', 'ElementRaw::move_element_full'))
    es = P.get('Element::set_character_data_internal')
    wr = [o['pos'] for o in E.content_ops(es) if o['op'] == 'push' and o['item'] == 'CharacterData']
    fx = ident_positions(es, {'fix'})
    # the path where prev_path is None (not a SHORT-NAME / newly created) legitimately skips the re-key
    cut = set()
    pl = [l for l, n in es.names.items() if n == 'prev_path']
    for pos, s in es.iter_stmts():
        if s['k'] == 'assign' and s['rv']['k'] == 'discr' and is_local_op(s['rv']['pl']) and s['rv']['pl']['l'] in pl:
            t = es.blocks[pos[0]]['term']
            if t['k'] == 'switch':
                d = dict(t['ts'])
                none_t = d.get('0', t['else'])
                cut.add((pos[0], none_t))
    # `if let Some(parent) = self.parent()?` : the None edge means "this element is the root", impossible for a SHORT-NAME
    for pos, s in es.iter_stmts():
        if s['k'] == 'assign' and s['rv']['k'] == 'discr' and is_local_op(s['rv']['pl']) and not s['rv']['pl']['p'] \
                and es.local_ty(s['rv']['pl']['l']) == 'std::option::Option<Element>':
            t = es.blocks[pos[0]]['term']
            if t['k'] == 'switch' and is_local_op(t['d']) and t['d']['l'] == s['dst']['l']:
                d = dict(t['ts'])
                cut.add((pos[0], d.get('0', t['else'])))
    exits = E.ok_exit_positions(es)
    ok = len(wr) == 1 and bool(fx) and bool(cut) and must_pass(es, wr[0], exits, set(fx) | E.loops_containing(es, fx), avoid_edges=cut, include_start=False)
    C.check(ok, 'C04-PAIR-index', 'Element::set_character_data_internal|sn-write|needs:fix_identifiables',
            'editing SHORT-NAME text directly no longer re-keys the path index by prefix (the element or its identifiable descendants keep stale paths)', es.where(wr[0]) if wr else '',
            sample={'fn': 'Element::set_character_data_internal', 'event': 'SHORT-NAME text write', 'partner': 'fix_identifiables unless prev_path is None'})
    # prev_path is Some only for SHORT-NAME elements that already had a name
    # (prev_path = Some(..) dominated by the ShortName comparison)
    somes = []
    for pos, s in es.iter_stmts():
        if s['k'] == 'assign' and not s['dst']['p'] and s['rv']['k'] == 'agg' and s['rv'].get('var') == 'Some' and s['rv'].get('adt') == 'Option':
            if set(pl) & forward_taint(es, {s['dst']['l']}, through_refs=False):
                somes.append(pos)
    if not somes:
        # the value is computed by an inlined helper that returns Result<Option<..>>: follow prev_path back through the `?`
        from flow import origins_through_try
        for l_ in pl:
            for og in origins_through_try(es, {'l': l_, 'p': []}):
                if og[0] not in ('param', 'const', 'place') and isinstance(og[1], dict) and og[1].get('k') == 'assign' and og[1]['rv']['k'] == 'agg' and og[1]['rv'].get('var') == 'Some':
                    somes.append(og[0])
    eqs = calls(es, r'ElementName as .*PartialEq>::eq$')
    C.check(bool(somes) and all(dominated_by(es, p, eqs) for p in somes), 'C04-PAIR-index', 'Element::set_character_data_internal|prev_path-only-for-shortname', 'prev_path is set without the SHORT-NAME test')


def unique_rules(C, P):
    gp = r'AutosarModel>::get_element_by_path$'

    def some_edge_blocked(b, gpos, trigger):
        """from the lookup's `is_some()==true` edge the trigger is only reachable through a loop header that contains the lookup."""
        t = b.blocks[gpos[0]]['term']
        # find is_some on the result
        taint = forward_taint(b, {t['dst']['l']}, through_refs=True)
        for pos, tt in b.iter_calls():
            if call_matches(tt, r'Option::<.*>::is_some$|Option::<T>::is_some$') and any(is_local_op(a) and a['l'] in taint for a in tt['args']):
                sw = b.blocks[tt['t']]['term']
                if sw['k'] == 'switch':
                    true_t = sw['else']
                    heads = E.loops_containing(b, [gpos])
                    return must_pass(b, (true_t, 0), [trigger], heads)
        return False
    # create_named_sub_element_inner: insert
    cn = P.get('ElementRaw::create_named_sub_element_inner')
    ins = [o['pos'] for o in E.content_ops(cn) if o['kind'] == 'insert' and o['item'] == 'Element']
    g = calls(cn, gp)
    ok = len(ins) == 1 and len(g) == 1 and cn.pos_dominates(g[0], ins[0]) and some_edge_blocked(cn, g[0], ins[0])
    C.check(ok, 'C04-MUST-unique', 'create_named_sub_element_inner|unique-before-insert', 'a named element can be created although its path is already taken', cn.where(ins[0]) if ins else '',
            sample={'fn': 'create_named_sub_element_inner', 'lookup': 'get_element_by_path(path)', 'Some edge': 'Err(DuplicateItemName)'})
    si = P.get('ElementRaw::set_item_name')
    w = calls(si, r'ElementRaw>::set_character_data')
    g = calls(si, gp)
    ok = len(w) == 1 and len(g) == 1 and si.pos_dominates(g[0], w[0]) and some_edge_blocked(si, g[0], w[0])
    C.check(ok, 'C04-MUST-unique', 'set_item_name|unique-before-rename', 'an element can be renamed to a path that is already taken', si.where(w[0]) if w else '')
    mu = P.get('ElementRaw::make_unique_item_name')
    g = calls(mu, gp)
    wr = [o['pos'] for o in E.content_ops(mu) if o['op'] == 'push']
    exits = E.ok_exit_positions(mu)
    # every Ok exit is reached over the "free" outcome of a lookup, and after a "taken" outcome no exit is reached without another lookup
    # (one lookup in a loop, or a first lookup with an early return plus a loop over further candidates)
    free_edges, taken_starts = set(), []
    for gpos in g:
        t_ = mu.blocks[gpos[0]]['term']
        taint = forward_taint(mu, {t_['dst']['l']}, through_refs=True)
        for pos, tt in mu.iter_calls():
            if call_matches(tt, r'Option::<.*>::is_some$|Option::<T>::is_some$') and any(is_local_op(a) and a['l'] in taint for a in tt['args']):
                sw_ = switch_edges_on_call_result(mu, pos)
                if sw_ and set(sw_[1].keys()) == {'0'}:
                    free_edges.add((sw_[0], sw_[1]['0']))
                    taken_starts.append((sw_[2], 0))
    ok = (bool(g) and len(taken_starts) == len(g) and bool(exits) and any(E.loops_containing(mu, [x]) for x in g)
          and must_pass(mu, (0, 0), exits, through=(), avoid_edges=free_edges)
          and all(must_pass(mu, ts_, exits, through=set(g)) for ts_ in taken_starts)
          and all(any(mu.pos_dominates(x_, w_) for x_ in g) for w_ in wr))
    C.check(ok, 'C04-MUST-unique', 'make_unique_item_name|loops-until-free', 'make_unique_item_name can return a name whose path is taken')
    es = P.get('Element::set_character_data_internal')
    wr = [o['pos'] for o in E.content_ops(es) if o['op'] == 'push' and o['item'] == 'CharacterData']
    g = calls(es, gp)
    ok = len(wr) == 1 and len(g) >= 1 and any(es.pos_dominates(x, wr[0]) for x in g)
    C.check(ok, 'C04-MUST-unique', 'Element::set_character_data_internal|sn-write|unique-before-rename',
            'set_character_data on a SHORT-NAME installs the new name without checking that the resulting path is free: two elements can get the same path and one index entry is lost',
            es.where(wr[0]) if wr else '')


def unique_before_link(C, P, rule, fns):
    # copy / move into a new parent: the element is linked only after its name was made unique there - the only way round the call
    # is the not-identifiable edge (an element without a name has no path)
    for fn in fns:
        b = P.get(fn)
        mus = calls(b, r'ElementRaw>?::make_unique_item_name$')
        ins = [o['pos'] for o in E.content_ops(b) if o['kind'] == 'insert' and o['item'] == 'Element']
        skip = set()
        for q in calls(b, r'ElementRaw>?::is_identifiable$|impl Element>::is_identifiable$'):
            sw = switch_edges_on_call_result(b, q)
            if sw:
                skip.add((sw[0], sw[1].get('0', sw[2])))
        ok = bool(mus) and bool(ins) and bool(skip) and all(must_pass(b, (0, 0), [x], through=set(mus), avoid_edges=frozenset(skip)) for x in ins)
        C.check(ok, rule, '%s|unique-before-link' % fn.split('::')[-1], 'an identifiable element can be linked into its new parent without make_unique_item_name having run (the call is skipped under a condition other than "not identifiable"): '
                'two sub elements of the destination can end up with the same path', b.where(ins[0]) if ins else '%s:%d' % (b.file, b.line),
                sample={'fn': fn, 'link': 'content.insert(Element)', 'only way round make_unique_item_name': 'is_identifiable() == false'})


def lookup_rules(C, P):
    """get_element_by_path looks up exactly the text it was given: the key of the index access is the parameter itself (no trimming,
    no normalisation - "/Pkg/" is not the path of any element)"""
    from flow import is_param_itself
    ge = P.find('AutosarModel::get_element_by_path')
    if ge is None:
        C.anchor_missing('C04-MUST-exact', 'AutosarModel::get_element_by_path')
        return
    gets = [(o['pos'], ge.blocks[o['pos'][0]]['term']) for o in E.ident_ops(ge) if o['op'] in ('get', 'get_full', 'get_index_of', 'contains_key', 'get_key_value')]
    pidx = [l for l in range(1, ge.argc + 1) if 'str' in (ge.local_ty(l) or '')]
    ok = bool(gets) and bool(pidx) and all(len(t['args']) > 1 and is_param_itself(ge, t['args'][1], pidx[0]) for pos, t in gets)
    C.check(ok, 'C04-MUST-exact', 'get_element_by_path|key-is-the-argument', 'get_element_by_path looks the index up with a text derived from its argument instead of the argument itself: a text that is not the path of any element '
            '(e.g. with a trailing slash) returns an element', ge.where(gets[0][0]) if gets else '%s:%d' % (ge.file, ge.line), sample={'fn': 'get_element_by_path', 'lookups': len(gets), 'key': 'the path parameter itself'})


def removal_path_rule(C, P):
    """remove_sub_element hands remove_internal the path of the parent on every path: the removed element need not be identifiable
    itself for its identifiable DESCENDANTS to be unregistered under <parent path>/<their names>"""
    from flow import strict_source_roots
    rs = P.get('ElementRaw::remove_sub_element')
    ri = [(pos, t) for pos, t in rs.iter_calls() if call_matches(t, r'ElementRaw>?::remove_internal$')]
    ok = bool(ri)
    why = ''
    for pos, t in ri:
        pa = [a for a in t['args'] if is_local_op(a) and re.search(r'Cow<|\bstr\b|String', rs.local_ty(a['l']) or '')]
        if not pa:
            ok = False
            continue
        roots = strict_source_roots(rs, pa[0])
        n_, c_, f_ = deep_sources_(rs, pa[0])
        if any(r[0] == 'const' for r in roots) or not any(c.endswith('path_unchecked') or c.endswith('::path') for c in c_):
            ok = False
            why = 'constant text among its origins' if any(r[0] == 'const' for r in roots) else 'not derived from path_unchecked()'
    C.check(ok, 'C04-PAIR-index', 'remove_sub_element|removal-path-is-the-parent-path', 'remove_sub_element does not hand the parent path to remove_internal on every path (%s): the identifiable descendants of a removed non-identifiable '
            'container are unregistered under a wrong key and stay in the index' % why, rs.where(ri[0][0]) if ri else '%s:%d' % (rs.file, rs.line), sample={'fn': 'remove_sub_element', 'path_arg': 'Cow::from(self.path_unchecked()?)'})


def deep_sources_(b, o):
    from flow import deep_sources
    return deep_sources(b, o, depth=14)


def prefix_rules(C, P):
    # a new path is the old path with ONE segment exchanged (the last one on rename, the leading ones on move): substituting a substring
    # (str::replace) exchanges every occurrence - /a/a renamed to b becomes /b/b
    for fn in ('ElementRaw::set_item_name', 'ElementRaw::move_element_local', 'ElementRaw::move_element_full', 'AutosarModel::fix_identifiables', 'Element::set_character_data_internal'):
        b = P.find(fn)
        if b is None:
            continue
        bad = [(x, pos) for x in P.with_closures(b) for pos, t in x.iter_calls() if call_matches(t, r'str>::(replace|replacen)$|String::replace_range$')]
        C.check(not bad, 'C04-DEV-prefix', fn + '|no-substring-replacement', '%s builds a path with str::replace: every occurrence of the old name inside the path is substituted, not only the segment that changes '
                '(renaming /a/a to b looks up and re-keys /b/b): the duplicate test is made for the wrong path and the index entry moves to a path no element has' % fn, bad[0][0].where(bad[0][1]) if bad else '')
    exempt = {
        'ElementRaw::move_element_local': 'the stripped strings are paths collected from the moved subtree itself (elements_dfs + path()), so the remainder starts at a segment boundary',
        'ElementRaw::move_element_full': 'same: keys of original_paths / references found in it by exact contains_key',
        'ArxmlParser::parse_file_version': 'strips the literal "autosar" from a schema file name, not a path',
    }
    n = 0
    for b in sorted(P.bodies.values(), key=lambda x: x.short):
        if b.crate != 'autosar_data':
            continue
        for pos, t in b.iter_calls():
            if not call_matches(t, r'str>::strip_prefix'):
                continue
            if len(t['args']) > 1 and const_val(t['args'][1]) is not None:
                continue  # stripping a literal (radix prefixes, "autosar"): not a path re-key
            n += 1
            base_fn = b.short.split('::{')[0]
            if base_fn in exempt:
                C.ok('C04-DEV-prefix', '%s|strip_prefix|reviewed#%d' % (base_fn, n), exempt[base_fn])
                continue
            # the Some edge must pass is_empty and starts_with('/') before any map insert / content write / format use
            sinks = [o['pos'] for o in E.ident_ops(b) + E.reforig_ops(b) if E.is_mutating(o)] + [o['pos'] for o in E.content_ops(b)]
            sinks = [s for s in sinks if s in b.reach_from(pos)]
            encl = P.bodies.get(getattr(b, 'enclosing', None)) if b.kind == 'Closure' else None
            while encl is not None and encl.kind == 'Closure':
                encl = P.bodies.get(getattr(encl, 'enclosing', None))
            encl_maintains = encl is not None and any(E.is_mutating(o) for x in P.with_closures(encl) for o in E.ident_ops(x) + E.reforig_ops(x))
            if b.kind == 'Closure' and not sinks and not encl_maintains:
                continue        # a prefix stripped in a closure of a function that touches neither index: not a re-key
            if b.kind == 'Closure' and not sinks:
                # the test sits in a closure of an iterator chain (`keys().filter_map(|k| k.strip_prefix(old).filter(boundary).map(..))`):
                # what leaves the closure as Some(..) / true is what gets re-keyed - the closure's successful return is the sink
                # (a Some(..) / true built after the strip - wherever it is stored first - or an adaptor call whose result is returned)
                rs = b.reach_from(pos)
                # locals whose value ends up in the closure's return value (through moves and Option adaptors)
                B_ = {0}
                grew_ = True
                ADAPT = r'Option::<T>::(map|and_then|filter|cloned|copied|or|or_else|inspect|then|zip)$'
                while grew_:
                    grew_ = False
                    for q, s_ in b.iter_stmts():
                        if s_['k'] == 'assign' and not s_['dst']['p'] and s_['dst']['l'] in B_ and s_['rv']['k'] in ('use', 'cast') and is_local_op(s_['rv']['o']) and s_['rv']['o']['l'] not in B_:
                            B_.add(s_['rv']['o']['l']); grew_ = True
                    for q, t_ in b.iter_calls():
                        if not t_['dst']['p'] and t_['dst']['l'] in B_ and call_matches(t_, ADAPT) and t_['args'] and is_local_op(t_['args'][0]) and t_['args'][0]['l'] not in B_:
                            B_.add(t_['args'][0]['l']); grew_ = True
                sinks = [q for q, s_ in b.iter_stmts() if q in rs and s_['k'] == 'assign' and not s_['dst']['p'] and s_['dst']['l'] in B_ and
                         ((s_['rv']['k'] == 'agg' and s_['rv'].get('var') in ('Some', 'Ok')) or (s_['rv']['k'] == 'use' and str(const_val(s_['rv']['o'])) == 'true'))]
                # producers of a "selected" result: bool::then / is_some_and / format!; an Option adaptor counts only when it continues the chain
                # that starts at the strip result itself (`strip_prefix(p).filter(..).map(..)`) - applied to anything else it also passes None on
                chain = forward_taint(b, {t['dst']['l']}, through_refs=False)
                grew2 = True
                while grew2:
                    grew2 = False
                    for q, t_ in b.iter_calls():
                        if call_matches(t_, ADAPT) and t_['args'] and is_local_op(t_['args'][0]) and t_['args'][0]['l'] in chain and t_['dst']['l'] not in chain:
                            chain |= forward_taint(b, {t_['dst']['l']}, through_refs=False); grew2 = True
                sinks += [q for q, t_ in b.iter_calls() if q in rs and not t_['dst']['p'] and t_['dst']['l'] in B_
                          and (call_matches(t_, r'<impl bool>::(then|then_some)$|Option::<T>::is_some_and$|fmt::format$')
                               or (call_matches(t_, r'Option::<T>::(map|and_then|filter)$') and t_['args'] and is_local_op(t_['args'][0]) and t_['args'][0]['l'] in chain))]
            sw = [p for p, tt in b.iter_calls() if call_matches(tt, r'str>::starts_with') and any(const_val(a) == "'/'" for a in tt['args'])]
            ie = [p for p, tt in b.iter_calls() if call_matches(tt, r'str>::is_empty$')]
            # `.strip_prefix(old).filter(|rest| rest.is_empty() || rest.starts_with('/'))`: the boundary test is the predicate of an
            # Option::filter applied to the strip result - that call then stands for both tests
            for p2, t2 in b.iter_calls():
                if call_matches(t2, r'Option::<T>::(filter|is_some_and)$') and len(t2['args']) >= 2 and b.pos_dominates(pos, p2):
                    for org in origins(b, t2['args'][1]):
                        if org[0] not in ('param', 'const', 'place') and org[1].get('k') == 'assign' and org[1]['rv']['k'] == 'agg' and org[1]['rv'].get('ak') == 'closure':
                            cb = P.bodies.get(org[1]['rv'].get('fn'))
                            if cb is not None and any(call_matches(t3, r'str>::is_empty$') for q3, t3 in cb.iter_calls()) and any(call_matches(t3, r'str>::starts_with') and any(const_val(a) == "'/'" for a in t3['args']) for q3, t3 in cb.iter_calls()):
                                sw.append(p2); ie.append(p2)
            ok = bool(sinks) and bool(sw) and bool(ie) and must_pass(b, pos, sinks, set(sw) | set(ie), include_start=False)
            C.check(ok, 'C04-DEV-prefix', '%s|strip_prefix|boundary-test' % b.short,
                    'a path prefix is stripped and the remainder used for re-keying without the segment-boundary test (renaming /pkg1 would also re-key /pkg10)', b.where(pos),
                    sample={'fn': b.short, 'idiom': 'strip_prefix(old) -> is_empty() || starts_with(\'/\') before re-key'})
    C.floor('C04-DEV-prefix', n, 6)
    # the same guard for str::starts_with between two PATHS (not a literal): in every function that maintains one of the two
    # indexes (and in their closures) a `path.starts_with(other_path)` decides "is nested below" only together with a boundary test
    maint = [b for b in P.bodies.values() if b.crate == 'autosar_data' and b.kind != 'Closure' and (any(E.is_mutating(o) for o in E.ident_ops(b) + E.reforig_ops(b)))]
    nsw = 0
    for b in maint:
        for x in P.with_closures(b):
            for pos, t in x.iter_calls():
                if call_matches(t, r'str>::starts_with$') and len(t['args']) > 1:
                    a = t['args'][1]
                    if const_val(a) is not None:
                        continue
                    # a non-constant pattern: &str / &String / char variable
                    ty = x.local_ty(a['l']) if is_local_op(a) else ''
                    if 'char' == (ty or '').strip('&'):
                        continue
                    from flow import origins as _or
                    lit = any(o[0] == 'const' for o in _or(x, a)) if is_local_op(a) else False
                    if lit:
                        continue
                    nsw += 1
                    C.fail('C04-DEV-prefix', '%s|starts_with-between-paths' % b.short, 'a path is tested with starts_with(<another path>) in %s: without the segment-boundary test /Pkg/Sys10 counts as nested below /Pkg/Sys1, so its index entry is skipped / re-keyed wrongly' % b.short, x.where(pos))
    if not nsw:
        C.ok('C04-DEV-prefix', 'no-starts_with-between-paths', '%d index-maintaining functions scanned' % len(maint), sample={'functions_scanned': len(maint), 'starts_with_between_paths': 0})


def must_identifiable(C, P):
    from pairing import guarded_by_true, calls
    from flow import const_val, deep_sources
    R = 'C04-MUST-identifiable'
    n = 0
    for b in P.bodies.values():
        if b.crate != 'autosar_data' or b.short in ('AutosarModel::add_identifiable', 'AutosarModel::fix_identifiables'):
            continue
        for op in E.ident_ops(b):
            if not (op['op'] in ('add',) or (op['how'] == 'direct' and op['op'] == 'insert')):
                continue
            n += 1
            site = op['pos']
            ev = None
            # (A) guarded by is_identifiable()
            for cp in calls(b, r'(impl Element|ElementRaw)>::is_identifiable$'):
                if guarded_by_true(b, site, cp):
                    ev = 'guard:is_identifiable'
            # (B) the element was just given a SHORT-NAME as its first item: create_sub_element(.., ShortName, ..) on a fresh, empty element dominates the site
            if not ev:
                from c13 import value_sources
                for cp in calls(b, r'ElementRaw>::create_sub_element$'):
                    t = b.blocks[cp[0]]['term']
                    if any(('agg', 'ElementName::ShortName') in value_sources(b, a) for a in t['args'] if is_local_op(a)) and b.pos_dominates(cp, site):
                        ev = 'short-name-created'
            # (C) the registered elements come out of a collection built by a closure that keeps only elements for which Element::path() succeeds
            if not ev and op['how'].startswith('wrapper'):
                n_, c_, f_ = deep_sources(b, op['term']['args'][2])
                if any(re.search(r'Iterator>?::next$', c) for c in c_):
                    for cb in P.closures_of(b):
                        if calls(cb, r'impl Element>::path$') and calls(cb, r'Result::<T, E>::ok$'):
                            ev = 'collected-through-Element::path'
            # (D) bulk insert of what the parser collected
            if not ev and b.short == 'AutosarModel::load_buffer_internal':
                n_, c_, f_ = deep_sources(b, op['term']['args'][2], depth=24)
                if 'ArxmlParser.identifiables' in f_:
                    ev = 'parser-collected'
            C.check(bool(ev), R, '%s|index-insert#%d' % (b.short, sum(1 for o in E.ident_ops(b) if o['pos'] < site and o['op'] in ('add', 'insert'))),
                    'an entry is added to the path index for an element that is not known to be identifiable at this point (no is_identifiable() guard, key not from Element::path(), no SHORT-NAME just created): lookup would return an element whose own path() fails or differs',
                    b.where(site), sample={'fn': b.short, 'evidence': ev})
    C.floor(R + '.sites', n, 4)
    # the parser: the push onto parser.identifiables is guarded by name == SHORT-NAME and by "no earlier sub element"
    pe = P.get('ArxmlParser::parse_element')
    pushes = []
    for pos, t in pe.iter_calls():
        if call_matches(t, r'Vec::<T, A>::push$'):
            rp = E.recv_place(pe, t)
            if rp is not None and has_field(rp, 'ArxmlParser.identifiables'):
                pushes.append(pos)
    if len(pushes) != 1:
        C.anchor_missing(R, 'push onto ArxmlParser.identifiables')
        return
    site = pushes[0]
    g_name = g_first = False
    for cp in calls(pe, r'ElementName as .*PartialEq>::eq$'):
        if guarded_by_true(pe, site, cp):
            g_name = True
    for pos, t in pe.iter_calls():
        if call_matches(t, r'SmallVec::<A>::is_empty$|::first$|::len$'):
            n_, c_, f_ = deep_sources(pe, t['args'][0])
            if 'ElementRaw.content' in f_ and 'element' in n_ | {pe.names.get(l) for l in ()} and call_matches(t, r'is_empty$') and guarded_by_true(pe, site, pos):
                g_first = True
    C.check(g_name, R, 'parser|registers-only-on-SHORT-NAME', 'the parser registers an element in the path index without testing that the sub element is a SHORT-NAME', pe.where(site))
    C.check(g_first, R, 'parser|SHORT-NAME-is-first-sub-element', 'the parser registers an element whose SHORT-NAME is not its first sub element: is_identifiable()/path()/item_name() only look at the first sub element, so lookup returns an element that is not identifiable',
            pe.where(site), sample={'fn': 'parse_element', 'guards': ['name == SHORT-NAME', 'element.content.is_empty()']})

"""C07 - what the editing API builds conforms to the specification the loader enforces (structural clauses).
Decides that editor and validator consult the same specification columns: every way to add a sub element passes the range
computation, a version-filtered lookup and gets/has the type its parent prescribes; every way to store a value passes the
value validator; every site that accepts an attribute tests the attribute's version mask.
Does not decide that calc_element_insert_range returns exactly the order-preserving positions (computed numbers)."""
import json, os, re
from ir import Program, callee_of, callee_generic, has_field, ends_in_field
from flow import is_local_op, call_matches, must_pass, deep_sources, switch_edges_on_call_result, source_names, iter_uses, origins, const_val, defs_of, forward_taint
import events as E
import c11
from pairing import calls, guarded_by_true, iteration_start
from framework import Check

ENTRY = {
    'ElementRaw::create_sub_element': ('ElementRaw>::create_sub_element_inner', False),
    'ElementRaw::create_sub_element_at': ('ElementRaw>::create_sub_element_inner', True),
    'ElementRaw::create_named_sub_element': ('ElementRaw>::create_named_sub_element_inner', False),
    'ElementRaw::create_named_sub_element_at': ('ElementRaw>::create_named_sub_element_inner', True),
    'ElementRaw::create_copied_sub_element': ('ElementRaw>::create_copied_sub_element_inner', False),
    'ElementRaw::create_copied_sub_element_at': ('ElementRaw>::create_copied_sub_element_inner', True),
    'ElementRaw::move_element_here': ('ElementRaw>::move_element_(local|full)', False),
    'ElementRaw::move_element_here_at': ('ElementRaw>::move_element_(local|full|position)', True),
}


def is_max_const(o):
    return isinstance(o, dict) and 'c' in o and 'MAX' in str(o.get('c', '')) + str(o.get('v', ''))


def all_sources(b, o, depth=14):
    """names, callees feeding a value through ALL call arguments (not only the receiver)"""
    names, cs, consts = set(), set(), []
    work = [o]; seen = set()
    while work:
        o = work.pop()
        if isinstance(o, dict) and 'c' in o:
            consts.append(o)
            continue
        if not is_local_op(o) or o['l'] in seen:
            continue
        seen.add(o['l'])
        if o['l'] in b.names:
            names.add(b.names[o['l']])
        for pos, st in defs_of(b, o['l']):
            if st['k'] == 'call':
                cs.add(callee_of(st) or callee_generic(st) or '?')
                work.extend(st['args'])
            elif st['k'] == 'assign':
                rv = st['rv']
                if rv['k'] == 'ref':
                    work.append(rv['pl'])
                elif rv['k'] in ('use', 'cast', 'un'):
                    work.append(rv['o'])
                elif rv['k'] == 'bin':
                    work.extend([rv['a'], rv['b']])
                elif rv['k'] == 'agg':
                    work.extend(rv['ops'])
                elif rv['k'] == 'discr':
                    work.append(rv['pl'])
    return names, cs, consts


def run(ctx):
    C = Check('C07', ctx['tier'], 'other', ctx['seed'])
    P = Program(ctx['facts'])
    C.rule('C07-MUST-range', 'each of the 8 ElementRaw entry points that add a sub element calls calc_element_insert_range(name, version) on the receiving element before the function that performs the insertion; the position handed on is the end of that range, '
           'or (in the _at variants) the requested position behind the true edges of start <= position and position <= end; the inserting functions have no other callers')
    C.rule('C07-MUST-type', 'a created element gets the type find_sub_element(name, FILE VERSION) returns for the receiving element; a copied element gets it through deep_copy (C13-SIB-fields); a moved element is only accepted behind the true edge of '
           'dest_type == moved.element_type(); inside calc_element_insert_range existing and new elements are both looked up with the file version (a version-independent lookup only as fallback inside or_else)')
    C.rule('C07-MUST-value', 'every store of character data into ElementRaw.content or of a value into ElementRaw.attributes is only reachable over the true edge of CharacterData::check_value / the Some edge of CharacterData::parse against the spec of that element / attribute; reviewed exceptions are listed with their reason')
    C.rule('C07-SIB-attrversion', 'every function that uses find_attribute_spec to accept, copy or judge an attribute reads AttributeSpec.version and tests it against the version (AutosarVersion::compatible or a mask AND); validator, copier, compatibility walk and both setters agree')
    C.rule('C07-SIB-mult', 'validator (check_multiplicity / check_element_conflict) and editor (calc_element_insert_range) both decide with find_common_group(..).content_mode() and get_sub_element_multiplicity(..) != Any')
    C.rule('C07-DATA-mixed', 'every Mixed-content type has an unrestricted string as character data specification (insert_character_content_item stores text without a validator)')
    C.assumptions = ['exactness of the insert range (which positions keep specification order) is a statement about computed numbers and is NOT decided', 'the serializer/loader round trip is C01']
    from c04 import callers_of
    # ---------------- MUST-range ----------------
    n_entry = 0
    for fn, (inner_rx, at) in sorted(ENTRY.items()):
        b = P.get(fn)
        n_entry += 1
        cr = calls(b, r'ElementRaw>::calc_element_insert_range$')
        inner = calls(b, inner_rx + '$')
        if len(cr) != 1 or not inner:
            C.fail('C07-MUST-range', fn + '|range-consulted', '%s does not call calc_element_insert_range exactly once before inserting' % fn, '%s:%d' % (b.file, b.line))
            continue
        t = b.blocks[cr[0][0]]['term']
        okr = 'self' in deep_sources(b, t['args'][0], depth=6)[0] and 'version' in all_sources(b, t['args'][2])[0]
        # the Err of the range is propagated (Try::branch on the result)
        d = t['dst']['l']
        prop = any(st.get('k') == 'call' and call_matches(st, r'Try>::branch$') for pos, role, pl, st in iter_uses(b) if is_local_op(pl) and pl['l'] == d)
        C.check(okr and prop and all(b.pos_dominates(cr[0], p) for p in inner), 'C07-MUST-range', fn + '|range-consulted', '%s inserts without having consulted calc_element_insert_range(name, version) of the receiving element (or drops its error)' % fn, b.where(inner[0]),
                sample={'fn': fn, 'range_call_dominates_insert': True, 'inner': [callee_of(b.blocks[p[0]]['term']).rsplit('::', 1)[-1] for p in inner]})
        # position
        for i, p in enumerate(inner):
            ti = b.blocks[p[0]]['term']
            cname = callee_of(ti).rsplit('::', 1)[-1]
            # the position parameter index: by callee signature: first usize-typed argument
            pos_args = [a for a in ti['args'] if is_local_op(a) and (b.local_ty(a['l']) or '') == 'usize']
            if cname == 'move_element_position':
                pos_args = pos_args[:1]
            if not pos_args:
                C.fail('C07-MUST-range', '%s|%s|position' % (fn, cname), 'no position argument found', b.where(p))
                continue
            names, cs, consts = all_sources(b, pos_args[0])
            if at:
                # both bounds guard the call.  Roles by provenance, not by name: start / end = component .0 / .1 of the tuple that
                # calc_element_insert_range returned (through `?`), position = a usize parameter.  Accepted guards: a comparison whose
                # outcome on the edge the call depends on is `start <= position` resp. `position <= end` (in either operand order and
                # polarity: `if position < start { return Err }` is the same guard), or RangeInclusive::contains(&(start..=end), &position).
                from flow import source_locals
                comp = {t['dst']['l']: None}
                changed = True
                while changed:
                    changed = False
                    for q, st in b.iter_stmts():
                        if st['k'] == 'assign' and not st['dst']['p'] and st['rv']['k'] == 'use' and is_local_op(st['rv']['o']) and st['rv']['o']['l'] in comp and st['dst']['l'] not in comp:
                            c_ = comp[st['rv']['o']['l']]
                            for pr in st['rv']['o']['p']:
                                if pr in ('.0', '.1') and c_ is None:
                                    c_ = int(pr[1])
                            comp[st['dst']['l']] = c_
                            changed = True
                    for q, tt in b.iter_calls():
                        if call_matches(tt, r'Try>::branch$') and tt['args'] and is_local_op(tt['args'][0]) and tt['args'][0]['l'] in comp and tt['dst']['l'] not in comp:
                            comp[tt['dst']['l']] = comp[tt['args'][0]['l']]
                            changed = True
                usize_params = {l for l in range(1, b.argc + 1) if (b.local_ty(l) or '') == 'usize'}

                def wide_sources(o0):
                    """locals a value derives from, also through Ok(..)/Some(..) wrapping, `?` and unwrap (the position returned by a helper)"""
                    out_, work = set(), [o0]
                    while work:
                        o_ = work.pop()
                        if not is_local_op(o_):
                            continue
                        for l_ in source_locals(b, o_):
                            if l_ in out_:
                                continue
                            out_.add(l_)
                            for q_, d_ in defs_of(b, l_):
                                if d_['k'] == 'assign' and d_['rv']['k'] == 'agg' and len(d_['rv']['ops']) == 1 and d_['rv'].get('var') in ('Ok', 'Some', 'Continue'):
                                    work.append(d_['rv']['ops'][0])
                                elif d_['k'] == 'assign' and d_['rv']['k'] == 'use' and is_local_op(d_['rv']['o']) and d_['rv']['o']['p']:
                                    pr = d_['rv']['o']['p']
                                    if all(x in ('as Continue', '.ControlFlow.0', 'as Some', '.Option.0', 'as Ok', '.Result.0', '*') for x in pr):
                                        work.append({'l': d_['rv']['o']['l'], 'p': []})
                                elif d_['k'] == 'call' and call_matches(d_, r'Try>::branch$|Option::<T>::(unwrap|expect)$|Result::<T, E>::(unwrap|expect)$') and d_['args']:
                                    work.append(d_['args'][0])
                    return out_

                def role(o):
                    if not is_local_op(o):
                        return None
                    sl = wide_sources(o)
                    cs_ = {comp[x] for x in sl if x in comp and comp[x] is not None}
                    if cs_ == {0}:
                        return 'start'
                    if cs_ == {1}:
                        return 'end'
                    if sl & usize_params and not cs_:
                        return 'pos'
                    return None

                def needed_edge(blk, tt):
                    """'T' / 'F' if the call is only reachable over the true / false edge of the two-way bool switch, else None"""
                    if set(dict(tt['ts']).keys()) != {'0'}:
                        return None
                    if must_pass(b, (0, 0), [p], through=(), avoid_edges={(blk, tt['else'])}):
                        return 'T'
                    if must_pass(b, (0, 0), [p], through=(), avoid_edges={(blk, dict(tt['ts'])['0'])}):
                        return 'F'
                    return None
                NEG = {'Le': 'Gt', 'Lt': 'Ge', 'Ge': 'Lt', 'Gt': 'Le'}
                SWAP = {'Le': 'Ge', 'Lt': 'Gt', 'Ge': 'Le', 'Gt': 'Lt'}
                lo = hi = False
                for pos, st in b.iter_stmts():
                    if st['k'] != 'assign' or st['rv']['k'] != 'bin' or st['rv']['op'] not in NEG:
                        continue
                    sw = [q for q, tt in b.iter_terms() if tt['k'] == 'switch' and is_local_op(tt['d']) and tt['d']['l'] in forward_taint(b, {st['dst']['l']}, through_refs=False)]
                    if not sw:
                        continue
                    tt = b.blocks[sw[0][0]]['term']
                    edge = needed_edge(sw[0][0], tt)
                    if edge is None:
                        continue
                    op = st['rv']['op'] if edge == 'T' else NEG[st['rv']['op']]
                    ra, rb = role(st['rv']['a']), role(st['rv']['b'])
                    if ra == 'pos':
                        ra, rb, op = rb, 'pos', SWAP[op]
                    # now: <ra> op position
                    if rb == 'pos' and ra == 'start' and op == 'Le':
                        lo = True
                    if rb == 'pos' and ra == 'end' and op == 'Ge':
                        hi = True
                for q, tt in b.iter_calls():
                    if call_matches(tt, r'RangeInclusive::<.*>::contains|RangeInclusive<.*>::contains') and len(tt['args']) == 2:
                        from flow import origins
                        ends = []
                        for org in origins(b, tt['args'][0]):
                            if org[0] not in ('param', 'const', 'place') and org[1].get('k') == 'assign' and org[1]['rv']['k'] == 'ref':
                                org = ('place', org[1]['rv']['pl'])
                            if org[0] == 'place':
                                for q2, d2 in defs_of(b, org[1]['l']):
                                    if d2.get('k') == 'call' and call_matches(d2, r'RangeInclusive::<.*>::new$') and len(d2['args']) == 2:
                                        ends = [role(d2['args'][0]), role(d2['args'][1])]
                            elif org[0] not in ('param', 'const') and org[1].get('k') == 'call' and call_matches(org[1], r'RangeInclusive::<.*>::new$'):
                                ends = [role(org[1]['args'][0]), role(org[1]['args'][1])]
                        item = None
                        for org in origins(b, tt['args'][1]):
                            if org[0] not in ('param', 'const', 'place') and org[1].get('k') == 'assign' and org[1]['rv']['k'] == 'ref':
                                item = role({'l': org[1]['rv']['pl']['l'], 'p': []})
                            elif org[0] == 'place':
                                item = role({'l': org[1]['l'], 'p': []})
                        sw2 = b.blocks[tt['t']]['term'] if tt.get('t') is not None else None
                        if ends == ['start', 'end'] and item == 'pos' and sw2 is not None and sw2['k'] == 'switch':
                            dl = forward_taint(b, {tt['dst']['l']}, through_refs=False)
                            neg = False
                            # `!range.contains(..)`: a Not between the call and the switch flips the edge
                            for q3, s3 in b.iter_stmts():
                                if s3['k'] == 'assign' and s3['rv']['k'] == 'un' and s3['rv'].get('op') == 'Not' and is_local_op(s3['rv']['o']) and s3['rv']['o']['l'] in dl:
                                    neg = True
                                    dl = dl | forward_taint(b, {s3['dst']['l']}, through_refs=False)
                            for q4, t4 in b.iter_terms():
                                if t4['k'] == 'switch' and is_local_op(t4['d']) and t4['d']['l'] in dl:
                                    edge = needed_edge(q4[0], t4)
                                    if edge == ('F' if neg else 'T'):
                                        lo = hi = True
                C.check(lo and hi and role(pos_args[0]) == 'pos', 'C07-MUST-range', '%s|%s|position-within-range' % (fn, cname), '%s hands the requested position to %s without both bounds checks start_pos <= position <= end_pos' % (fn, cname), b.where(p),
                        sample={'fn': fn, 'guards': ['start_pos <= position', 'position <= end_pos']} if i == 0 else None)
            else:
                C.check(any(c.endswith('calc_element_insert_range') for c in cs) and not ({b.names.get(l_) for l_ in range(1, b.argc + 1) if (b.local_ty(l_) or '') == 'usize'} & set(names)), 'C07-MUST-range', '%s|%s|position-from-range' % (fn, cname), '%s does not insert at a position taken from the computed range' % fn, b.where(p))
    # a move WITHIN the same parent: the insert range was computed with the element still in place, so the end of the range must
    # reach move_element_position, which refuses a forward move to it
    mh = P.get('ElementRaw::move_element_here_at')
    mp = P.get('ElementRaw::move_element_position')
    mpc = calls(mh, r'ElementRaw>::move_element_position$')
    okm = len(mpc) == 1
    if okm:
        t = mh.blocks[mpc[0][0]]['term']
        us = [a for a in t['args'] if is_local_op(a) and (mh.local_ty(a['l']) or '') == 'usize']
        okm = len(us) >= 2 and any(c.endswith('calc_element_insert_range') for c in all_sources(mh, us[1])[1]) and 'position' not in all_sources(mh, us[1])[0]
    if okm:
        # inside: a comparison of two usize PARAMETERS guards an Err exit
        prm = [l for l in range(1, mp.argc + 1) if (mp.local_ty(l) or '') == 'usize']
        okm = False
        for pos, st in mp.iter_stmts():
            if st['k'] == 'assign' and st['rv']['k'] == 'bin' and st['rv']['op'] in ('Ge', 'Gt', 'Le', 'Lt'):
                ls = set()
                for o in (st['rv']['a'], st['rv']['b']):
                    if is_local_op(o):
                        from flow import origins
                        for org in origins(mp, o):
                            if org[0] == 'param':
                                ls.add(org[1])
                        if 1 <= o['l'] <= mp.argc:
                            ls.add(o['l'])
                if len(ls & set(prm)) >= 2 and E.err_exit_positions(mp):
                    # ... and the comparison sends position == end of range to the Err exit: with the element still in place the end of the
                    # range is not a valid target of a forward move (Ge/Le are true for equal operands, Gt/Lt false)
                    sw = mp.blocks[pos[0]]['term']
                    if sw['k'] == 'switch' and is_local_op(sw['d']) and sw['d']['l'] == st['dst']['l']:
                        eq_true = st['rv']['op'] in ('Ge', 'Le')
                        tgt = sw['else'] if eq_true else dict(sw['ts']).get('0', sw['else'])
                        reach = mp.reach_from((tgt, 0), include_start=True)
                        oks_ = E.ok_exit_positions(mp)
                        if not any(o_ in reach for o_ in oks_):
                            okm = True
                    else:
                        okm = True      # the result is stored / combined first: shape not judged here
    C.check(okm, 'C07-MUST-range', 'move_element_here_at|move-within-parent-respects-range-end', 'a move within the same parent is only checked against the insert range computed with the element still in place: position == end of range puts the element BEHIND the element that has to follow it '
            '(the end of the range must be handed to move_element_position and a forward move to it refused)', '%s:%d' % (mp.file, mp.line), sample={'fn': 'move_element_position', 'guard': 'current < position && position >= end_pos -> InvalidPosition'})
    C.floor('C07-MUST-range.entries', n_entry, 8)
    # inserting functions are only reachable through the entry points (plus the loader / merge which have their own checks in C08 / C09)
    allowed = {
        'ElementRaw::create_sub_element_inner': {'ElementRaw::create_sub_element', 'ElementRaw::create_sub_element_at'},
        'ElementRaw::create_named_sub_element_inner': {'ElementRaw::create_named_sub_element', 'ElementRaw::create_named_sub_element_at'},
        'ElementRaw::create_copied_sub_element_inner': {'ElementRaw::create_copied_sub_element', 'ElementRaw::create_copied_sub_element_at'},
        'ElementRaw::move_element_local': {'ElementRaw::move_element_here', 'ElementRaw::move_element_here_at'},
        'ElementRaw::move_element_full': {'ElementRaw::move_element_here', 'ElementRaw::move_element_here_at'},
        'ElementRaw::move_element_position': {'ElementRaw::move_element_here_at'},
    }
    for fn, al in sorted(allowed.items()):
        ca = callers_of(P, fn)
        C.check(ca <= al and bool(ca), 'C07-MUST-range', fn + '|only-called-behind-the-range-check', '%s (performs the insertion, no range check of its own) is called from %s' % (fn, sorted(ca - al)))
    # every Element content insert in the crate is in one of the known inserting functions
    known_inserters = set(allowed) | {'AutosarModel::import_new_items', 'ElementRaw::deep_copy', 'ElementRaw::sort', 'ArxmlParser::parse_element'}
    for b in P.bodies.values():
        if b.crate != 'autosar_data':
            continue
        for o in E.content_ops(b):
            if o['kind'] == 'insert' and o['item'] == 'Element':
                C.check(b.short in known_inserters, 'C07-MUST-range', '%s|element-insert-site' % b.short, 'a new function inserts elements into a content list: %s (not behind calc_element_insert_range)' % b.short, b.where(o['pos']))
    # ---------------- MUST-type ----------------
    for fn in ('ElementRaw::create_sub_element_inner', 'ElementRaw::create_named_sub_element_inner'):
        b = P.get(fn)
        lit = [s for pos, s in b.iter_stmts() if s['k'] == 'assign' and s['rv']['k'] == 'agg' and s['rv'].get('adt') == 'ElementRaw']
        ok = len(lit) == 1
        if ok:
            lf = dict(zip(lit[0]['rv']['fields'], lit[0]['rv']['ops']))
            names, cs, consts = all_sources(b, lf['elemtype'])
            fs = [b.blocks[q[0]]['term'] for q in calls(b, r'ElementType::find_sub_element$')]
            # the lookup feeding the type is version specific, on self.elemtype, for the requested name
            ok = any(c.endswith('ElementType::find_sub_element') for c in cs)
            okv = False
            for t in fs:
                vn, vc, vk = all_sources(b, t['args'][2])
                if 'version' in vn and not any(is_max_const(k) for k in vk) and 'ElementRaw.elemtype' in deep_sources(b, t['args'][0])[2] and 'element_name' in all_sources(b, t['args'][1])[0]:
                    okv = True
            ok = ok and okv
        C.check(ok, 'C07-MUST-type', fn + '|type-from-version-specific-lookup', 'the created element does not get the type find_sub_element(name, file version) returns for the receiving element (a version-independent lookup returns the first entry of any version)', '%s:%d' % (b.file, b.line),
                sample={'fn': fn, 'elemtype': 'self.elemtype.find_sub_element(element_name, version as u32)'})
    # move: type equality guard
    cm = P.find('ElementRaw::check_moved_element_type')
    if not cm:
        # accept an inlined form: the comparison in the entry functions
        cm = []
    for fn in ('ElementRaw::move_element_here', 'ElementRaw::move_element_here_at'):
        b = P.get(fn)
        inner = calls(b, r'ElementRaw>::move_element_(local|full)$')
        ok = False
        if cm:
            h = cm[0] if isinstance(cm, list) else cm
            hc = calls(b, r'ElementRaw>::check_moved_element_type$')
            if hc:
                d = b.blocks[hc[0][0]]['term']['dst']['l']
                prop = any(st.get('k') == 'call' and call_matches(st, r'Try>::branch$') for pos, role, pl, st in iter_uses(b) if is_local_op(pl) and pl['l'] == d)
                ok = prop and all(b.pos_dominates(hc[0], p) for p in inner) and bool(inner)
                # arguments: the moved element and the file version
                t = b.blocks[hc[0][0]]['term']
                ok = ok and 'move_element' in all_sources(b, t['args'][1])[0] and 'version' in all_sources(b, t['args'][3])[0]
        else:
            for cp in calls(b, r'PartialEq.*ElementType.*::(eq|ne)$|ElementType as .*PartialEq>::(eq|ne)$'):
                if all(guarded_by_true(b, p, cp) for p in inner):
                    ok = True
        C.check(ok, 'C07-MUST-type', fn + '|moved-element-has-the-prescribed-type', '%s accepts a moved element without comparing its type with the type the receiving element prescribes for that name' % fn, '%s:%d' % (b.file, b.line),
                sample={'fn': fn, 'guard': 'dest_type == move_element.element_type()'})
    if cm:
        h = cm[0] if isinstance(cm, list) else cm
        oks = E.ok_exit_positions(h)
        eqs = calls(h, r'PartialEq.*::(eq|ne)$')
        eqs = [p for p in eqs if any('ElementType' in (h.local_ty(a['l']) or '') for a in h.blocks[p[0]]['term']['args'] if is_local_op(a))]
        okh = bool(oks) and bool(eqs) and all(any(guarded_by_true(h, o, p) for p in eqs) for o in oks)
        fs = [h.blocks[q[0]]['term'] for q in calls(h, r'ElementType::find_sub_element$')]
        okh = okh and len(fs) == 1 and 'version' in all_sources(h, fs[0]['args'][2])[0] and not any(is_max_const(k) for k in all_sources(h, fs[0]['args'][2])[2]) and 'ElementRaw.elemtype' in deep_sources(h, fs[0]['args'][0])[2]
        if okh:
            t = h.blocks[eqs[0][0]]['term']
            cs_ = set().union(*[all_sources(h, a)[1] for a in t['args']])
            okh = any(c.endswith('impl Element>::element_type') for c in cs_) and any(c.endswith('ElementType::find_sub_element') for c in cs_)
        C.check(okh, 'C07-MUST-type', 'check_moved_element_type|ok-only-for-equal-types', 'check_moved_element_type returns Ok although the moved element\'s type was not found equal to find_sub_element(name, version) of the receiving type', '%s:%d' % (h.file, h.line))
    # calc_element_insert_range: version-independent lookups only as fallback
    ce = P.get('ElementRaw::calc_element_insert_range')
    fs_main = [(q, ce.blocks[q[0]]['term']) for q in calls(ce, r'ElementType::find_sub_element$')]
    n_spec = 0
    for q, t in fs_main:
        vn, vc, vk = all_sources(ce, t['args'][2])
        if any(is_max_const(k) for k in vk) or 'version' not in vn:
            C.fail('C07-MUST-type', 'calc_element_insert_range|version-independent-lookup-in-main-path', 'calc_element_insert_range looks an element up without the file version outside of a fallback: find_sub_element(.., u32::MAX) returns the first entry of ANY version, so new and existing elements are located in different coordinate systems for the types whose layout differs between versions', ce.where(q))
        else:
            n_spec += 1
    for cb in P.closures_of(ce):
        for q in calls(cb, r'ElementType::find_sub_element$'):
            t = cb.blocks[q[0]]['term']
            vn, vc, vk = all_sources(cb, t['args'][2])
            if any(is_max_const(k) for k in vk):
                # must be the closure of an or_else on a version specific lookup
                oe = [p for p in calls(ce, r'Option::<T>::or_else$') if any(c.endswith('ElementType::find_sub_element') for c in deep_sources(ce, ce.blocks[p[0]]['term']['args'][0], depth=6)[1])]
                C.check(bool(oe), 'C07-MUST-type', 'calc_element_insert_range|fallback-lookup-only-behind-or_else', 'a version-independent lookup in a closure of calc_element_insert_range is not the or_else fallback of a version-specific one', cb.where(q))
    C.check(n_spec >= 2, 'C07-MUST-type', 'calc_element_insert_range|new-and-existing-looked-up-with-file-version', 'calc_element_insert_range no longer looks up both the new and the existing elements with the file version (%d version-specific lookups)' % n_spec, '%s:%d' % (ce.file, ce.line),
            sample={'fn': 'calc_element_insert_range', 'version_specific_lookups': n_spec})
    # ---------------- MUST-value ----------------
    reviewed_value = {
        ('ElementRaw::set_item_name', 'replace'): 'rewrites reference texts to old-prefix -> new-prefix: the new name was validated by subelem.set_character_data() a few lines earlier (dominance checked below) and the rest of the path is an existing path',
        ('ArxmlParser::parse_element', 'insert'): 'loader: the value comes from parse_character_data (C08-MUST-checks)',
        ('ElementRaw::deep_copy', 'insert'): 'copy of a value that was valid in the source; version and type change are guarded (C13-MUST-filter)',
        ('Element::insert_character_content_item', 'insert'): 'mixed content text: unrestricted string for every Mixed type (C07-DATA-mixed)',
    }
    n_val = 0
    for b in P.bodies.values():
        if b.crate != 'autosar_data':
            continue
        for o in E.content_ops(b):
            if o['item'] != 'CharacterData' or o['kind'] == 'remove':
                continue
            n_val += 1
            key = (b.short, o['kind'])
            site = o['pos']
            g = False
            for cp in calls(b, r'CharacterData>?::check_value$'):
                if guarded_by_true(b, site, cp):
                    g = True
            # `compatible_value` style: a bool local assigned from check_value and tested later
            if not g:
                for cp in calls(b, r'CharacterData>?::check_value$'):
                    d = b.blocks[cp[0]]['term']['dst']
                    for q, tt in b.iter_terms():
                        if tt['k'] == 'switch' and is_local_op(tt['d']) and not tt['d']['p']:
                            nm, cs, _ = all_sources(b, tt['d'], depth=6)
                            if any(c.endswith('check_value') for c in cs) and set(dict(tt['ts']).keys()) == {'0'}:
                                if must_pass(b, (0, 0), [site], through=(), avoid_edges={(q[0], tt['else'])}):
                                    g = True
            if not g:
                # several validations, each guarding its own way to the store (value as it is / value converted to text): no path
                # reaches the store once the true edge of every check_value test is removed
                cut_ = set()
                for q, tt in b.iter_terms():
                    if tt['k'] == 'switch' and is_local_op(tt['d']) and not tt['d']['p'] and set(dict(tt['ts']).keys()) == {'0'}:
                        nm, cs, _ = all_sources(b, tt['d'], depth=6)
                        if any(c.endswith('check_value') for c in cs):
                            cut_.add((q[0], tt['else']))
                if cut_ and must_pass(b, (0, 0), [site], through=(), avoid_edges=cut_):
                    g = True
            if g:
                C.ok('C07-MUST-value', '%s|chardata-%s|validated' % key, 'behind check_value', sample={'fn': b.short, 'store': o['op'], 'guard': 'CharacterData::check_value'} if n_val % 3 == 1 else None)
            elif key in reviewed_value:
                okrev = True
                if b.short == 'ElementRaw::set_item_name':
                    sc = calls(b, r'ElementRaw>::set_character_data$')
                    okrev = bool(sc) and b.pos_dominates(sc[0], site)
                C.check(okrev, 'C07-MUST-value', '%s|chardata-%s|reviewed' % key, 'premise of the reviewed exception no longer holds: %s' % reviewed_value[key], b.where(site), detail=reviewed_value[key])
            else:
                C.fail('C07-MUST-value', '%s|chardata-%s|unvalidated' % key, 'character data is stored into an element without CharacterData::check_value against the element\'s specification (length limit, pattern, enum version): the stored value may be rejected by the loader', b.where(site))
    C.floor('C07-MUST-value.sites', n_val, 8)
    # attributes
    for fn in ('ElementRaw::set_attribute_internal', 'ElementRaw::set_attribute_string'):
        b = P.get(fn)
        sites = [pos for pos, t in b.iter_calls() if c11.CONTAINER_MUT.search(callee_generic(t) or '') and (lambda rp: rp is not None and has_field(rp, 'ElementRaw.attributes'))(E.recv_place(b, t)) and re.search(r'::(push|insert)$', callee_generic(t) or '')]
        sites += [pos for pos, s in b.iter_stmts() if s['k'] == 'assign' and has_field(s['dst'], 'Attribute.content')]
        for i, site in enumerate(sorted(sites)):
            g = any(guarded_by_true(b, site, cp) for cp in calls(b, r'CharacterData>?::check_value$'))
            if not g:
                for cp in calls(b, r'CharacterData>?::parse$'):
                    sw = switch_edges_on_call_result(b, cp)
                    if sw:
                        blk, ts, els = sw
                        some = ts.get('1', els)
                        if must_pass(b, (0, 0), [site], through=(), avoid_edges={(blk, some)}):
                            g = True
            if not g:
                # `let value = CharacterData::parse(..).ok_or(InvalidAttributeValue)?;`: the store needs the Continue edge of the `?`
                for cp in calls(b, r'CharacterData>?::parse$'):
                    tl_ = forward_taint(b, {b.blocks[cp[0]]['term']['dst']['l']}, through_refs=False)
                    grew_ = True
                    while grew_:
                        grew_ = False
                        for q_, t_ in b.iter_calls():
                            if call_matches(t_, r'Option::<T>::(ok_or|ok_or_else)$|Result::<T, E>::(map_err|or|or_else)$|Try>::branch$') and t_['args'] and is_local_op(t_['args'][0]) and t_['args'][0]['l'] in tl_ and t_['dst']['l'] not in tl_:
                                tl_ |= forward_taint(b, {t_['dst']['l']}, through_refs=False); grew_ = True
                    for q_, s_ in b.iter_stmts():
                        if s_['k'] == 'assign' and s_['rv']['k'] == 'discr' and s_['rv']['pl']['l'] in tl_ and 'ControlFlow' in (b.local_ty(s_['rv']['pl']['l']) or ''):
                            sw_ = b.blocks[q_[0]]['term']
                            if sw_['k'] == 'switch':
                                cont = dict(sw_['ts']).get('0')
                                if cont is not None and must_pass(b, (0, 0), [site], through=(), avoid_edges={(q_[0], cont)}):
                                    g = True
            C.check(g, 'C07-MUST-value', '%s|attribute-store#%d|validated' % (fn, i), '%s stores an attribute value that did not pass check_value / parse against the attribute\'s specification' % fn, b.where(site))
        C.check(len(sites) == 2, 'C07-MUST-value', fn + '|attribute-stores', '%s has %d attribute stores (expected update + push)' % (fn, len(sites)))
    # ---------------- SIB-attrversion ----------------
    users = {}
    for b in P.bodies.values():
        if b.crate != 'autosar_data':
            continue
        fa = calls(b, r'ElementType::find_attribute_spec$')
        if fa:
            users[b.short] = (b, fa)
    exempt = {'ElementRaw::remove_attribute': 'only consults AttributeSpec.required to refuse the removal of a required attribute; it stores nothing (checked: no push/insert/assign on attributes)'}
    for fn, (b, fa) in sorted(users.items()):
        if fn in exempt:
            stores = [pos for pos, t in b.iter_calls() if (lambda rp: rp is not None and has_field(rp, 'ElementRaw.attributes'))(E.recv_place(b, t)) and re.search(r'::(push|insert|extend)$', callee_generic(t) or '')]
            stores += [pos for pos, s_ in b.iter_stmts() if s_['k'] == 'assign' and has_field(s_['dst'], 'Attribute.content')]
            C.check(not stores, 'C07-SIB-attrversion', fn + '|exempt-because-it-stores-nothing', 'premise of the exemption no longer holds: %s now stores attributes' % fn, detail=exempt[fn])
            continue
        bodies = P.with_closures(b)
        reads_ver = False
        tested = False
        for x in bodies:
            for pos, role, pl, st in iter_uses(x):
                if is_local_op(pl) and has_field(pl, 'AttributeSpec.version'):
                    reads_ver = True
            for cp in calls(x, r'AutosarVersion>?::compatible$'):
                t = x.blocks[cp[0]]['term']
                fl = set().union(*[deep_sources(x, a, depth=8)[2] for a in t['args'] if is_local_op(a)])
                if 'AttributeSpec.version' in fl:
                    tested = True
            for pos, st in x.iter_stmts():
                if st['k'] == 'assign' and st['rv']['k'] == 'bin' and st['rv']['op'] == 'BitAnd':
                    fl = deep_sources(x, st['rv']['a'], depth=8)[2] | deep_sources(x, st['rv']['b'], depth=8)[2]
                    if 'AttributeSpec.version' in fl:
                        tested = True
            # handing the mask to a checker function (parser: check_version(mask, ..))
            for pos, t in x.iter_calls():
                if call_matches(t, r'ArxmlParser.*::check_version$'):
                    fl = set().union(*[deep_sources(x, a, depth=8)[2] for a in t['args'] if is_local_op(a)])
                    if 'AttributeSpec.version' in fl:
                        tested = True
        C.check(reads_ver and tested, 'C07-SIB-attrversion', fn + '|attribute-version-mask-tested', '%s uses find_attribute_spec but never tests AttributeSpec.version against a version: an attribute that does not exist in the file\'s version is accepted here while the other sites reject it' % fn,
                '%s:%d' % (b.file, b.line), sample={'fn': fn, 'reads_AttributeSpec.version': reads_ver, 'tests_it': tested})
    C.floor('C07-SIB-attrversion.sites', len(users), 5)
    # in the setters the stores are behind the true edge of compatible()
    for fn in ('ElementRaw::set_attribute_internal', 'ElementRaw::set_attribute_string'):
        b = P.get(fn)
        sites = [pos for pos, t in b.iter_calls() if (lambda rp: rp is not None and has_field(rp, 'ElementRaw.attributes'))(E.recv_place(b, t)) and re.search(r'::(push|insert)$', callee_generic(t) or '')]
        sites += [pos for pos, s in b.iter_stmts() if s['k'] == 'assign' and has_field(s['dst'], 'Attribute.content')]
        cps = calls(b, r'AutosarVersion>?::compatible$')
        C.check(bool(sites) and all(any(guarded_by_true(b, s_, cp) for cp in cps) for s_ in sites), 'C07-SIB-attrversion', fn + '|store-behind-version-test', '%s can store an attribute without the attribute\'s version mask having matched the file version' % fn, '%s:%d' % (b.file, b.line))
    # ---------------- SIB-mult ----------------
    for fn, need in (('ElementRaw::calc_element_insert_range', ('find_common_group', 'content_mode', 'get_sub_element_multiplicity')), ('ArxmlParser::check_element_conflict', ('find_common_group', 'content_mode')), ('ArxmlParser::check_multiplicity', ('get_sub_element_multiplicity',))):
        b = P.get(fn)
        have = set()
        for x in P.with_closures(b):
            for pos, t in x.iter_calls():
                c = (callee_of(t) or '').rsplit('::', 1)[-1]
                have.add(c)
        C.check(all(n in have for n in need), 'C07-SIB-mult', fn + '|consults-' + '+'.join(need), '%s no longer consults %s' % (fn, [n for n in need if n not in have]), '%s:%d' % (b.file, b.line), sample={'fn': fn, 'consults': list(need)})
    # both compare the multiplicity with Any
    for fn in ('ElementRaw::calc_element_insert_range', 'ArxmlParser::check_multiplicity'):
        b = P.get(fn)
        okm = False
        for x in P.with_closures(b):
            for cp in calls(x, r'ElementMultiplicity as .*PartialEq>::(eq|ne)$'):
                okm = True
            # `!=` on a derived PartialEq resolves to the trait's default `ne`: recognise it by the type of its operands
            for cp in calls(x, r'cmp::PartialEq::(eq|ne)$'):
                if any(is_local_op(a) and 'ElementMultiplicity' in (x.local_ty(a['l']) or '') for a in x.blocks[cp[0]]['term']['args']):
                    okm = True
            for pos, tt in x.iter_terms():
                if tt['k'] == 'switch' and is_local_op(tt['d']) and any(c.endswith('get_sub_element_multiplicity') for c in all_sources(x, tt['d'], depth=8)[1]):
                    okm = True
        C.check(okm, 'C07-SIB-mult', fn + '|branches-on-multiplicity', '%s does not branch on the multiplicity of the element' % fn, '%s:%d' % (b.file, b.line))
    # ---------------- SIB-valuecols: editor-side value checks read the same specification columns as the loader ----------------
    C.rule('C07-SIB-valuecols', 'CharacterData::check_value (setters) and CharacterData::parse (string setters) read every validating column of CharacterDataSpec that the loader\'s parse_character_data reads: Enum.items, Pattern.check_fn, Pattern.max_length, String.max_length')
    def spec_cols(fn):
        b = P.get(fn)
        seen = set()
        for x in P.with_closures(b):
            for pos, role, pl, st in iter_uses(x):
                if is_local_op(pl):
                    ps = [p_ for p_ in pl.get('p', []) if p_ != '*']
                    for i_, p_ in enumerate(ps):
                        if str(p_).startswith('.CharacterDataSpec.') and i_ > 0 and str(ps[i_ - 1]).startswith('as '):
                            seen.add((ps[i_ - 1][3:], p_.split('.')[-1]))
        return seen
    loader_cols = spec_cols('ArxmlParser::parse_character_data')
    validating = {c for c in loader_cols if c[1] in ('items', 'check_fn', 'max_length')}
    C.check(len(validating) >= 4, 'C07-SIB-valuecols', 'loader|validating-columns', 'the loader reads fewer validating columns than expected: %s' % sorted(validating))
    for fn in ('CharacterData::check_value', 'CharacterData::parse'):
        got = spec_cols(fn)
        for col in sorted(validating):
            C.check(col in got, 'C07-SIB-valuecols', '%s|reads|%s.%s' % (fn, col[0], col[1]), '%s does not read CharacterDataSpec::%s.%s although the loader validates with it: the editing API accepts values the loader rejects (e.g. identifiers longer than max_length)' % (fn, col[0], col[1]),
                    '%s:%d' % (P.get(fn).file, P.get(fn).line), sample={'fn': fn, 'column': '%s.%s' % col} if col[1] == 'max_length' and col[0] == 'Pattern' else None)
    # ---------------- move: source and destination must have EXACTLY the same version ----------------
    for fn in ('Element::move_element_here', 'Element::move_element_here_at'):
        b = P.get(fn)
        eqs = [p_ for p_ in calls(b, r'PartialEq(<.*>)?>?::(ne|eq)$|PartialEq::(ne|eq)$') if any('AutosarVersion' in (b.local_ty(a_['l']) or '') for a_ in b.blocks[p_[0]]['term']['args'] if is_local_op(a_))]
        ords = [p_ for p_ in calls(b, r'PartialOrd.*::(lt|le|gt|ge|partial_cmp)$|Ord>?::cmp$') if any('AutosarVersion' in (b.local_ty(a_['l']) or '') for a_ in b.blocks[p_[0]]['term']['args'] if is_local_op(a_))]
        inner = calls(b, r'ElementRaw>::move_element_here(_at)?$')
        okv = bool(eqs) and not ords and bool(inner)
        if okv:
            mv = calls(b, r'impl Element>::min_version$')
            okv = len(mv) >= 2 and all(b.pos_dominates(eqs[0], p_) for p_ in inner)
        C.check(okv, 'C07-MUST-type', fn + '|same-version-required', '%s does not require the versions of the source and the destination file to be EQUAL (an ordering test lets a subtree move into a newer file unfiltered: content that only exists in the old version ends up in the new file)' % fn,
                '%s:%d' % (b.file, b.line), sample={'fn': fn, 'guard': 'version != version_src -> VersionMismatch'})
    # ---------------- SIB-named: one notion of "identifiable in this version" on all creation paths ----------------
    C.rule('C07-SIB-named', 'whether a sub element needs an item name is decided with ElementType::is_named_in_version(file version) on both creation paths (create_sub_element_inner refuses named types, create_named_sub_element_inner requires them) and by the parser; '
           'list_valid_sub_elements reports the named flag from the version-specific mask. The version-independent is_named() is not used to accept or refuse a creation')
    for fn in ('ElementRaw::create_sub_element_inner', 'ElementRaw::create_named_sub_element_inner'):
        b = P.get(fn)
        nv = calls(b, r'ElementType::is_named_in_version$')
        na = calls(b, r'ElementType::is_named$')
        okn = len(nv) == 1 and not na
        if okn:
            t = b.blocks[nv[0][0]]['term']
            okn = 'version' in all_sources(b, t['args'][1])[0] and any(c.endswith('find_sub_element') for c in all_sources(b, t['args'][0])[1])
        C.check(okn, 'C07-SIB-named', fn + '|named-in-file-version', '%s does not decide "needs an item name" with is_named_in_version(file version) of the type found for the file version: for the types whose identifiability depends on the version, an element reported as allowed cannot be created (or is created in the wrong form)' % fn,
                '%s:%d' % (b.file, b.line), sample={'fn': fn, 'test': 'elemtype.is_named_in_version(version)'})
    lv = P.get('Element::list_valid_sub_elements')
    okl = False
    for x in P.with_closures(lv):
        for cp in calls(x, r'AutosarVersion>?::compatible$'):
            okl = okl or len(calls(x, r'AutosarVersion>?::compatible$')) >= 2
    C.check(okl and bool(calls(lv, r'SubelemDefinitionsIter as .*Iterator>::next$|ElementType::sub_element_spec_iter$')), 'C07-SIB-named', 'list_valid_sub_elements|named-flag-from-version-mask', 'list_valid_sub_elements no longer derives is_named from the version-specific named mask of the specification')
    # ---------------- SIB-escape (shared with C01): what the editor stores is written in a form the loader reads back ----------------
    C.rule('C07-SIB-escape', 'writer and reader escaping tables are inverse and complete (a stored value containing < & " must be written so that the loader reads the same value): shared with C01-SIB-escape')
    from c01 import escape_rules
    escape_rules(C, P, json.load(open(os.path.join(ctx['facts'], 'syn.json')))['files'], 'C07-SIB-escape')
    # ---------------- DATA-mixed ----------------
    syn = json.load(open(os.path.join(ctx['facts'], 'syn.json')))['files']
    k = [x for x in syn if x.endswith('specification.rs')]
    if not k:
        C.anchor_missing('C07-DATA-mixed', 'specification.rs in syn.json')
    else:
        st = {s['name']: s for s in syn[k[0]]['statics'] if not s['cfg']}
        dts = st['DATATYPES']['e']['es']
        cds = st['CHARACTER_DATA']['e']['es']
        nm = 0
        for i, d in enumerate(dts):
            if d['fields']['mode'].get('v') != 'ContentMode::Mixed':
                continue
            nm += 1
            cd = d['fields']['character_data']
            ok = cd.get('k') == 'call' and cd['args'] and cd['args'][0]['k'] == 'int' and cd['args'][0]['v'] < len(cds)
            if ok:
                e = cds[cd['args'][0]['v']]
                nmv = json.dumps(e)
                ok = ('"String"' in nmv or e.get('name', '').endswith('String') or 'String' in json.dumps(e.get('path', e.get('name', '')))) and '"max_length"' in nmv
                ml = e.get('fields', {}).get('max_length', {})
                ok = ok and ml.get('v') == 'None'
            C.check(ok, 'C07-DATA-mixed', 'DATATYPES[%d]|mixed-text-unrestricted' % i, 'a Mixed-content type restricts its text (pattern / max_length / enum): insert_character_content_item stores text without validating it', sample={'datatype': i, 'spec': 'String{max_length: None}'} if nm == 1 else None)
        C.floor('C07-DATA-mixed.types', nm, 20)
    return C.finish('Editor/validator column agreement on MIR: dominance of the range computation and of version-specific type lookups before every element insertion, who-may-call closure of the inserting functions, '
                    'true-edge guards of value stores by check_value/parse, version-mask test at every find_attribute_spec user, plus a DATA rule on the literal tables for mixed content. '
                    'Exactness of the computed insert range is not decided.')

"""C15 - concurrent operations never deadlock: static lock-order analysis.
All blocking acquisitions of the three RwLock families must respect  Element(ancestor) < Element(descendant) < Model < File;
everything else must be try/timed.  An edge held -> acquired that violates the order is reported with its verdict class."""
import re
from ir import Program, callee_of, callee_generic
from locks import LockGraph, own_str, ACQ_RX
from framework import Check

WHAT = {
    'inverted': 'blocking acquisition against the documented order (Model/File lock held while an Element lock is taken, or File held while Model is taken): closes a wait cycle with the allowed Element -> Model edges of every mutator',
    'up': 'blocking acquisition of an ancestor element while a descendant is held (the source documents that upward acquisitions must be try-locks): deadlocks against any top-down operation on the same branch',
    'same': 'second acquisition of a lock this call chain already holds (parking_lot RwLock is write-preferring: a recursive read blocks as soon as a writer queues in between)',
    'unordered': 'blocking acquisition of an element that has no established order relative to the element already held (another parameter, a referrer found through the index): two calls with the roles swapped wait for each other',
}


def edge_key(e):
    return '%s|held=%s@%s|acq=%s@%s|%s' % (e['fn'], e['held'].desc(), own_str(e['held'].own), e['acq'].desc(), own_str(e['acq'].own), e['verdict'])


def run(ctx):
    C = Check('C15', ctx['tier'], 'other', ctx['seed'])
    P = Program(ctx['facts'])
    C.rule('C15-ORDER', 'every (held guard, acquisition) pair reachable in the crate - through guard-liveness dataflow on MIR and acquisition summaries over the call graph - is allowed by the order Element(ancestor) < Element(descendant) < Model < File, or is a try/timed acquisition, or concerns an object created in the same call')
    C.rule('C15-WHO-primitives', 'the only synchronisation objects reachable in the crate are the three RwLock families (no Mutex, Condvar, channel, park, Once, Barrier)')
    C.assumptions = ['provenance abstraction only ever adds edges (unknown owners are treated as unordered)', 'trait-object calls (dyn Debug in the Debug impls) are not followed',
                     'timed/try acquisitions cannot wait forever; their failure is the documented ParentElementLocked']
    G = LockGraph(P)
    seen = {}
    for e in G.edges:
        k = edge_key(e) if e['verdict'] else None
        if e['verdict'] in (None, 'spurious-lock-error'):
            continue
        if k in seen:
            continue
        seen[k] = e
    allowed = [e for e in G.edges if e['verdict'] is None]
    n_acq = sum(len(bl.acqs) for bl in G.bl.values())
    import json, os
    from framework import VERIF
    reviewed = {r['key']: r for r in json.load(open(os.path.join(VERIF, 'tables', 'c15_reviewed.json')))['reviewed']}
    # premises of the reviewed exceptions
    from c04 import callers_of
    prem_ok = (callers_of(P, 'AutosarModel::import_new_items') == {'AutosarModel::merge_element'}
               and callers_of(P, 'AutosarModel::merge_element') <= {'AutosarModel::merge_file_data', 'AutosarModel::merge_sub_elements'}
               and callers_of(P, 'AutosarModel::merge_file_data') == {'AutosarModel::load_buffer_internal'})
    used_reviewed = []
    for k, e in sorted(seen.items()):
        if k in reviewed and prem_ok:
            used_reviewed.append(k)
            C.ok('C15-ORDER', k + '|reviewed', reviewed[k]['reason'])
            continue
        chain = ' > '.join((e['fn'],) + e['acq'].chain)
        C.fail('C15-ORDER', k, '%s [%s: holds %s, then %s acquisition of %s at %s via %s]' % (WHAT[e['verdict']], e['verdict'], e['held'].desc(), e['acq'].kind, e['acq'].desc(), e['acq'].where, chain), e['where'])
    # allowed edges are discharged obligations
    akeys = set()
    for e in allowed:
        k = '%s|held=%s@%s|acq=%s@%s|ok:%s' % (e['fn'], e['held'].desc(), own_str(e['held'].own), e['acq'].desc(), own_str(e['acq'].own), e['rel'])
        if k in akeys:
            continue
        akeys.add(k)
        C.ok('C15-ORDER', k, 'allowed', sample={'fn': e['fn'], 'held': e['held'].desc() + '@' + own_str(e['held'].own), 'acquired': e['acq'].desc() + '@' + own_str(e['acq'].own), 'relation': e['rel'], 'why': 'respects order / try / fresh'} if len(akeys) % 25 == 0 else None)
    # ---- the other half of the known wait cycles ----------------------------------------------------
    # An Element lock held while the Model/File lock is awaited respects the order - but as long as the tree contains the opposite edges
    # (Model/File held -> Element awaited, the "inverted" findings), each such function is one half of a wait cycle with each of them.
    # The functions that do this today are listed in tables/c15_up_edges.json; one more is one more way to deadlock, not a new class.
    ups = {}
    for e in allowed:
        if e['held'].desc().startswith('Element') and e['acq'].desc().startswith(('Model', 'File')) and ':blocking' in e['acq'].desc() and ':try' not in e['held'].desc():
            ups.setdefault(e['fn'], e)
    inverted = [k for k, e in seen.items() if e['verdict'] == 'inverted']
    table = set(json.load(open(os.path.join(VERIF, 'tables', 'c15_up_edges.json')))['functions'])
    C.rule('C15-CYCLE', 'while Model/File -> Element inversions exist, the functions that await the Model/File lock with an Element lock held are a closed, reviewed set (tables/c15_up_edges.json): each of them closes a wait cycle with every inversion')
    if inverted:
        for fn in sorted(ups):
            e = ups[fn]
            if fn in table:
                C.ok('C15-CYCLE', '%s|element-held-while-model-awaited|listed' % fn, 'half of the known cycles (see the inverted findings)')
            else:
                C.fail('C15-CYCLE', '%s|element-held-while-model-awaited|closes-cycle-with-known-inversion' % fn, '%s holds %s and then waits (blocking) for %s at %s: together with a thread that holds the model lock and waits for that element '
                       '(e.g. check_references, serialize, load - the inverted findings) neither can proceed. The function is not among those that did this on the reviewed tree' % (fn, e['held'].desc(), e['acq'].desc(), e['acq'].where), e['where'])
    C.extra['element_then_model_functions'] = sorted(ups)
    C.floor('C15-ORDER.acquisitions', n_acq, 90)
    C.floor('C15-ORDER.edges', len(G.edges), 200)
    C.extra['acquisition_sites'] = n_acq
    C.extra['edges_total'] = len(G.edges)
    C.extra['edges_allowed_distinct'] = len(akeys)
    C.extra['edges_violating_distinct'] = len(seen)
    C.extra['reviewed_exceptions_used'] = used_reviewed
    C.extra['summary_fixpoint_rounds'] = G.rounds
    C.extra['bodies_analysed'] = len(G.bl)
    # ---- foreign primitives -----------------------------------------------------------------------
    bad = re.compile(r'std::sync::(Mutex|Condvar|Barrier|Once|OnceLock|mpsc|RwLock)|std::thread::(park|sleep|yield_now|spawn)|parking_lot::(Mutex|Condvar|Once|ReentrantMutex|FairMutex)|lock_api::(Mutex|ReentrantMutex)|crossbeam|std::sync::atomic::.*::(compare_exchange|swap).*spin')
    n = 0
    for b in P.bodies.values():
        if b.crate != 'autosar_data':
            continue
        for pos, t in b.iter_calls():
            n += 1
            c = (callee_of(t) or '') + ' ' + (callee_generic(t) or '')
            if bad.search(c):
                C.fail('C15-WHO-primitives', '%s|%s' % (b.short, (callee_generic(t) or '').rsplit('::', 2)[-2:]), 'a synchronisation primitive outside the analysed RwLock families is used; the lock-order argument does not cover it', b.where(pos))
    C.ok('C15-WHO-primitives', 'scan', '%d call sites scanned' % n)
    # every RwLock method used is one the analysis classifies
    for b in P.bodies.values():
        if b.crate != 'autosar_data':
            continue
        for pos, t in b.iter_calls():
            cg = callee_generic(t) or ''
            if 'lock_api::RwLock::<R, T>::' in cg and not ACQ_RX.search(cg) and not re.search(r'::(new|into_inner|get_mut|data_ptr|is_locked|is_locked_exclusive|raw|force_unlock_.*)$', cg):
                C.fail('C15-ORDER', '%s|unclassified-lock-method|%s' % (b.short, cg.rsplit('::', 1)[-1]), 'an RwLock method the analysis does not classify', b.where(pos))
    return C.finish('Static lock-order analysis: guard liveness by forward dataflow on drop-elaborated MIR, owner provenance of every acquisition '
                    '(self / parameter / child / parent / root / lookup / fresh), acquisition summaries to a fixpoint over the resolved call graph incl. closures, '
                    'then a verdict for every (held, acquired) pair. Covers all schedules and any number of threads for the "no wait cycle" argument; '
                    'does not decide liveness under the 10 ms timeouts.')

"""C17 - version compatibility check and version change: the compatibility checker consults the same version columns as
the validator; the version of a file changes only behind the compatibility gate; the returned mask is the AND of every
consulted mask."""
import re
from ir import Program, callee_of, callee_generic, has_field, ends_in_field
from flow import origins, is_local_op, call_matches, must_pass, source_names, iter_uses, deep_sources
import events as E
from pairing import calls, dominated_by
from framework import Check


def header_rule(C, P, RULE):
    fs = P.get('ArxmlFile::serialize')
    sv_ = calls(fs, r'AutosarModelRaw>::set_version$')
    si_ = calls(fs, r'impl Element>::serialize_internal$')
    okh = len(sv_) == 1 and len(si_) >= 1
    if okh:
        okh = all(must_pass(fs, (0, 0), [p_], through={sv_[0]}) for p_ in si_)
        n_, c_, f_ = deep_sources(fs, fs.blocks[sv_[0][0]]['term']['args'][1], depth=10)
        okh = okh and 'ArxmlFileRaw.version' in f_
        # the model lock for it is a blocking write (a try-lock would skip the update under contention)
        okh = okh and not calls(fs, r'RwLock::<R, T>::try_write(_for|_until)?$')
    C.check(okh, RULE, 'ArxmlFile::serialize|header-version-updated-on-every-path', 'ArxmlFile::serialize can produce the text without having written the file\'s version into the schema location of the root element (conditional or try-locked update): after set_version() the file may still be written, and load, as the old version',
            '%s:%d' % (fs.file, fs.line), sample={'fn': 'ArxmlFile::serialize', 'step': 'model.write().set_version(self.version) before serialize_internal'})


from flow import op_local


def run(ctx):
    C = Check('C17', ctx['tier'], 'other', ctx['seed'])
    P = Program(ctx['facts'])
    C.rule('C17-SIB-columns', 'every version column the validator (parser.rs) consults is consulted by the compatibility walk: sub-element mask for the target version, element type re-selected for the target version, attribute mask, enum-value mask of attribute values, enum-value mask of element character content, per-file membership filter')
    C.rule('C17-MUST-gate', 'ArxmlFileRaw.version is stored only by the constructors and by ArxmlFile::set_version, there only on the `compat_errors.is_empty()` edge; the other edge is the Err exit; set_version writes nothing else')
    C.rule('C17-SIB-mask', 'the mask returned by the compatibility walk is the AND of every mask it consulted')
    cw = P.get('Element::check_version_compatibility')
    pc = P.get('ArxmlParser::parse_character_data')
    # character data of EVERY kind is judged against the specification of the target-version type: a `true` verdict of
    # CharacterData::check_version_compatibility is either the enum-item version test or the result of a validation against the given spec
    # (a type that is a plain string in one version and pattern-restricted in the next keeps its name)
    C.rule('C17-MUST-value', 'CharacterData::check_version_compatibility returns `compatible` only as the outcome of the enum-item version test or of CharacterData::check_value against the specification of the target-version element type; a constant `true` for the non-enum kinds is a hole')
    cc = P.find('CharacterData::check_version_compatibility')
    if cc is None:
        C.anchor_missing('C17-MUST-value', 'CharacterData::check_version_compatibility')
    else:
        from flow import const_val as _cv
        guards = [pos for pos, t in cc.iter_calls() if call_matches(t, r'Iterator>?::find$|AutosarVersion::compatible$|CharacterData>?::check_value$|Option::<T>::(map_or|is_some_and)$')]
        consts = []
        for pos, st in cc.iter_stmts():
            if st['k'] == 'assign' and st['rv']['k'] == 'agg' and st['rv'].get('ak') == 'tuple' and st['rv']['ops'] and not is_local_op(st['rv']['ops'][0]) and str(_cv(st['rv']['ops'][0])) == 'true':
                consts.append(pos)
        bad = [p_ for p_ in consts if not any(cc.pos_dominates(g, p_) for g in guards)]
        C.check(not bad, 'C17-MUST-value', 'CharacterData::check_version_compatibility|true-only-after-a-test', 'character data that is not an enum value is reported compatible with the target version without being validated against the target type: a text that violates the pattern the element has in the target version passes the check, set_version succeeds, and the strict loader rejects the relabelled file',
                cc.where(bad[0]) if bad else '', sample={'fn': 'CharacterData::check_version_compatibility', 'constant_true_verdicts': len(consts)})
    if cc is not None:
        # the enum verdict is the validator's own test: bit of the target version in the item's mask (AutosarVersion::compatible, or the AND itself).
        # A mask can have holes (items removed and re-introduced), so no ordering / range test on it is equivalent.
        ccb = [cc] + list(P.closures_of(cc))
        bit = any(call_matches(t, r'AutosarVersion>?::compatible$') for x in ccb for pos, t in x.iter_calls()) or \
            any(st['k'] == 'assign' and st['rv']['k'] == 'bin' and st['rv'].get('op') == 'BitAnd' and
                any(op_local(o) in {op_local(s2['dst']) for _p2, s2 in x.iter_stmts() if s2['k'] == 'assign' and s2['rv']['k'] == 'cast'} for o in (st['rv']['a'], st['rv']['b']) if op_local(o) is not None)
                for x in ccb for pos, st in x.iter_stmts())   # `(target_version as u32) & mask`
        C.check(bit, 'C17-MUST-value', 'CharacterData::check_version_compatibility|enum-verdict-is-the-bit-test',
                'the enum branch of CharacterData::check_version_compatibility no longer tests the bit of the target version in the item\'s version mask (AutosarVersion::compatible / `&`), which is what the validator does (check_version): masks with holes (items removed and re-introduced) are judged differently by the two',
                '%s:%d' % (cc.file, cc.line), sample={'fn': 'CharacterData::check_version_compatibility', 'obligation': 'verdict = target bit AND item mask'})
    pe = P.get('ArxmlParser::parse_element')
    pa = P.get('ArxmlParser::parse_attribute_text')
    fe = P.get('ArxmlParser::find_element_in_spec_checked')

    def has(b, rx):
        return bool(calls(b, rx)) or any(bool(calls(x, rx)) for x in P.closures_of(b))
    cols = [
        ('sub-element version mask', has(fe, r'ElementType::find_sub_element$') and has(fe, r'get_sub_element_version_mask$'),
         has(cw, r'ElementType::find_sub_element$') and has(cw, r'get_sub_element_version_mask$')),
        ('element type re-selected for the target version', has(fe, r'ElementType::find_sub_element$'), has(cw, r'impl Element>::recalc_element_type$')),
        ('attribute version mask', has(pa, r'find_attribute_spec$') and has(pa, r'check_version$'), has(cw, r'find_attribute_spec$') and has(cw, r'AutosarVersion>::compatible$')),
        ('enum value mask of attribute values', has(pa, r'parse_character_data$'), attr_value_checked(cw)),
        ('enum value mask of element character content', has(pe, r'parse_character_data$') and has(pe, r'ElementType::chardata_spec$'), content_value_checked(cw)),
    ]
    for name, v, w in cols:
        C.check(v and w, 'C17-SIB-columns', name, 'the validator consults "%s" (%s) but the compatibility walk does not (%s): content the validator rejects in the target version is reported compatible' % (name, v, w),
                '%s:%d' % (cw.file, cw.line), sample={'column': name, 'validator': v, 'compat_walk': w})
    # the walk recurses into every sub element that belongs to the file and uses the TARGET version for the lookup
    rec = [pos for pos, t in cw.iter_calls() if callee_of(t) == cw.id]
    C.check(len(rec) == 1 and bool(E.loops_containing(cw, rec)), 'C17-SIB-columns', 'walk-recurses-over-sub-elements', 'the compatibility walk no longer recurses over the sub elements in a loop')
    # ... and visits EVERY sub element: the only way out of that loop is the exhausted iterator
    for h, body in cw.natural_loops():
        if rec and rec[0][0] in body:
            exits = []
            for bi in body:
                for sx in cw.succs(bi):
                    if sx not in body and not cw.blocks[sx]['cleanup']:
                        exits.append((bi, sx))
            nexts = [pos for pos, t in cw.iter_calls() if call_matches(t, r'ElementsIterator as .*Iterator>::next$') and pos[0] in body]
            ok = bool(nexts)
            if ok:
                nt = cw.blocks[nexts[0][0]]['term']['t']
                # exit edges may only leave from the block that tests the iterator result (and the drop chain behind its None edge)
                none_region = cw.reach_from((nt, 0), include_start=True, avoid={(h, 0)})
                ok = all(cw.blocks[e[0]]['term']['k'] == 'switch' and e[0] == nt or (e[0], 0) in none_region and not any(p2[0] == e[0] for p2 in rec) for e in exits)
                # stricter: no exit edge is reachable from the membership test or from any point after the iterator yielded Some
                sw = cw.blocks[nt]['term']
                if sw['k'] == 'switch':
                    some_t = dict(sw['ts']).get('1', sw['else'])
                    some_region = cw.reach_from((some_t, 0), include_start=True, avoid={(h, 0)})
                    ok = not any((e[0], 0) in some_region or any(p3[0] == e[0] for p3 in some_region) for e in exits)
            C.check(ok, 'C17-SIB-columns', 'walk-visits-every-sub-element', 'the per-child loop of the compatibility walk can be left before all sub elements were visited (break / early return): later siblings are neither checked nor folded into the mask',
                    cw.where((h, 0)), sample={'fn': 'Element::check_version_compatibility', 'loop_exits': len(exits)})
    fs = [(pos, t) for pos, t in cw.iter_calls() if call_matches(t, r'ElementType::find_sub_element$')]
    tv = False
    for pos, t in fs:
        n_, c_, f_ = deep_sources(cw, t['args'][2]) if len(t['args']) > 2 else (set(), set(), set())
        if 'target_version' in n_:
            tv = True
    C.check(tv, 'C17-SIB-columns', 'lookup-uses-target-version', 'no sub-element lookup in the compatibility walk uses the target version')
    # recalc_element_type looks the element up in the PARENT's type for the target version
    rt = P.get('Element::recalc_element_type')
    C.check(has(rt, r'impl Element>::parent$') and has(rt, r'ElementType::find_sub_element$'), 'C17-SIB-columns', 'recalc-through-parent-type', 'recalc_element_type no longer re-selects the type through the parent\'s specification')
    # membership filter (same predicate as the serializer: C10-SIB-view)
    ie = [pos for pos, t in cw.iter_calls() if call_matches(t, r'HashSet::<T, S, A>::is_empty$')]
    ct = [pos for pos, t in cw.iter_calls() if call_matches(t, r'HashSet::<T, S, A>::contains')]
    C.check(bool(ie) and bool(ct), 'C17-SIB-columns', 'per-file-filter', 'the compatibility walk no longer filters sub elements by file membership (is_empty || contains)')

    # ---- gate ----
    writers = {}
    for b in P.bodies.values():
        if b.crate != 'autosar_data':
            continue
        for pos, s in b.iter_stmts():
            if s['k'] == 'assign' and ends_in_field(s['dst'], 'ArxmlFileRaw.version'):
                writers.setdefault(b.short, []).append((pos, 'store'))
            if s['k'] == 'assign' and s['rv']['k'] == 'agg' and s['rv'].get('adt') == 'ArxmlFileRaw':
                writers.setdefault(b.short, []).append((pos, 'ctor'))
    exp = {'ArxmlFile::new': 'ctor', 'AutosarModel::load_buffer_internal': 'ctor', 'ArxmlFile::set_version': 'store'}
    for fn, lst in sorted(writers.items()):
        for pos, kind in lst:
            C.check(exp.get(fn) == kind, 'C17-MUST-gate', 'writer|%s|%s' % (fn, kind), 'ArxmlFileRaw.version is written in %s (%s), outside the constructors and the gated setter' % (fn, kind), P.get(fn).where(pos),
                    sample={'writer': fn, 'kind': kind})
    C.floor('C17-MUST-gate.writers', len(writers), 3)
    sv = P.get('ArxmlFile::set_version')
    st = [pos for pos, k in writers.get('ArxmlFile::set_version', [])]
    chk = calls(sv, r'ArxmlFile>::check_version_compatibility$')
    emp = calls(sv, r'Vec::<T, A>::is_empty$|Vec<.*>::is_empty$')
    ok = len(st) == 1 and len(chk) == 1 and len(emp) == 1 and sv.pos_dominates(chk[0], emp[0]) and sv.pos_dominates(emp[0], st[0])
    if ok:
        t = sv.blocks[emp[0][0]]['term']
        # the switch that tests the emptiness result (directly, or in the caller when the test sits in an inlined helper that returns it)
        from flow import switch_edges_on_call_result as _sw
        sw_ = _sw(sv, emp[0])
        ok = sw_ is not None
        if ok:
            false_t = sw_[1].get('0')
            ok = false_t is not None and st[0] not in sv.reach_from((false_t, 0), include_start=True)
            # the false edge ends in Err
            errs = [e['pos'] for e in E.result_exits(sv) if e['kind'] == 'err']
            ok = ok and any(e in sv.reach_from((false_t, 0), include_start=True) for e in errs)
            # is_empty is applied to the error list of the check
            n_, c_, f_ = deep_sources(sv, t['args'][0])
            # (by provenance: the tested list is component .0 of the tuple the compatibility check returned)
            ok = ok and any((c or '').endswith('check_version_compatibility') for c in c_)
    C.check(ok, 'C17-MUST-gate', 'set_version|store-only-if-no-incompatibility', 'the file version can be changed although the compatibility check listed incompatibilities (or without running it)', sv.where(st[0]) if st else '',
            sample={'fn': 'ArxmlFile::set_version', 'gate': 'check_version_compatibility(new_ver).0.is_empty()'})
    # set_version writes nothing else
    import c11
    from locks import BodyLocks
    dm = c11.direct_mutations(sv, BodyLocks(P, sv))
    C.check([d for _, d in dm] == ['store:ArxmlFileRaw.version'], 'C17-MUST-gate', 'set_version|writes-only-version', 'set_version writes more than the version: %s' % [d for _, d in dm])
    # the target version handed to the check is the one stored
    if chk and st:
        n1 = deep_sources(sv, sv.blocks[chk[0][0]]['term']['args'][1])[0]
        s_ = sv.blocks[st[0][0]]['stmts'][st[0][1]]
        n2 = deep_sources(sv, s_['rv']['o'])[0] if s_['rv']['k'] == 'use' else set()
        # the same PARAMETER (whatever its name) is checked and stored
        from flow import source_locals as _sl
        pv = {l for l in range(1, sv.argc + 1) if 'AutosarVersion' in (sv.local_ty(l) or '')}
        l1 = _sl(sv, sv.blocks[chk[0][0]]['term']['args'][1]) & pv
        l2 = (_sl(sv, s_['rv']['o']) & pv) if s_['rv']['k'] == 'use' else set()
        C.check(bool(l1) and l1 == l2, 'C17-MUST-gate', 'set_version|checks-the-version-it-stores', 'the version that is checked is not the version that is stored')
    # ArxmlFile::check_version_compatibility delegates to the root element walk with this file
    fc = P.get('ArxmlFile::check_version_compatibility')
    C.check(has(fc, r'impl Element>::check_version_compatibility$') and has(fc, r'AutosarModel>::root_element$'), 'C17-MUST-gate', 'file-check-delegates-to-root-walk', 'ArxmlFile::check_version_compatibility no longer walks from the root element')
    # ... and it is the ROOT the walk starts at (its attributes and the version masks of its sub elements are judged in the walk of the
    # parent, so a walk started at the children of the root skips them)
    starts = []
    for x in P.with_closures(fc):
        for q in calls(x, r'impl Element>::check_version_compatibility$'):
            cs = deep_sources(x, x.blocks[q[0]]['term']['args'][0], depth=10)[1]
            starts.append((x, q, any(c.endswith('::root_element') for c in cs) and not any(re.search(r'::(sub_elements|elements_dfs\w*|next|get_sub_element\w*|content|nth|find\w*)$', c) for c in cs)))
    C.check(bool(starts) and all(ok_ for _, _, ok_ in starts), 'C17-MUST-gate', 'file-check-starts-at-the-root', 'ArxmlFile::check_version_compatibility starts the compatibility walk at an element other than the root (e.g. at its sub elements): the version masks of the top-level elements and the attributes of the root are judged by nobody',
            next((x.where(q) for x, q, ok_ in starts if not ok_), '%s:%d' % (fc.file, fc.line)), sample={'fn': 'ArxmlFile::check_version_compatibility', 'walk_receiver': 'model.root_element()'})

    # ---- mask ----
    # accumulators: u32 locals that are updated as `acc = acc & x` (the walk's own one, and those of helpers that were extracted from it
    # and are inlined here: their result is ANDed into the walk's accumulator in turn)
    accs = {}
    for pos, s in cw.iter_stmts():
        if s['k'] == 'assign' and not s['dst']['p'] and s['rv']['k'] == 'bin' and s['rv']['op'] == 'BitAnd' and (cw.local_ty(s['dst']['l']) or '') == 'u32':
            l = s['dst']['l']
            other = [o for o in (s['rv']['a'], s['rv']['b']) if not (is_local_op(o) and o['l'] == l and not o['p'])]
            if len(other) == 1:
                accs.setdefault(l, []).append((pos, other[0]))
    # the accumulator whose value is returned: the one named in the returned tuple, i.e. the one no other accumulator absorbs
    from flow import source_locals as _srcl
    inits = {l: [st for pos, st in cw.iter_stmts() if st['k'] == 'assign' and st['dst']['l'] == l and not st['dst']['p'] and not (st['rv']['k'] == 'bin' and st['rv']['op'] == 'BitAnd')]
             + [t for pos, t in cw.iter_calls() if t['dst']['l'] == l and not t['dst']['p']] for l in accs}

    def init_sources(l):
        out = set()
        for st in inits[l]:
            if st['k'] == 'assign' and st['rv']['k'] in ('use', 'cast') and is_local_op(st['rv']['o']):
                out |= _srcl(cw, st['rv']['o'], depth=12)
        return out
    absorbed = {l for l in accs for l2, sites in accs.items() if l2 != l and (any(l in _srcl(cw, o, depth=12) for pos, o in sites) or l in init_sources(l2))}
    ovl = set(accs) - absorbed
    ands = [(pos, o) for l, sites in accs.items() for pos, o in sites]
    masks = set()
    for pos, o in ands:
        masks |= {n for n in source_names(cw, o)}
    need = {'version_mask', 'value_version_mask', 'sub_element_mask'}
    C.check(need <= masks and len(ovl) == 1 and all(l in ovl or l in absorbed for l in accs), 'C17-SIB-mask', 'all-masks-anded', 'the overall mask does not accumulate every consulted mask: missing %s (so the returned mask can contain a version that an item excludes)' % sorted(need - masks),
            sample={'accumulated': sorted(masks), 'count': len(ands), 'accumulators': len(accs)})
    C.floor('C17-SIB-mask.and-sites', len(ands), 4)
    # every accumulator starts at u32::MAX - or at the result of another accumulator that it continues
    def starts_ok(l):
        if not inits[l]:
            return False
        for st in inits[l]:
            if st['k'] != 'assign' or st['rv']['k'] not in ('use', 'cast'):
                return False
            o = st['rv']['o']
            if not is_local_op(o):
                if o.get('i') != '4294967295':
                    return False
            elif not (_srcl(cw, o, depth=12) & (set(accs) - {l})):
                return False
        return True
    C.check(bool(accs) and all(starts_ok(l) for l in accs), 'C17-SIB-mask', 'accumulator-starts-at-all-versions', 'the mask accumulator does not start at u32::MAX')
    # every mask that is judged (compatible(mask)) or accumulated comes from the specification: a constant stands for "exists in every version",
    # which the tables do not promise for any item (SHORT-NAME of some element types is younger than the type)
    consts = []
    judged = [(q, cw.blocks[q[0]]['term']['args'][1]) for q in calls(cw, r'AutosarVersion>?::compatible$') if len(cw.blocks[q[0]]['term']['args']) > 1] + [(q, o) for q, o in ands if o is not None]
    from flow import defs_of as _defs

    def const_origins(o, seen, depth=10):
        """constants a mask operand can come from; the start value of an accumulator (a local that is also assigned `local & x`) is not one"""
        if not is_local_op(o):
            return [o.get('i') or str(o.get('v', o))]
        l = o['l']
        if o['p'] or l in seen or depth == 0:
            return []
        seen.add(l)
        ds = _defs(cw, l)
        accumulates = any(st['k'] == 'assign' and st['rv']['k'] == 'bin' and st['rv']['op'] == 'BitAnd' and any(is_local_op(x) and x['l'] == l and not x['p'] for x in (st['rv']['a'], st['rv']['b'])) for _, st in ds)
        out = []
        for _, st in ds:
            if st['k'] == 'assign' and st['rv']['k'] in ('use', 'cast'):
                if not is_local_op(st['rv']['o']):
                    if not accumulates:
                        out.append(st['rv']['o'].get('i') or str(st['rv']['o'].get('v', st['rv']['o'])))
                else:
                    out += const_origins(st['rv']['o'], seen, depth - 1)
            elif st['k'] == 'assign' and st['rv']['k'] == 'bin' and st['rv']['op'] == 'BitAnd':
                for x in (st['rv']['a'], st['rv']['b']):
                    if is_local_op(x):
                        out += const_origins(x, seen, depth - 1)
        return out
    for q, o in judged:
        for c_ in const_origins(o, set()):
            consts.append((q, c_))
    C.check(not consts, 'C17-SIB-mask', 'walk|every-mask-comes-from-the-specification', 'the compatibility walk judges or accumulates a CONSTANT version mask (%s) instead of the mask the specification gives for the item: an item that the target version does not have is reported compatible, set_version succeeds and the file no longer loads strictly' % ', '.join(sorted({c for _, c in consts})),
            cw.where(consts[0][0]) if consts else '', sample={'fn': 'check_version_compatibility', 'masks_judged_or_accumulated': len(judged), 'constant_masks': len(consts)})
    C.floor('C17-SIB-mask.judged-masks', len(judged), 6)
    # every attribute is judged: an attribute that the target-version type does not know at all is reported too
    fa = [p_ for p_ in calls(cw, r'ElementType::find_attribute_spec$') if any(p_[0] in body for h, body in cw.natural_loops())]
    oku = False
    from flow import switch_edges_on_call_result
    for p_ in fa:
        sw = switch_edges_on_call_result(cw, p_)
        if not sw:
            continue
        none_t = sw[1].get('0', sw[2])
        loops_ = [(h, body) for h, body in cw.natural_loops() if p_[0] in body]
        h, body = min(loops_, key=lambda x: len(x[1]))
        back = [(bi, cw.nstmts(bi)) for bi in body if h in cw.succs(bi)]
        pushes = [q for q, t in cw.iter_calls() if call_matches(t, r'Vec::<T, A>::push$') and q[0] in body]
        if back and pushes and must_pass(cw, (none_t, 0), back, through=set(pushes)):
            oku = True
    C.check(oku, 'C17-SIB-columns', 'walk|unknown-attribute-is-reported', 'an attribute that the element type of the target version does not know at all (find_attribute_spec returns None) is skipped by the compatibility walk: set_version succeeds and the strict parser then rejects the file with an unknown-attribute error',
            '%s:%d' % (cw.file, cw.line), sample={'fn': 'check_version_compatibility', 'none_edge': 'push(IncompatibleAttribute)'})
    # every sub element that is allowed in the target version is descended into (its attributes, its value and its children are judged
    # by the recursive call and nowhere else)
    cps = [p_ for p_ in calls(cw, r'AutosarVersion>?::compatible$') if rec and any(p_[0] in body and rec[0][0] in body for h, body in cw.natural_loops())]
    okd = False
    from pairing import guarded_by_true
    for p_ in cps:
        sw = switch_edges_on_call_result(cw, p_)
        if not sw or set(sw[1].keys()) != {'0'}:
            continue
        true_t = sw[2]
        loops_ = [(h, body) for h, body in cw.natural_loops() if p_[0] in body and rec[0][0] in body]
        if not loops_:
            continue
        h, body = min(loops_, key=lambda x: len(x[1]))
        back = [(bi, cw.nstmts(bi)) for bi in body if h in cw.succs(bi)]
        if rec[0][0] in {q[0] for q in cw.reach_from((true_t, 0), include_start=True)} and must_pass(cw, (true_t, 0), back, through={rec[0][0:2] if False else rec[0]}):
            okd = True
    C.check(okd, 'C17-SIB-columns', 'walk|every-compatible-sub-element-is-descended-into', 'a sub element that exists in the target version can be passed over without the recursive compatibility check (a shortcut for "plain" elements): its enum value / attributes are never compared with the target version',
            cw.where(rec[0]) if rec else '', sample={'fn': 'check_version_compatibility', 'compatible_edge': 'sub_element.check_version_compatibility(file, target_version)'})
    # the target-version definition of a sub element is taken as the specification gives it (not filtered by the element's current type:
    # about 280 sub elements have a second definition with a disjoint version range)
    flt = [p_ for p_ in calls(cw, r'Option::<T>::(filter|and_then|take_if)$') if any(c.endswith('ElementType::find_sub_element') for c in deep_sources(cw, cw.blocks[p_[0]]['term']['args'][0], depth=8)[1])]
    C.check(not flt, 'C17-SIB-columns', 'walk|target-definition-not-filtered', 'the definition found for the target version is filtered before it is used (e.g. by the element\'s current type): elements whose definition changes between versions are reported as incompatible although the relabelled file loads',
            cw.where(flt[0]) if flt else '')
    # character content is judged by the specification the element has in the TARGET version (the type re-selected for it), like the
    # attributes: chardata_spec() is asked of that type, not of the element's current type
    cds = calls(cw, r'ElementType::chardata_spec$')
    okc = bool(cds)
    for q in cds:
        n_, c_, f_ = deep_sources(cw, cw.blocks[q[0]]['term']['args'][0], depth=12)
        if not any(c.endswith('recalc_element_type') for c in c_) or 'ElementRaw.elemtype' in f_:
            okc = False
    C.check(okc, 'C17-SIB-columns', 'walk|character-data-spec-of-the-target-type', 'the compatibility walk takes the character data specification from the element\'s CURRENT type instead of the type it has in the target version: '
            'a value that the target version restricts (string -> pattern, enum with other items) is reported compatible, set_version succeeds and the file no longer loads strictly', cw.where(cds[0]) if cds else '',
            sample={'fn': 'check_version_compatibility', 'chardata_spec_of': 'recalc_element_type(target_version)'})
    # the version a file is written with is the version stored in the file: serialize() rewrites the schema location of the root
    # from ArxmlFileRaw.version on EVERY path before the text is produced (set_version() itself only stores the version)
    C.rule('C17-MUST-header', 'ArxmlFile::serialize calls AutosarModelRaw::set_version(self.version) on every path before Element::serialize_internal: after a successful set_version() the serialized header always names the new version (no conditional / try-lock around the update)')
    header_rule(C, P, 'C17-MUST-header')
    # the header written after a version change names a schema file that the loader maps back to the same version: filename() and
    # from_str() are inverse on all versions (the table rule of C18, as a clause of "the file loads as that version afterwards")
    C.rule('C17-DATA-version', 'AutosarVersion::filename is injective and from_str(filename(v)) = v for every version (shared with C18-DATA-version)')
    import json as _json, os as _os
    from c18 import version_rules as _vr

    class _Proxy:
        def __init__(self, c):
            self._c = c
        def __getattr__(self, k):
            f = getattr(self._c, k)
            if k in ('check', 'fail', 'ok', 'anchor_missing'):
                def g(*a, **kw):
                    a = list(a)
                    for i, x in enumerate(a):
                        if isinstance(x, str) and x == 'C18-DATA-version':
                            a[i] = 'C17-DATA-version'
                    return f(*a, **kw)
                return g
            if k == 'floor':
                return lambda name, n, fl: f(name.replace('C18-', 'C17-'), n, fl)
            return f
    _vr(_Proxy(C), _json.load(open(_os.path.join(ctx['facts'], 'syn.json')))['files'])
    return C.finish('Sibling agreement between the validator and the compatibility walk on the version columns (which accessors each calls on every acceptance path), '
                    'the gate on ArxmlFileRaw.version, and the accumulation of the returned mask. Does not decide the iff between "no incompatibility" and strict validation for all documents x 21^2 version pairs.')


def attr_value_checked(cw):
    for pos, t in cw.iter_calls():
        if call_matches(t, r'CharacterData>::check_version_compatibility$'):
            n_, c_, f_ = deep_sources(cw, t['args'][0])
            if 'Attribute.content' in f_:
                return True
    return False


def content_value_checked(cw):
    """the walk runs CharacterData::check_version_compatibility on character content items of the element (not only on attributes)"""
    for pos, t in cw.iter_calls():
        if call_matches(t, r'CharacterData>::check_version_compatibility$'):
            n_, c_, f_ = deep_sources(cw, t['args'][0], depth=20)
            if 'Attribute.content' not in f_ and ('ElementRaw.content' in f_ or any(c.endswith('character_data') or 'ElementContent' in c for c in c_) or 'ElementContent.0' in f_):
                return True
    return False

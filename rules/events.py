"""events.py - recognise the recurring MIR-level events (DESIGN.md §3): edits of the content list, the parent
link, the two model indexes, character data of SHORT-NAME / reference elements; exits of Result functions."""
import re
from ir import callee_of, callee_generic, has_field, ends_in_field
from flow import origins, is_local_op, call_matches, iter_uses, forward_taint

SV_INSERT = r'smallvec::SmallVec::<A>::(insert|push|insert_many|extend|append|insert_from_slice)$|iter::Extend::extend$|Extend<.*>>::extend$'
SV_REMOVE = r'smallvec::SmallVec::<A>::(remove|clear|swap_remove|drain|truncate|pop|retain|retain_mut|dedup.*)$'
MAP_MUT = r'::(insert|insert_full|swap_remove|shift_remove|remove|remove_entry|clear|retain|drain|entry|extend|append|get_mut|push|pop|truncate|reserve|sort.*)$'


def recv_place(b, t):
    """place the receiver (arg0) of a method call refers to: follows `&mut place` / deref_mut(guard)."""
    if not t['args']:
        return None
    a = t['args'][0]
    for org in origins(b, a):
        if org[0] in ('param', 'const'):
            continue
        if org[0] == 'place':
            return org[1]
        st = org[1]
        if st.get('k') == 'assign' and st['rv']['k'] in ('ref', 'rawptr'):
            return st['rv']['pl']
        if st.get('k') == 'call' and call_matches(st, r'Deref(Mut)?>::deref(_mut)?$') and st['args']:
            # e.g. SmallVec deref to slice: receiver is the derefed thing
            return recv_place(b, st)
    return None


def item_kind(b, o):
    """for an operand that should be an ElementContent value: ('Element'|'CharacterData', inner operand) or (None, None)"""
    for org in origins(b, o):
        if org[0] in ('param', 'const', 'place'):
            continue
        st = org[1]
        if st.get('k') == 'assign' and st['rv']['k'] == 'agg' and st['rv'].get('adt') == 'ElementContent':
            return st['rv']['var'], st['rv']['ops'][0]
    return None, None


def extend_item_kind(b, o):
    """content.extend(iter.map(|x| ElementContent::Element(..))): the variant built by the mapping closure, or None"""
    P = getattr(b, 'program', None)
    if P is None:
        return None
    for org in origins(b, o):
        if org[0] in ('param', 'const', 'place'):
            continue
        st = org[1]
        if st.get('k') == 'call' and call_matches(st, r'Iterator>?::map$') and len(st['args']) >= 2:
            for o2 in origins(b, st['args'][1]):
                if o2[0] not in ('param', 'const', 'place') and o2[1].get('k') == 'assign' and o2[1]['rv']['k'] == 'agg' and o2[1]['rv'].get('ak') == 'closure':
                    cb = P.bodies.get(o2[1]['rv'].get('fn'))
                    if cb is not None:
                        vs = {s_['rv']['var'] for q_, s_ in cb.iter_stmts() if s_['k'] == 'assign' and s_['rv']['k'] == 'agg' and s_['rv'].get('adt') == 'ElementContent'}
                        if len(vs) == 1:
                            return vs.pop()
    return None


def content_ops(b):
    """all mutations of an ElementRaw.content list in body b."""
    out = []
    for pos, t in b.iter_calls():
        if call_matches(t, SV_INSERT) or call_matches(t, SV_REMOVE):
            rp = recv_place(b, t)
            if rp is None or not has_field(rp, 'ElementRaw.content'):
                continue
            name = (callee_generic(t) or '').rsplit('::', 1)[-1]
            kind = 'insert' if call_matches(t, SV_INSERT) else 'remove'
            ik, inner = (None, None)
            if kind == 'insert' and len(t['args']) >= 2:
                ik, inner = item_kind(b, t['args'][-1])
                if ik is None and name == 'extend':
                    ik = extend_item_kind(b, t['args'][-1])
            out.append({'pos': pos, 'op': name, 'kind': kind, 'recv': rp, 'item': ik, 'inner': inner, 'term': t})
    for pos, s in b.iter_stmts():
        if s['k'] == 'assign' and has_field(s['dst'], 'ElementRaw.content') and any(p.startswith('[') for p in s['dst']['p']):
            ik, inner = item_kind(b, s['rv'].get('o')) if s['rv']['k'] == 'use' else (None, None)
            if s['rv']['k'] == 'agg' and s['rv'].get('adt') == 'ElementContent':
                ik, inner = s['rv']['var'], s['rv']['ops'][0]
            out.append({'pos': pos, 'op': 'index-assign', 'kind': 'replace', 'recv': s['dst'], 'item': ik, 'inner': inner, 'term': s})
        # IndexMut::index_mut based writes:  *index_mut(&mut content, i) = value
    for pos, t in b.iter_calls():
        if call_matches(t, r'IndexMut<.*>>::index_mut$|IndexMut.*::index_mut$'):
            rp = recv_place(b, t)
            if rp is not None and has_field(rp, 'ElementRaw.content'):
                # find the store through the returned reference
                dl = t['dst']['l']
                for p2, s2 in b.iter_stmts():
                    if s2['k'] == 'assign' and s2['dst']['l'] == dl and s2['dst']['p'] == ['*']:
                        ik, inner = (None, None)
                        if s2['rv']['k'] == 'agg' and s2['rv'].get('adt') == 'ElementContent':
                            ik, inner = s2['rv']['var'], s2['rv']['ops'][0]
                        elif s2['rv']['k'] == 'use':
                            ik, inner = item_kind(b, s2['rv']['o'])
                        out.append({'pos': p2, 'op': 'index-assign', 'kind': 'replace', 'recv': rp, 'item': ik, 'inner': inner, 'term': s2})
    out.sort(key=lambda e: e['pos'])
    return out


def eom_kind(b, o):
    """variant of the ElementOrModel value an operand holds: 'Element' | 'Model' | 'None' | '?'"""
    ks = set()
    for org in origins(b, o):
        if org[0] == 'param':
            ks.add('param')
        elif org[0] in ('const', 'place'):
            ks.add('?')
        else:
            st = org[1]
            if st.get('k') == 'assign' and st['rv']['k'] == 'agg' and st['rv'].get('adt') == 'ElementOrModel':
                ks.add(st['rv']['var'])
            elif st.get('k') == 'call' and call_matches(st, r'ElementOrModel as .*Clone>::clone$'):
                ks.add('clone')
            else:
                ks.add('?')
    if len(ks) == 1:
        return next(iter(ks))
    return '|'.join(sorted(ks)) if ks else '?'


def parent_sets(b):
    out = []
    for pos, s in b.iter_stmts():
        if s['k'] != 'assign':
            continue
        if ends_in_field(s['dst'], 'ElementRaw.parent'):
            v = '?'
            if s['rv']['k'] == 'agg' and s['rv'].get('adt') == 'ElementOrModel':
                v = s['rv']['var']
            elif s['rv']['k'] == 'use':
                v = eom_kind(b, s['rv']['o'])
            out.append({'pos': pos, 'how': 'field-assign', 'value': v})
        if s['rv']['k'] == 'agg' and s['rv'].get('adt') == 'ElementRaw':
            i = s['rv']['fields'].index('parent')
            out.append({'pos': pos, 'how': 'literal', 'value': eom_kind(b, s['rv']['ops'][i])})
    for pos, t in b.iter_calls():
        if call_matches(t, r'(Element|ElementRaw)>::set_parent$|impl (Element|ElementRaw)>::set_parent$|::set_parent$') and 'set_parent' in (callee_of(t) or ''):
            out.append({'pos': pos, 'how': 'set_parent', 'value': eom_kind(b, t['args'][1]) if len(t['args']) > 1 else '?'})
    out.sort(key=lambda e: e['pos'])
    return out


IDENT_WRAPPERS = {'add_identifiable': 'add', 'fix_identifiables': 'fix', 'remove_identifiable': 'remove'}
REFORIG_WRAPPERS = {'add_reference_origin': 'add', 'fix_reference_origins': 'fix', 'remove_reference_origin': 'remove'}


def map_ops(b, field, wrappers):
    """operations on AutosarModelRaw.<field> in b: wrapper calls and direct map method calls."""
    out = []
    for pos, t in b.iter_calls():
        c = callee_of(t) or ''
        nm = c.rsplit('::', 1)[-1]
        if nm in wrappers and 'AutosarModel' in c:
            out.append({'pos': pos, 'op': wrappers[nm], 'how': 'wrapper:' + nm, 'term': t})
            continue
        if re.search(MAP_MUT, callee_generic(t) or '') or re.search(r'::(get|contains_key|keys|iter|values|len|is_empty|get_index_of|get_full)$', callee_generic(t) or ''):
            rp = recv_place(b, t)
            if rp is not None and has_field(rp, 'AutosarModelRaw.' + field):
                out.append({'pos': pos, 'op': nm, 'how': 'direct', 'term': t})
    out.sort(key=lambda e: e['pos'])
    return out


def ident_ops(b):
    return map_ops(b, 'identifiables', IDENT_WRAPPERS)


def reforig_ops(b):
    return map_ops(b, 'reference_origins', REFORIG_WRAPPERS)


def is_mutating(op):
    return op['op'] in ('add', 'fix', 'remove', 'insert', 'insert_full', 'swap_remove', 'shift_remove', 'remove_entry', 'clear', 'retain', 'drain', 'entry', 'extend', 'append', 'get_mut')


# ---------------------------------------------------------------------------- exits
def result_exits(b):
    """classify the exits of a function: list of dicts {pos, kind: 'ok'|'err'|'tail'|'value', src}"""
    out = []
    is_result = b.ret.startswith('std::result::Result<') or b.ret.startswith('core::result::Result<')
    for pos, s in b.iter_stmts():
        if s['k'] == 'assign' and s['dst']['l'] == 0 and not s['dst']['p']:
            rv = s['rv']
            if rv['k'] == 'agg' and rv.get('adt') == 'Result':
                out.append({'pos': pos, 'kind': 'ok' if rv['var'] == 'Ok' else 'err', 'src': 'literal', 'stmt': s})
            elif is_result:
                out.append({'pos': pos, 'kind': 'value', 'src': 'copy', 'stmt': s})
    for pos, t in b.iter_terms():
        if t['k'] == 'call' and t['dst']['l'] == 0 and not t['dst']['p']:
            if call_matches(t, r'FromResidual.*::from_residual$'):
                out.append({'pos': pos, 'kind': 'err', 'src': 'residual', 'term': t})
            elif is_result:
                out.append({'pos': pos, 'kind': 'tail', 'src': callee_of(t), 'term': t})
        if t['k'] == 'tailcall':
            out.append({'pos': pos, 'kind': 'tail', 'src': callee_of(t), 'term': t})
    if not is_result:
        out = [{'pos': pos, 'kind': 'ok', 'src': 'return'} for pos, t in b.iter_terms() if t['k'] == 'return']
    return out


def ok_exit_positions(b):
    """positions that may end the function successfully (Ok literal, tail call, copy of a Result, plain return)"""
    return [e['pos'] for e in result_exits(b) if e['kind'] in ('ok', 'tail', 'value')]


def err_exit_positions(b):
    return [e['pos'] for e in result_exits(b) if e['kind'] == 'err']


def residual_source(b, e):
    """for an err exit through from_residual: the call whose Result was `?`-ed (pos, term) or None.  A `?` inside an inlined
    callee followed by the caller's `?` on the helper's result is traced back to the innermost call."""
    if e.get('src') != 'residual':
        return None
    return _residual_of(b, e['term'], 4)


def _residual_of(b, t, depth):
    for org in origins(b, t['args'][0]):
        if org[0] == 'place' and 'as Break' in org[1]['p']:
            cl = org[1]['l']
            # cl = Try::branch(x)
            for pos, tt in b.iter_calls():
                if tt['dst']['l'] == cl and not tt['dst']['p'] and call_matches(tt, r'Try>::branch$'):
                    cands = [o2 for o2 in origins(b, tt['args'][0]) if o2[0] not in ('param', 'const', 'place') and o2[1].get('k') == 'call']
                    for o2 in cands:
                        if call_matches(o2[1], r'FromResidual.*::from_residual$') and depth > 0:
                            r = _residual_of(b, o2[1], depth - 1)
                            if r is not None:
                                return r
                    for o2 in cands:
                        if not call_matches(o2[1], r'FromResidual.*::from_residual$'):
                            return o2
                    if cands:
                        return cands[0]
    return None


def loops_containing(b, positions):
    """headers (as positions (h,0)) of natural loops whose body contains one of the positions"""
    out = set()
    blocks = {p[0] for p in positions}
    for h, body in b.natural_loops():
        if blocks & body:
            out.add((h, 0))
    return out

"""C16 - concurrent operations are serializable: ONLY the clause "an operation may instead fail with the documented parent-locked
error, in which case it has no effect".
Serializability itself quantifies over interleavings and is not decided (DESIGN.md section 5).  The exception clause is a flow
property of each operation on its own: no path from a mutation of model state to an exit that can carry
AutosarDataError::ParentElementLocked.  The pairs are the subset of C11's (mutation, Err exit) pairs whose exit can be the lock
error; which exits can is computed as a fixpoint over the resolved call graph (functions that build the variant, or propagate the
Result of one that can)."""
import json, os, re
from ir import Program, callee_of, callee_generic
from flow import call_matches, is_local_op
import c11
import events as E
from framework import Check, VERIF


def lock_error_functions(P):
    """body ids of functions that may return Err(ParentElementLocked)"""
    scope = [b for b in P.bodies.values() if b.crate == 'autosar_data']
    can = set()
    for b in scope:
        for x in P.with_closures(b):
            for pos, s in x.iter_stmts():
                if s['k'] == 'assign' and s['rv']['k'] == 'agg' and s['rv'].get('adt') == 'AutosarDataError' and s['rv'].get('var') == 'ParentElementLocked':
                    can.add(b.id)
    cg = P.callgraph()
    changed = True
    while changed:
        changed = False
        for b in scope:
            if b.id in can or 'AutosarDataError>' not in (b.ret or ''):
                continue
            for pos, t in b.iter_calls():
                c = callee_of(t)
                if c in can and 'Result<' in (b.local_ty(t['dst']['l']) or '') and not t['dst']['p']:
                    # the callee's error is propagated: its Result flows into `?` (Try::branch), into the return place, or is returned by a tail call
                    from flow import forward_taint, iter_uses
                    tl = forward_taint(b, {t['dst']['l']}, through_refs=True)
                    prop = t['dst']['l'] == 0
                    for p2, role, pl, st in iter_uses(b):
                        if is_local_op(pl) and pl['l'] in tl:
                            if st.get('k') == 'call' and call_matches(st, r'Try>::branch$'):
                                prop = True
                            if st.get('k') == 'assign' and st['dst']['l'] == 0:
                                prop = True
                    if prop:
                        can.add(b.id); changed = True
                        break
    return can


def c11_callee(t):
    from ir import callee_of
    return callee_of(t)


def is_local(o):
    return isinstance(o, dict) and 'l' in o


def run(ctx):
    C = Check('C16', ctx['tier'], 'other', ctx['seed'])
    P = Program(ctx['facts'])
    C.rule('C16-FLOW-lockfail', 'for every public-reachable operation: no CFG path from a mutation of model state to an exit that can carry AutosarDataError::ParentElementLocked (built there, or propagated from a callee that can return it); '
           'reviewed exceptions are in tables/c16_reviewed.json (the single-thread reasons of C11 do not carry over)')
    C.assumptions = ['serializability of interleavings is NOT decided; only the "fails with the parent-locked error => no effect" clause',
                     'path-insensitive: a reported pair may be infeasible', 'which callee can return the lock error is over-approximated (any function whose callee can and that returns Result<_, AutosarDataError>)']
    # C11's reviewed pairs argue with single-threaded use ("cannot fail after it succeeded once"); under contention a timed lock can
    # fail at any time, so C16 has its own table (tables/c16_reviewed.json) and accepts none of C11's reasons
    rev11 = json.load(open(os.path.join(VERIF, 'tables', 'c11_reviewed.json')))['reviewed']
    reviewed = json.load(open(os.path.join(VERIF, 'tables', 'c16_reviewed.json')))['reviewed']
    requires = {r['key']: r.get('requires', []) for r in reviewed}
    reviewed = {r['key']: r['reason'] for r in reviewed}
    scope, pairs_by_fn, MUT, pub_reach, ret_err = c11.compute_pairs(P, {r['key']: r['reason'] for r in rev11})
    can = lock_error_functions(P)
    can_short = {P.bodies[x].short for x in can}
    C.extra['functions_that_can_return_ParentElementLocked'] = len(can)
    n = 0
    n_all = 0
    for b in scope:
        pairs = pairs_by_fn.get(b.id)
        if not pairs:
            continue
        for k, (mpos, xpos) in sorted(pairs.items()):
            n_all += 1
            xdesc = k.rsplit('|', 1)[-1]
            lockexit = False
            if xdesc == 'Err(ParentElementLocked)':
                lockexit = True
            elif xdesc.startswith('Err(propagated:'):
                nm = xdesc[len('Err(propagated:'):-1]
                lockexit = any(s.endswith('::' + nm) or s == nm for s in can_short)
            elif xdesc.startswith('?'):
                nm = re.sub(r'\(.*\)$', '', xdesc[1:])
                lockexit = nm in can_short or any(s.endswith('::' + nm) for s in can_short)
                if not lockexit:
                    # `lock.try_write_for(..).ok_or(AutosarDataError::ParentElementLocked)?`: the error value is an argument of the adapter
                    ex = {e['pos']: e for e in E.result_exits(b)}.get(xpos)
                    src = E.residual_source(b, ex) if ex is not None else None
                    if src is not None and call_matches(src[1], r'Option::<T>::(ok_or|ok_or_else)$|Result::<T, E>::(map_err|or|or_else)$'):
                        from flow import origins
                        for a_ in src[1]['args'][1:]:
                            for org in origins(b, a_):
                                if org[0] not in ('param', 'const', 'place') and isinstance(org[1], dict) and org[1].get('k') == 'assign' and org[1]['rv']['k'] == 'agg' and org[1]['rv'].get('var') == 'ParentElementLocked':
                                    lockexit = True
                                if org[0] not in ('param', 'const', 'place') and isinstance(org[1], dict) and org[1].get('k') == 'assign' and org[1]['rv']['k'] == 'agg' and org[1]['rv'].get('ak') == 'closure':
                                    cb = P.bodies.get(org[1]['rv'].get('fn'))
                                    if cb is not None and any(s_['k'] == 'assign' and s_['rv']['k'] == 'agg' and s_['rv'].get('var') == 'ParentElementLocked' for q_, s_ in cb.iter_stmts()):
                                        lockexit = True
            if not lockexit:
                continue
            n += 1
            k16 = k
            if k in reviewed:
                lost = []
                for rq in requires.get(k, []):
                    kind, _, rx = rq.partition(':')
                    if kind == 'dom' and not any(call_matches(t, rx) and b.pos_dominates(p, mpos) for p, t in b.iter_calls()):
                        ok = False
                        for p, st in b.iter_stmts():
                            if st['k'] == 'assign' and st['rv']['k'] == 'agg' and st['rv'].get('ak') == 'closure' and b.pos_dominates(p, mpos):
                                cb = P.bodies.get(st['rv']['fn'])
                                if cb is not None and any(call_matches(t, rx) for _, t in cb.iter_calls()):
                                    ok = True
                        if not ok:
                            lost.append(rq)
                if lost:
                    C.fail('C16-FLOW-lockfail', k16 + '|premise-lost', 'the reviewed reason for this pair relies on %s, which no longer dominates the mutation' % lost, b.where(mpos))
                else:
                    C.ok('C16-FLOW-lockfail', k16 + '|reviewed', reviewed[k])
                continue
            C.fail('C16-FLOW-lockfail', k16, 'a path leads from a mutation of model state (%s) to a return that can carry ParentElementLocked (%s): under contention the operation reports the documented lock error AFTER it changed the model, so the failed call is not without effect' % (
                b.where(mpos), b.where(xpos)), b.where(mpos))
    clean = 0
    for b in scope:
        if ret_err(b) and b.id in pub_reach and b.id in MUT and b.id in can:
            pairs = pairs_by_fn.get(b.id) or {}
            if not any(True for k in pairs):
                clean += 1
                C.ok('C16-FLOW-lockfail', '%s|lock-failure-precedes-every-mutation' % b.short, 'every exit that can carry the lock error precedes the first mutation', sample={'fn': b.short, 'status': 'lock errors only before the first mutation'} if clean % 4 == 1 else None)
    # ---- check-then-act under one guard ------------------------------------------------------------
    # get_or_create*: "is there such a sub element?" and "create it" are ONE step for every other thread: the scan of the content list that
    # answers the question happens with the write guard held that the creation uses. (Answered before the lock is taken, two threads both
    # find nothing and both create: two sub elements where any serial order gives one.)
    C.rule('C16-MUST-atomic', 'in get_or_create_sub_element / get_or_create_named_sub_element the write lock acquisition dominates a scan of ElementRaw.content which dominates the creating call; no lookup result obtained before the lock decides')
    from pairing import calls as _calls
    from flow import deep_sources as _ds, iter_uses as _iu, is_local_op as _ilo
    from ir import has_field as _hf
    for fn in ('Element::get_or_create_sub_element', 'Element::get_or_create_named_sub_element'):
        b = P.find(fn)
        if b is None:
            C.anchor_missing('C16-MUST-atomic', fn)
            continue
        lk = _calls(b, r'RwLock::<R, T>::(write|try_write|try_write_for|try_write_until|upgradable_read|try_upgradable_read\w*)$')
        cr = _calls(b, r'ElementRaw>?::create_(named_)?sub_element(_inner)?$')
        scans = [pos for pos, role, pl, st in _iu(b) if _ilo(pl) and _hf(pl, 'ElementRaw.content')]
        scans += _calls(b, r'ElementRaw>?::(get_sub_element|get_named_sub_element|sub_elements)\w*$')
        ok = bool(lk) and bool(cr) and all(any(b.pos_dominates(l_, c_) and any(b.pos_dominates(l_, s_) and b.pos_dominates(s_, c_) for s_ in scans) for l_ in lk) for c_ in cr)
        # a lookup through the public (separately locking) accessor before the lock must not be what returns the existing element while
        # the locked region creates without looking again - covered by the requirement above (a scan under the lock must exist)
        C.check(ok, 'C16-MUST-atomic', '%s|lookup-and-create-under-one-guard' % fn.split('::')[-1], '%s decides "no such sub element" without holding the write lock that it creates under (no scan of the content list between the lock and the creating call): '
                'two threads calling it concurrently both find nothing and both create - two sub elements, which no serial order of the two calls produces' % fn, b.where(cr[0]) if cr else '%s:%d' % (b.file, b.line),
                sample={'fn': fn, 'lock': len(lk), 'scan_under_lock': ok, 'create_calls': len(cr)})
    # create_file: "is there a file of that name?" and "add the file" under one guard of the model
    cf = P.find('AutosarModel::create_file')
    if cf is None:
        C.anchor_missing('C16-MUST-atomic', 'AutosarModel::create_file')
    else:
        from flow import receiver_chain_locals as _sl
        from ir import has_field as _hf2
        import events as _E2
        lockdst = {cf.blocks[q[0]]['term']['dst']['l']: q for q in _calls(cf, r'RwLock::<R, T>::(write|read|try_write\w*|try_read\w*|upgradable_read)$')}
        scans = [q for q in _calls(cf, r'Iterator>?::(any|find|position|all)$|<impl \[T\]>::(contains|iter)$|IntoIterator>?::into_iter$|Deref>?::deref$') if 'AutosarModelRaw.files' in _ds(cf, cf.blocks[q[0]]['term']['args'][0], depth=14)[2]
                 and not any(q == p_ for p_ in [])]
        pushes = [q for q, t in cf.iter_calls() if call_matches(t, r'Vec::<T, A>::(push|insert)$') and (lambda rp: rp is not None and _hf2(rp, 'AutosarModelRaw.files'))(_E2.recv_place(cf, t))]
        def guard_of(q):
            t = cf.blocks[q[0]]['term']
            return set(lockdst) & _sl(cf, t['args'][0])
        oka = bool(scans) and bool(pushes) and all(guard_of(s_) and guard_of(s_) == guard_of(p_) for s_ in scans for p_ in pushes)
        C.check(oka, 'C16-MUST-atomic', 'create_file|name-check-and-insert-under-one-guard', 'create_file checks for an existing file of the same name and adds the new file under two separate acquisitions of the model lock: '
                'two concurrent create_file calls with the same name both succeed and the model holds two files of one name, which no serial order produces', cf.where(pushes[0]) if pushes else '%s:%d' % (cf.file, cf.line),
                sample={'fn': 'create_file', 'scan_guard': sorted(map(str, [guard_of(s_) for s_ in scans])), 'push_guard': sorted(map(str, [guard_of(p_) for p_ in pushes]))})
    # a public operation that changes an element through a `&self` method of ElementRaw holds that element's WRITE lock while it does
    # (the raw methods that edit other elements - referrers, children - rely on the caller for the exclusion of concurrent editors)
    C.rule('C16-MUST-exclusive', 'every call from an `Element::` method to a may-mutate `ElementRaw::` method goes through a guard obtained from a write-family acquisition (write / try_write*), never from read()')
    from flow import receiver_chain_locals as _rcl
    nex = 0
    for b in scope:
        if not b.short.startswith('Element::') or b.kind == 'Closure':
            continue
        lockd = {b.blocks[q[0]]['term']['dst']['l']: b.blocks[q[0]]['term'] for q in _calls(b, r'RwLock::<R, T>::(write|read|try_write\w*|try_read\w*|upgradable_read\w*)$')}
        if not lockd:
            continue
        for pos, t in b.iter_calls():
            cid = c11_callee(t)
            if cid in MUT and P.bodies[cid].short.startswith('ElementRaw::') and t['args'] and is_local(t['args'][0]):
                gs = set(lockd) & _rcl(b, t['args'][0])
                if not gs:
                    continue
                nex += 1
                rd = [g for g in gs if re.search(r'::(read|try_read\w*)$', (lockd[g]['f'].get('fn') or ''))]
                C.check(not rd, 'C16-MUST-exclusive', '%s|%s|through-a-write-guard' % (b.short, P.bodies[cid].short.split('::')[-1]), '%s calls the mutating %s through a READ guard of the element: two threads can run it at the same time and interleave '
                        '(name, index and references end up naming different paths), which no serial order produces' % (b.short, P.bodies[cid].short), b.where(pos),
                        sample={'fn': b.short, 'callee': P.bodies[cid].short, 'guard': 'write'} if nex % 8 == 1 else None)
    # set_reference_target: the reverse index is brought up to date under the SAME element write guard that covers the text store - two
    # concurrent calls on one reference otherwise interleave (text a->b->c, index b->c then a->b) and leave an entry no serial order produces
    from locks import BodyLocks as _BL
    srt = P.find('Element::set_reference_target')
    if srt is None:
        C.anchor_missing('C16-MUST-atomic', 'Element::set_reference_target')
    else:
        L_ = _BL(P, srt)
        idx = [(pos, t) for pos, t in srt.iter_calls() if call_matches(t, r'AutosarModel>::(fix_reference_origins|add_reference_origin)$')]
        bare = [pos for pos, t in idx if not any(a.desc().startswith('Element:W') for a in L_.held_at(pos))]
        C.check(bool(idx) and not bare, 'C16-MUST-atomic', 'set_reference_target|index-update-under-the-element-guard',
                'set_reference_target updates reference_origins while it does not hold the write guard of the reference element (the guard that covers the store of the new text): concurrent calls on the same reference can leave the element under a path its text does not have',
                srt.where(bare[0]) if bare else '%s:%d' % (srt.file, srt.line), sample={'fn': 'Element::set_reference_target', 'index_calls': len(idx), 'guard': 'Element:W held at each'})
    C.floor('C16-MUST-exclusive.sites', nex, 10)
    C.floor('C16-FLOW-lockfail.lock-error-functions', len(can), 20)
    C.extra['pairs_examined'] = n_all
    C.extra['pairs_with_lock_error_exit'] = n
    return C.finish('Flow property on MIR restricted to exits that can carry ParentElementLocked: call-graph fixpoint for "may return the lock error", then the (mutation, exit) pairs of C11 filtered by it. '
                    'Decides only the no-effect-on-lock-failure clause of C16; serializability of interleavings is not decided.')

"""C05 - referrer lists and the invalid-reference report: every edit of a reference element's text and every insertion /
removal of a subtree that may contain references is paired with the matching edit of reference_origins; no list is
silently overwritten; the report and the resolver apply the same tests."""
import re
from ir import Program, callee_of, has_field
from flow import origins, is_local_op, call_matches, must_pass, iter_uses, forward_taint, resolve_place, source_names
import events as E
from pairing import paired, dominated_by, calls
from framework import Check


def ro_positions(b, kinds):
    return [o['pos'] for o in E.reforig_ops(b) if o['op'] in kinds]


def pattern_cuts(b, tys, partners=None):
    """edges of switches on the discriminant of locals of the given types, leading away from the 'matched' arm
    (value-dependent pattern failures that a path-insensitive rule cannot exclude).  The matched arm is the `else` edge's
    complement (`if let PAT = v`); with `partners` given it is decided by shape-independent means instead: every edge of such a
    switch from which no partner is reachable is a pattern failure (`match v { PAT => partner(..), _ => {} }` in any arm order)."""
    cut = set()
    for pos, s in b.iter_stmts():
        if s['k'] == 'assign' and s['rv']['k'] == 'discr' and is_local_op(s['rv']['pl']):
            pl = s['rv']['pl']
            ty = b.local_ty(pl['l'])
            if any(t in ty for t in tys):
                t = b.blocks[pos[0]]['term']
                if t['k'] == 'switch' and is_local_op(t['d']) and t['d']['l'] == s['dst']['l']:
                    if partners:
                        tgts = {x for _, x in t['ts']} | {t['else']}
                        hit = {x for x in tgts if any(p_ in b.reach_from((x, 0), include_start=True) for p_ in partners)}
                        if hit and hit != tgts:
                            for x in tgts - hit:
                                cut.add((pos[0], x))
                            continue
                    cut.add((pos[0], t['else']))
    return cut


def bool_false_cuts(b, rx):
    """false edges of `if <call matching rx>()`"""
    cut = set()
    for pos, t in b.iter_calls():
        if call_matches(t, rx) and t['t'] is not None:
            sw = b.blocks[t['t']]['term']
            if sw['k'] == 'switch':
                d = dict(sw['ts'])
                if '0' in d:
                    cut.add((t['t'], d['0']))
    return cut


def before_all(b, pos, partners, cut=frozenset()):
    through = set(partners) | E.loops_containing(b, partners)
    return bool(partners) and must_pass(b, (0, 0), [pos], through, avoid_edges=cut)


def after_all_ok(b, pos, partners, cut=frozenset()):
    through = set(partners) | E.loops_containing(b, partners)
    exits = E.ok_exit_positions(b)
    return bool(partners) and bool(exits) and must_pass(b, pos, exits, through, avoid_edges=cut, include_start=False)


def dev_map_rules(C, P, RI, RR, lb=None):
    """insert / remove discipline of the referrer map (shared: C05, and C06 whose rename/move rewriting relies on complete lists)"""
    # ---- DEV-insert -------------------------------------------------------------------------------
    n = 0
    for b in sorted(P.bodies.values(), key=lambda x: x.short):
        if b.crate != 'autosar_data':
            continue
        ops = E.reforig_ops(b)
        for o in ops:
            if o['how'] == 'direct' and o['op'] == 'entry':
                # entry(k).or_default() / or_insert_with(..) keep an existing list; Entry::insert / insert_entry replace it
                n += 1
                tl = forward_taint(b, {o['term']['dst']['l']}, through_refs=True)
                repl = [p2 for p2, t2 in b.iter_calls() if call_matches(t2, r'Entry<.*>::(insert|insert_entry)$|Entry::<.*>::(insert|insert_entry)$') and t2['args'] and is_local_op(t2['args'][0]) and t2['args'][0]['l'] in tl]
                C.check(not repl, RI, '%s|reference_origins.entry|replaces' % b.short, 'reference_origins.entry(..).insert(..) replaces the referrer list stored under the key', b.where(repl[0]) if repl else '')
                continue
            if o['how'] != 'direct' or o['op'] != 'insert':
                continue
            n += 1
            t = o['term']
            # (a) the returned Option is consumed, or (b) the insert is on the None edge of a lookup (get_mut) of the same map
            used = False
            taint = forward_taint(b, {t['dst']['l']}, through_refs=True) if not t['dst']['p'] else set()
            for pos2, role, pl, st2 in iter_uses(b):
                if is_local_op(pl) and pl['l'] in taint and role not in ('def', 'calldst', 'drop') and not (role.startswith('use:') and st2['k'] == 'assign' and st2['dst']['l'] in taint):
                    used = True
            guarded = False
            for g in ops:
                if g['op'] == 'get_mut' and b.pos_dominates(g['pos'], o['pos']):
                    gt = g['term']
                    # switch on discriminant of the result: insert must be unreachable from the Some edge
                    tt = forward_taint(b, {gt['dst']['l']}, through_refs=False)
                    for pos3, s3 in b.iter_stmts():
                        if s3['k'] == 'assign' and s3['rv']['k'] == 'discr' and s3['rv']['pl']['l'] in tt:
                            sw = b.blocks[pos3[0]]['term']
                            if sw['k'] == 'switch':
                                d = dict(sw['ts'])
                                some_t = d.get('1')
                                if some_t is not None and o['pos'] not in b.reach_from((some_t, 0), include_start=True, avoid=E.loops_containing(b, [g['pos']])):
                                    guarded = True
            C.check(used or guarded, RI, '%s|reference_origins.insert|unguarded' % b.short,
                    'reference_origins.insert() under a key that may already hold a referrer list: the existing list (e.g. dangling references that already name the new path) is silently dropped', b.where(o['pos']),
                    sample={'fn': b.short, 'idiom': 'insert only on the failed-lookup edge, or merge with the previous list'})
    C.floor(RI, n, 3)

    # ---- DEV-remove / bulk overwrite -----------------------------------------------------------------
    (C.rule if RR.startswith('C05') else (lambda *a_, **k_: None))(RR, 'a referrer list leaves reference_origins only (a) to be stored again under another key (the Option returned by remove() is consumed), or (b) when it was found empty (the remove is behind a test of its length), or (c) with the whole model (clear in remove_file); '
           'HashMap::extend / append / retain / drain on the map are not used (extend silently replaces the list of every key that already exists)')
    nrem = 0
    for b in sorted(P.bodies.values(), key=lambda x: x.short):
        if b.crate != 'autosar_data':
            continue
        for o in E.reforig_ops(b):
            if o['how'] != 'direct':
                continue
            if o['op'] in ('extend', 'append', 'retain', 'drain', 'retain_mut'):
                C.fail(RR, '%s|reference_origins.%s' % (b.short, o['op']), 'reference_origins.%s() in %s: a bulk operation on the referrer map replaces / drops the lists of keys that already exist (references loaded earlier are in no list afterwards)' % (o['op'], b.short), b.where(o['pos']))
                continue
            if o['op'] == 'clear':
                C.check(b.short == 'AutosarModel::remove_file', RR, '%s|reference_origins.clear' % b.short, 'the referrer map is cleared in %s' % b.short, b.where(o['pos']))
                continue
            if o['op'] not in ('remove', 'remove_entry', 'swap_remove', 'shift_remove'):
                continue
            nrem += 1
            t = o['term']
            used = False
            taint = forward_taint(b, {t['dst']['l']}, through_refs=True) if not t['dst']['p'] else set()
            for pos2, s2 in b.iter_stmts():
                if s2['k'] == 'assign' and s2['rv']['k'] == 'discr' and s2['rv']['pl']['l'] in taint:
                    used = True     # `if let Some(list) = map.remove(..)`
            for pos2, role, pl, st2 in iter_uses(b):
                if is_local_op(pl) and pl['l'] in taint and role.startswith('arg'):
                    used = True
            # (b) behind an emptiness test of the list: a dominating comparison with 0 / is_empty whose operand derives from the list under this map
            empt = False
            for pos2, s2 in b.iter_stmts():
                if s2['k'] == 'assign' and s2['rv']['k'] == 'bin' and s2['rv']['op'] in ('Eq', 'Ne') and b.pos_dominates(pos2, o['pos']):
                    from flow import const_val
                    if any(str(const_val(x)).startswith('0') for x in (s2['rv']['a'], s2['rv']['b'])):
                        empt = True
            for q in calls(b, r'Vec::<T, A>::is_empty$|::is_empty$'):
                if b.pos_dominates(q, o['pos']):
                    empt = True
            # a flag that was set from is_empty()/len() and is tested right before the remove
            from c07 import all_sources
            from pairing import iteration_start
            for q, tt in b.iter_terms():
                if tt['k'] == 'switch' and is_local_op(tt['d']) and set(dict(tt['ts']).keys()) == {'0'}:
                    nm_, cs_, _k = all_sources(b, tt['d'], depth=8)
                    # the flag may be the result of `list_opt.is_some_and(|list| { ..; list.is_empty() })`: what the closure returns counts
                    from flow import deep_sources as _dsq
                    cs_ = set(cs_) | set(_dsq(b, tt['d'], depth=10)[1])
                    if any((c or '').endswith('::is_empty') or (c or '').endswith('::len') for c in cs_):
                        if must_pass(b, iteration_start(b, o['pos']), [o['pos']], through=(), avoid_edges={(q[0], tt['else'])}):
                            empt = True
            C.check(used or empt, RR, '%s|reference_origins.remove|list-discarded' % b.short, 'reference_origins.remove() in %s throws a referrer list away that may still hold references (its result is not stored again and it was not found empty): '
                    'the references are still in the model but in no list, get_references_to() and check_references() miss them' % b.short, b.where(o['pos']), sample={'fn': b.short, 'remove_result_consumed': used, 'behind_emptiness_test': empt})
    C.floor(RR + '.removes', nrem, 4)



def run(ctx):
    C = Check('C05', ctx['tier'], 'other', ctx['seed'])
    P = Program(ctx['facts'])
    C.rule('C05-PAIR-origins', 'every write of character data into a reference element and every insertion/removal of a subtree is paired with add_/fix_/remove_reference_origin (or a direct re-key) for the same function; the index edit and the text write are not separated by an error exit')
    C.rule('C05-DEV-insert', 'HashMap::insert on reference_origins discards a list already stored under the key: every insert is on the failed-lookup edge of get_mut/remove of the same map, or its returned Option is consumed')
    C.rule('C05-SIB-report', 'check_references and get_reference_target both resolve through the path index, read DEST as an enum value, call verify_reference_dest on the TARGET\'s type, and treat missing target / missing DEST / failed verification as invalid')

    refcut = None
    # ---- text writes ----------------------------------------------------------------------------
    es = P.get('Element::set_character_data_internal')
    wr = [o['pos'] for o in E.content_ops(es) if o['op'] == 'push' and o['item'] == 'CharacterData']
    cut = bool_false_cuts(es, r'ElementType::is_ref$') | pattern_cuts(es, ['Option<CharacterData>', 'Option<std::string::String>'])
    ok = len(wr) == 1 and after_all_ok(es, wr[0], ro_positions(es, {'fix', 'add'}), cut)
    C.check(ok, 'C05-PAIR-origins', 'Element::set_character_data_internal|ref-text-write|needs:fix/add',
            'the text of a reference element is replaced without moving its entry in reference_origins', es.where(wr[0]) if wr else '',
            sample={'fn': 'Element::set_character_data_internal', 'event': 'character data write (is_ref)', 'partner': 'fix_reference_origins / add_reference_origin'})
    # the old key handed to fix_reference_origins was read BEFORE the write (otherwise fix would move new -> new)
    okold = False
    from flow import defs_of, source_locals
    for pos, t in es.iter_calls():
        if (callee_of(t) or '').endswith('fix_reference_origins') and wr and len(t['args']) > 1:
            # every call result the old key derives from (character_data(), to_string(), as_deref() ...) was computed before the write
            dpos = []
            for l in source_locals(es, t['args'][1], depth=14):
                for q, d in defs_of(es, l):
                    if d.get('k') == 'call' and not call_matches(d, r'Option::<T>::(as_deref|as_ref|as_mut|cloned|map|unwrap_or_default|unwrap_or)$|Deref>::deref$|::as_str$'):
                        dpos.append(q)
            # the Option/String adaptors applied at the call site itself are not reads of the element: look through them
            for l in source_locals(es, t['args'][1], depth=14):
                for q, d in defs_of(es, l):
                    if d.get('k') == 'call' and call_matches(d, r'Option::<T>::(as_deref|as_ref|cloned|map)$|Deref>::deref$|::as_str$') and d['args']:
                        for l2 in source_locals(es, d['args'][0], depth=14):
                            for q2, d2 in defs_of(es, l2):
                                if d2.get('k') == 'call' and not call_matches(d2, r'Option::<T>::(as_deref|as_ref|cloned|map)$|Deref>::deref$|::as_str$'):
                                    dpos.append(q2)
            if dpos and all(wr[0] in es.reach_from(q) and q not in es.reach_from(wr[0]) for q in dpos):
                okold = True
    C.check(okold, 'C05-PAIR-origins', 'Element::set_character_data_internal|old-ref-read-before-write', 'the old reference text handed to fix_reference_origins is not captured before the write')

    st = P.get('Element::set_reference_target')
    w = calls(st, r'ElementRaw>::set_character_data')
    ro = ro_positions(st, {'fix', 'add'})
    ok = len(w) == 1 and before_all(st, w[0], ro)
    C.check(ok, 'C05-PAIR-origins', 'Element::set_reference_target|ref-text-write|needs:fix/add', 'set_reference_target writes the new target path without updating reference_origins', st.where(w[0]) if w else '')
    # no exit (Ok or Err) between the index edit and the text write
    allexits = [e['pos'] for e in E.result_exits(st)]
    for r in ro:
        ok = bool(w) and must_pass(st, r, allexits, set(w), include_start=False)
        C.check(ok, 'C05-PAIR-origins', 'Element::set_reference_target|index-edit-then-write-without-exit',
                'set_reference_target can return (e.g. with a validation error) after it moved the reference_origins entry but before the text was written: the referrer list then names a path the reference does not have', st.where(r),
                sample={'fn': 'Element::set_reference_target', 'obligation': 'every exit after the reference_origins edit passes the text write'})

    rc = P.get('Element::remove_character_data')
    clr = [o['pos'] for o in E.content_ops(rc) if o['op'] == 'clear']
    cut = bool_false_cuts(rc, r'impl Element>::is_reference$') | pattern_cuts(rc, ['Option<CharacterData>', 'CharacterData'], ro_positions(rc, {'remove'}))
    ok = len(clr) == 1 and before_all(rc, clr[0], ro_positions(rc, {'remove'}), cut)
    C.check(ok, 'C05-PAIR-origins', 'Element::remove_character_data|ref-text-clear|needs:remove', 'a reference\'s text is cleared without removing it from reference_origins', rc.where(clr[0]) if clr else '')

    for fn in ('ElementRaw::set_item_name', 'ElementRaw::move_element_local'):
        b = P.get(fn)
        if fn.endswith('set_item_name'):
            w = [o['pos'] for o in E.content_ops(b) if o['op'] == 'index-assign']
        else:
            w = calls(b, r'ElementRaw>::set_character_data')
        rem = ro_positions(b, {'remove'})
        ins = ro_positions(b, {'insert', 'entry'})
        ok = len(w) == 1 and bool(dominated_by(b, w[0], rem)) and after_all_ok(b, w[0], ins)
        C.check(ok, 'C05-PAIR-origins', '%s|referrer-rewrite|needs:remove-before+insert-after' % fn,
                'referrers are rewritten without re-keying their list in reference_origins (remove old key before, insert new key after)', b.where(w[0]) if w else '',
                sample={'fn': fn, 'event': 'rewrite of referrer text', 'partner': 'reference_origins.remove(old) ... insert(new)'})
    # the list taken out under the old key is MERGED into whatever the new key already holds (references that were dangling under the new
    # path until now): re-filing it with or_insert / insert alone drops one of the two lists
    sn = P.get('ElementRaw::set_item_name')
    snb = [sn] + list(P.closures_of(sn))
    rem_sn = ro_positions(sn, {'remove'})
    merge = [(x, pos) for x in snb for pos, t in x.iter_calls()
             if call_matches(t, r'Extend<[^>]*>>?::extend$|Vec<[^>]*>::(append|push|extend_from_slice)$|add_reference_origin$')]
    C.check(bool(rem_sn) and bool(merge), 'C05-PAIR-origins', 'ElementRaw::set_item_name|moved-referrers-are-merged-into-the-new-key',
            'set_item_name takes the referrer list out under the old path but nothing appends it to the list of the new path (no extend / append / push / add_reference_origin): when a reference already carries the new path, one of the two lists is dropped and those references are in no referrer list',
            sn.where(rem_sn[0]) if rem_sn else '%s:%d' % (sn.file, sn.line),
            sample={'fn': 'ElementRaw::set_item_name', 'obligation': 'after reference_origins.remove(old) an appending call files the list under the new key', 'appending_calls': len(merge)})
    mf = P.get('ElementRaw::move_element_full')
    w = calls(mf, r'ElementRaw>::set_character_data')
    ok = len(w) == 1 and after_all_ok(mf, w[0], ro_positions(mf, {'add'}))
    C.check(ok, 'C05-PAIR-origins', 'ElementRaw::move_element_full|ref-text-write|needs:add', 'a reference inside a moved subtree is rewritten without being registered in the destination model', mf.where(w[0]) if w else '')
    # the key registered is the rewritten text, not the old one
    for pos, t in mf.iter_calls():
        if (callee_of(t) or '').endswith('add_reference_origin') and w:
            wt = mf.blocks[w[0][0]]['term']
            kn = source_names(mf, t['args'][1])
            wn = source_names(mf, wt['args'][1])
            from flow import same_value_locals as _svl
            shared = _svl(mf, t['args'][1]) & _svl(mf, wt['args'][1])
            C.check(bool(kn & wn) or bool(shared), 'C05-PAIR-origins', 'ElementRaw::move_element_full|registered-key-is-rewritten-text',
                    'the referrer is registered in the destination under a different string (%s) than the text written into the reference (%s)' % (sorted(kn), sorted(wn)), mf.where(pos),
                    sample={'fn': 'move_element_full', 'obligation': 'add_reference_origin(key) and set_character_data(text) derive from the same variable', 'variable': sorted(kn & wn)})

    # the source model forgets the reference under the text it HAD: the key handed to remove_reference_origin is never a rewritten string
    from c07 import all_sources
    for fn_ in ('ElementRaw::move_element_full', 'ElementRaw::move_element_local'):
        bb = P.get(fn_)
        for pos, t in bb.iter_calls():
            if (callee_of(t) or '').endswith('remove_reference_origin'):
                nm, cs, _k = all_sources(bb, t['args'][1], depth=16)
                C.check(not any(c.endswith('fmt::format') or c.endswith('::format') for c in cs), 'C05-PAIR-origins', '%s|deregistered-key-is-the-old-text' % fn_,
                        '%s removes a referrer under a rewritten (new) reference text: the source model looks under a key it never had and keeps the entry of an element that has left it' % fn_, bb.where(pos),
                        sample={'fn': fn_, 'key': 'text of the reference before the move'})
    # ---- subtree insert / remove -----------------------------------------------------------------
    cc = P.get('ElementRaw::create_copied_sub_element_inner')
    ins = [o['pos'] for o in E.content_ops(cc) if o['kind'] == 'insert' and o['item'] == 'Element']
    C.check(len(ins) == 1 and before_all(cc, ins[0], ro_positions(cc, {'add'})), 'C05-PAIR-origins', 'create_copied_sub_element_inner|insert|needs:add', 'copied references are not registered in reference_origins')
    ins = [o['pos'] for o in E.content_ops(mf) if o['kind'] == 'insert' and o['item'] == 'Element']
    rem = [o['pos'] for o in E.content_ops(mf) if o['op'] == 'remove']
    C.check(len(ins) == 1 and before_all(mf, ins[0], ro_positions(mf, {'add'})), 'C05-PAIR-origins', 'move_element_full|insert|needs:add', 'moved references are not registered in the destination model')
    C.check(len(rem) == 1 and after_all_ok(mf, rem[0], ro_positions(mf, {'remove'})), 'C05-PAIR-origins', 'move_element_full|remove|needs:remove', 'moved references stay registered in the source model')
    # every reference collected from a subtree is (de)registered: inside the loop that registers / deregisters referrers no
    # iteration can come back to the loop head without passing the index call, except over the "not a reference" /
    # "no reference text" edges of that same element (a data-dependent filter such as `if paths.contains_key(..)` drops referrers)
    def loop_covers(b, op_positions, label):
        from flow import switch_edges_on_call_result, must_pass
        for p in op_positions:
            loops = [(h, body) for h, body in b.natural_loops() if p[0] in body]
            if not loops:
                continue
            h, body = min(loops, key=lambda x: len(x[1]))
            allowed = set()
            for q in calls(b, r'(impl Element|ElementRaw)>::is_reference$|ElementType::is_ref$'):
                if q[0] in body:
                    sw = switch_edges_on_call_result(b, q)
                    if sw:
                        allowed.add((sw[0], sw[1].get('0', sw[2])))
            for q, tt in b.iter_terms():
                # `if let Some(CharacterData::String(x)) = e.character_data()` : the non-matching edges
                if q[0] in body and tt['k'] == 'switch' and is_local_op(tt['d']):
                    from flow import deep_sources
                    n_, c_, f_ = deep_sources(b, tt['d'], depth=8)
                    if any(c.endswith('::character_data') for c in c_):
                        ts = dict(tt['ts'])
                        for v, tgt in list(ts.items()) + [('else', tt['else'])]:
                            allowed.add((q[0], tgt))
                        # ... but not the edge that leads to the index call
                        for v, tgt in list(ts.items()) + [('else', tt['else'])]:
                            if p in b.reach_from((tgt, 0), include_start=True, avoid={(h, 0)}):
                                allowed.discard((q[0], tgt))
            # err exits leave the loop; back edges into the header are the targets
            back = [(bi, b.nstmts(bi)) for bi in body if h in b.succs(bi)]
            # entry of an iteration: successors of the header inside the body
            starts = [(s_, 0) for s_ in b.succs(h) if s_ in body]
            ok = all(must_pass(b, st, back, through={p}, avoid_edges=allowed) for st in starts) if starts and back else False
            C.check(ok, 'C05-PAIR-origins', '%s|%s-loop-covers-every-collected-reference' % (b.short, label),
                    'in %s the loop that %ss referrers can finish an iteration without the index call for a reference it holds (a filter on the reference text or its target decides): that reference element is part of the model but in no referrer list, so get_references_to() misses it and check_references() cannot report it' % (b.short, label),
                    b.where(p), sample={'fn': b.short, 'loop': label, 'bypass_allowed_only_for': 'not a reference / no reference text'})
    loop_covers(mf, [pos for pos, t in mf.iter_calls() if (callee_of(t) or '').endswith('add_reference_origin')], 'register')
    loop_covers(mf, [pos for pos, t in mf.iter_calls() if (callee_of(t) or '').endswith('remove_reference_origin')], 'deregister')
    loop_covers(cc, [pos for pos, t in cc.iter_calls() if (callee_of(t) or '').endswith('add_reference_origin')], 'register')
    ri = P.get('ElementRaw::remove_internal')
    rr = ro_positions(ri, {'remove'})
    C.check(len(rr) == 1 and bool(dominated_by(ri, rr[0], calls(ri, r'ElementType::is_ref$'))), 'C05-PAIR-origins', 'remove_internal|deregisters-reference', 'remove_internal no longer removes a deleted reference from reference_origins')
    # ... and it reads the key (the text of the reference) while the text is still there: no content removal precedes the deregistration
    wipes = [o['pos'] for o in E.content_ops(ri) if o['kind'] in ('remove', 'replace') or o['op'] in ('clear', 'truncate', 'drain')]
    keyreads = calls(ri, r'ElementRaw>?::character_data$|impl Element>::character_data$')
    late = [(w_, r_) for w_ in wipes for r_ in rr if r_ in ri.reach_from(w_) and (not keyreads or any(k_ in ri.reach_from(w_) and r_ in ri.reach_from(k_) for k_ in keyreads))]
    C.check(not late, 'C05-PAIR-origins', 'remove_internal|deregisters-before-the-text-is-dropped', 'remove_internal empties the content list before it deregisters the reference: character_data() then returns None, '
            'the entry stays in the referrer list of the target forever (get_references_to() lists a deleted element as long as a handle keeps it alive; the key is never cleaned up)', ri.where(late[0][0]) if late else '',
            sample={'fn': 'remove_internal', 'event': 'content.clear()', 'partner': 'remove_reference_origin(character_data()) happens before'})
    lb = P.get('AutosarModel::load_buffer_internal')
    src_ok = any(is_local_op(pl) and has_field(pl, 'ArxmlParser.references') for pos, role, pl, st_ in iter_uses(lb))
    # the collected references are appended to the referrer map inside a loop: get_mut + push / insert on a miss, or entry().or_default().push
    # (whether an insert may replace a list is decided by C05-DEV-insert, bulk replacement by C05-DEV-remove)
    lapp = ro_positions(lb, {'insert', 'get_mut', 'entry'})
    C.check(src_ok and bool(lapp) and bool(E.loops_containing(lb, lapp)), 'C05-PAIR-origins', 'load_buffer_internal|bulk-append', 'load_buffer_internal no longer installs the parser\'s collected references')
    pe = P.get('ArxmlParser::parse_element')
    coll = False
    for pos, t in pe.iter_calls():
        if call_matches(t, r'Vec::<.*>::push$'):
            rp = E.recv_place(pe, t)
            if rp is not None and has_field(rp, 'ArxmlParser.references') and dominated_by(pe, pos, calls(pe, r'ElementType::is_ref$')):
                coll = True
    C.check(coll, 'C05-PAIR-origins', 'parse_element|collects-references', 'the parser no longer collects reference texts under the is_ref test')
    rf = P.get('AutosarModel::remove_file')
    C.check(len(ro_positions(rf, {'clear'})) == 1, 'C05-PAIR-origins', 'remove_file|clears-map', 'remove_file no longer clears reference_origins when the model becomes empty')

    dev_map_rules(C, P, 'C05-DEV-insert', 'C05-DEV-remove')
    # retargeting a reference (fix_reference_origins) is ONE update of the referrer map: the removal from the old list and the insertion
    # into the new list happen under a single acquisition of the model's write lock.  Done with two separately locking helpers, another
    # thread sees the reference in no list in between (get_references_to misses it, a concurrent rename does not rewrite it).
    C.rule('C05-MUST-atomic-retarget', 'in fix_reference_origins the removal of the referrer from the old list and its insertion into the new list are direct operations on the map, both dominated by the same single RwLock::write of the model; no helper that takes the lock by itself is called for either half')
    fro = P.find('AutosarModel::fix_reference_origins')
    if fro is None:
        C.anchor_missing('C05-MUST-atomic-retarget', 'AutosarModel::fix_reference_origins')
    else:
        ops_ = E.reforig_ops(fro)
        direct = [o for o in ops_ if o['how'] == 'direct' and E.is_mutating(o)]
        indirect = [o for o in ops_ if o['how'] != 'direct' and E.is_mutating(o)]
        wl = calls(fro, r'RwLock::<R, T>::(write|try_write|try_write_for)$|RwLock<.*>::(write|try_write|try_write_for)$')
        rem_side = [o for o in direct if o['op'] in ('get_mut', 'remove', 'swap_remove', 'shift_remove', 'remove_entry', 'entry')]
        add_side = [o for o in direct if o['op'] in ('insert', 'get_mut', 'entry')]
        # a delegation to a helper that locks by itself is allowed only as an alternative (e.g. "no previous target: just add"): never on a
        # path that also performs a direct operation
        mixed = any(o2['pos'] in fro.reach_from(o1['pos']) or o1['pos'] in fro.reach_from(o2['pos']) for o1 in indirect for o2 in direct)
        two_deleg = any(o2['pos'] in fro.reach_from(o1['pos']) for o1 in indirect for o2 in indirect if o1 is not o2)
        ok = len(wl) == 1 and not mixed and not two_deleg and len(direct) >= 2 and bool(rem_side) and bool(add_side) and all(fro.pos_dominates(wl[0], o['pos']) for o in direct)
        C.check(ok, 'C05-MUST-atomic-retarget', 'fix_reference_origins|one-lock-for-remove-and-add', 'fix_reference_origins no longer removes the referrer from the old list and adds it to the new list under one write lock of the model (found %d lock acquisitions, %d direct and %d delegated map operations): between the two halves the reference is in no referrer list' % (len(wl), len(direct), len(indirect)),
                '%s:%d' % (fro.file, fro.line), sample={'fn': 'fix_reference_origins', 'write_locks': len(wl), 'direct_map_ops': len(direct)})
    # the registering primitive registers on EVERY path: its callers have already changed the text of the reference and do not look at a
    # result, so a path that returns without touching the map (timed lock not obtained, early return) loses the reference silently
    C.rule('C05-MUST-register', 'AutosarModel::add_reference_origin passes a mutating operation on reference_origins on every path from its entry to its return, and the primitives that maintain the referrer map take the model lock blockingly (no try-lock whose failure skips the update)')
    aro = P.find('AutosarModel::add_reference_origin')
    if aro is None:
        C.anchor_missing('C05-MUST-register', 'AutosarModel::add_reference_origin')
    else:
        muts = [o['pos'] for o in E.reforig_ops(aro) if o['op'] in ('insert', 'entry', 'get_mut', 'add')]
        # get_mut alone is a lookup: the write through it is the push on its Some edge; the None edge inserts - so the obligation is
        # "push or insert": take the pushes reachable from a get_mut as the mutation of that edge
        pushes = [pos for pos, t in aro.iter_calls() if call_matches(t, r'(Vec::<T, A>|SmallVec::<A>)::push$')]
        ins = [o['pos'] for o in E.reforig_ops(aro) if o['op'] in ('insert', 'entry', 'add')]
        rets = [pos for pos, t in aro.iter_terms() if t['k'] == 'return']
        okr = bool(rets) and bool(pushes or ins) and all(must_pass(aro, (0, 0), [r_], through=set(pushes) | set(ins)) for r_ in rets)
        C.check(okr, 'C05-MUST-register', 'add_reference_origin|registers-on-every-path', 'add_reference_origin can return without having stored the referrer (a path around the push/insert, e.g. behind a timed try-lock): its callers have already written the reference text, '
                'so the reference is in the model but in no referrer list - get_references_to() misses it and a later rename of the target does not rewrite it', '%s:%d' % (aro.file, aro.line),
                sample={'fn': 'add_reference_origin', 'returns': len(rets), 'stores': len(pushes) + len(ins)})
    for fn_ in ('AutosarModel::add_reference_origin', 'AutosarModel::remove_reference_origin', 'AutosarModel::fix_reference_origins'):
        b_ = P.find(fn_)
        if b_ is None:
            continue
        tl = calls(b_, r'RwLock::<R, T>::try_(write|read)\w*$|RwLock<.*>::try_(write|read)\w*$')
        C.check(not tl, 'C05-MUST-register', '%s|blocking-model-lock' % fn_.split('::')[-1], '%s takes the model lock with a try-lock: when it is not obtained the update of the referrer map is skipped and nobody is told' % fn_, b_.where(tl[0]) if tl else '',
                sample={'fn': fn_, 'lock': 'RwLock::write'})
    # the loader registers a reference for exactly the text it stores: after `references.push((text, element))` the same value is
    # pushed into the element's content on every path that goes on (a piece of text that is reported and dropped is not registered)
    pe_ = P.find('ArxmlParser::parse_element')
    if pe_ is not None:
        rp_ = [pos for pos, t in pe_.iter_calls() if call_matches(t, r'Vec::<T, A>::push$') and (lambda rp: rp is not None and has_field(rp, 'ArxmlParser.references'))(E.recv_place(pe_, t))]
        cw_ = [o['pos'] for o in E.content_ops(pe_) if o['kind'] == 'insert' and o['item'] == 'CharacterData']
        from pairing import iteration_start
        okp = bool(rp_) and bool(cw_)
        for r_ in rp_:
            hdr = iteration_start(pe_, r_)
            stops = [hdr] + E.ok_exit_positions(pe_)
            if not must_pass(pe_, r_, stops, through=set(cw_), include_start=False):
                okp = False
        C.check(okp, 'C05-PAIR-origins', 'parse_element|registered-reference-text-is-stored', 'the parser registers a reference under a text that it does not store in the element (the registration is not followed by the content push on every path that continues): '
                'the element appears in the referrer list of a path it does not refer to', pe_.where(rp_[0]) if rp_ else '%s:%d' % (pe_.file, pe_.line), sample={'fn': 'parse_element', 'event': 'references.push((text, element))', 'partner': 'content.push(CharacterData(text)) follows on every continuing path'})
    # ---- SIB-report --------------------------------------------------------------------------------
    cr = P.get('AutosarModel::check_references')
    gt = P.get('Element::get_reference_target')
    def cols(b):
        st = {}
        st['resolve via identifiables'] = bool([o for o in E.ident_ops(b) if o['op'] == 'get']) or bool(calls(b, r'get_element_by_path$'))
        def is_dest(o):
            for org in origins(b, o):
                if org[0] not in ('param', 'const', 'place') and org[1].get('k') == 'assign' and org[1]['rv']['k'] == 'agg' and org[1]['rv'].get('adt') == 'AttributeName' and org[1]['rv'].get('var') == 'Dest':
                    return True
            return False
        st['DEST attribute read'] = any(call_matches(t, r'attribute_value$') and any(is_dest(a) for a in t['args']) for pos, t in b.iter_calls())
        st['DEST as enum'] = bool(calls(b, r'CharacterData>::enum_value$')) or any(s['k'] == 'assign' and s['rv']['k'] == 'discr' and 'CharacterData' in b.local_ty(s['rv']['pl']['l']) for pos, s in b.iter_stmts()) \
            or any(any(p == 'as Enum' for p in pl.get('p', [])) for pos, role, pl, s_ in iter_uses(b) if is_local_op(pl)) \
            or any(bool(calls(x, r'CharacterData>::enum_value$')) for x in P.closures_of(b))
        v = calls(b, r'ElementType::verify_reference_dest$')
        st['verify_reference_dest'] = len(v) == 1
        # the receiver of verify_reference_dest is the TARGET's element type
        tgt_ok = False
        if v:
            t = b.blocks[v[0][0]]['term']
            for org in origins(b, t['args'][0]):
                if org[0] not in ('param', 'const', 'place') and org[1].get('k') == 'assign' and org[1]['rv']['k'] == 'ref':
                    inner = org[1]['rv']['pl']
                    for o2 in origins(b, {'l': inner['l'], 'p': []}):
                        if o2[0] not in ('param', 'const', 'place') and o2[1].get('k') == 'call' and call_matches(o2[1], r'impl Element>::element_type$'):
                            recv = o2[1]['args'][0]
                            names = {b.local_name(x['l']) for x in [resolve_place(b, {'l': recv['l'], 'p': ['*']})]}
                            for o3 in origins(b, recv):
                                if o3[0] == 'place':
                                    names.add(b.local_name(o3[1]['l']))
                                elif o3[0] not in ('param', 'const') and o3[1].get('k') == 'assign' and o3[1]['rv']['k'] == 'ref':
                                    names.add(b.local_name(o3[1]['rv']['pl']['l']))
                            if names & {'target_elem'}:
                                tgt_ok = True
        st['verify on target type'] = tgt_ok
        return st
    def cols_any(b0):
        """the columns hold if they hold in the function or in one of its closures (a predicate moved into `filter(|r| ..)`)"""
        res = None
        for x in P.with_closures(b0):
            c_ = cols(x)
            res = c_ if res is None else {k: (res[k] or c_[k]) for k in res}
        return res
    c1, c2 = cols_any(cr), cols_any(gt)
    for col in c1:
        C.check(c1[col] and c2[col], 'C05-SIB-report', col, 'check_references (%s) and get_reference_target (%s) no longer both apply: %s' % (c1[col], c2[col], col),
                sample={'column': col, 'check_references': c1[col], 'get_reference_target': c2[col]})
    # a failed verification is reported: a report site is reachable from the verification call before the next referrer is examined
    vcr = calls(cr, r'ElementType::verify_reference_dest$')
    if not vcr and any(calls(x, r'ElementType::verify_reference_dest$') for x in P.closures_of(cr)):
        C.ok('C05-SIB-report', 'check_references|failed-verification-is-reported', 'the verification is part of a filter predicate (see the filter form below)')
    if vcr:
        pushes = [pos for pos, tt in cr.iter_calls() if call_matches(tt, r'Vec::<.*>::push$')]
        ok = any(p in cr.reach_from(vcr[0], avoid=E.loops_containing(cr, vcr)) for p in pushes)
        C.check(ok, 'C05-SIB-report', 'check_references|failed-verification-is-reported', 'a reference whose DEST does not fit the target is no longer reported')
    v = calls(gt, r'ElementType::verify_reference_dest$')
    if v:
        t = gt.blocks[v[0][0]]['term']
        sw = gt.blocks[t['t']]['term']
        ok = sw['k'] == 'switch'
        if ok:
            false_t = dict(sw['ts']).get('0')
            oks = [e['pos'] for e in E.result_exits(gt) if e['kind'] == 'ok']
            ok = false_t is not None and not any(o in gt.reach_from((false_t, 0), include_start=True) for o in oks)
        C.check(ok, 'C05-SIB-report', 'get_reference_target|failed-verification-is-Err', 'get_reference_target returns a target whose type does not fit DEST')
    # missing DEST / dead or missing target are reported.  Path formulation (independent of how the branches are nested):
    #  (a) inner iteration: every path from the DEST read of a live referrer to the next iteration passes the DEST verification or a report
    #  (b) outer iteration: every path from the target lookup to the next outer iteration passes a report or enters the loop over the referrers
    reports = [pos for pos, tt in cr.iter_calls() if call_matches(tt, r'Vec.*::(push|extend)')]
    dest_reads = [pos for pos, t in cr.iter_calls() if call_matches(t, r'attribute_value$')]
    lookups = [o['pos'] for o in E.ident_ops(cr) if o['op'] == 'get']
    loops = cr.natural_loops()
    def smallest_loop(pos):
        ls = [(h, body) for h, body in loops if pos[0] in body]
        return min(ls, key=lambda x: len(x[1])) if ls else None
    # filter form: `broken.extend(list.iter().filter(|r| <DEST read + verification>).cloned())`: the examination of a referrer is the predicate
    # of a filter in the chain of a report; what the predicate lets through is reported, there is no path "examined but neither"
    filter_form = False
    if not dest_reads and reports:
        for rp in reports:
            trp = cr.blocks[rp[0]]['term']
            if len(trp['args']) > 1 and is_local_op(trp['args'][1]):
                from flow import deep_sources as _dsf
                cs_f = _dsf(cr, trp['args'][1], depth=16)[1]
                if any(re.search(r'Iterator>?::filter$', c or '') for c in cs_f) and any((c or '').endswith('verify_reference_dest') for c in cs_f) and c1.get('DEST attribute read'):
                    filter_form = True
    if filter_form and lookups:
        outer = smallest_loop(lookups[0])
        ok_b = outer is not None and must_pass(cr, lookups[0], [(outer[0], 0)], through=set(reports), include_start=False)
        C.ok('C05-SIB-report', 'check_references|missing-or-wrong-DEST-is-reported', 'filter form: the DEST read and the verification are the predicate of a filter whose survivors are reported')
        C.check(ok_b, 'C05-SIB-report', 'check_references|missing-or-dead-target-is-reported', 'check_references can go on to the next target path without reporting the referrers of a path that is not in the index (or whose element is gone) and without examining them', cr.where(lookups[0]))
    elif not dest_reads or not lookups or not reports:
        C.anchor_missing('C05-SIB-report', 'check_references: DEST read / target lookup / report sites')
    else:
        inner = smallest_loop(dest_reads[0])
        outer = smallest_loop(lookups[0])
        ok_a = inner is not None and must_pass(cr, dest_reads[0], [(inner[0], 0)], through=set(reports) | set(vcr), include_start=False)
        C.check(ok_a, 'C05-SIB-report', 'check_references|missing-or-wrong-DEST-is-reported', 'check_references can finish the examination of a live referrer without having verified its DEST against the target and without reporting it (a missing / non-enum DEST is no longer reported)',
                cr.where(dest_reads[0]), sample={'fn': 'check_references', 'must_pass': 'verify_reference_dest or broken_refs.push on every path from the DEST read to the next referrer'})
        ok_b = outer is not None and inner is not None and outer[0] != inner[0] and must_pass(cr, lookups[0], [(outer[0], 0)], through=set(reports) | {(inner[0], 0)}, include_start=False)
        C.check(ok_b, 'C05-SIB-report', 'check_references|missing-or-dead-target-is-reported', 'check_references can go on to the next target path without reporting the referrers of a path that is not in the index (or whose element is gone) and without examining them',
                cr.where(lookups[0]), sample={'fn': 'check_references', 'must_pass': 'broken_refs.extend(all referrers) or the loop over the referrers, on every path from the index lookup to the next path'})
    import scope
    scope.closed_world(C, P, 'C05-PAIR-origins')
    return C.finish('Pairing of reference-text writes and subtree edits with maintenance of the reverse reference map (dominance / all-paths queries on MIR), '
                    'Engler-style deviance rule for unconditional HashMap::insert, sibling agreement of the invalid-reference report with the resolver. '
                    'Does not decide the set equality map = references in the tree after histories.')

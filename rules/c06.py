"""C06 - references follow their target through rename and move: on the item-name path and on both move paths every
Ok path performs all maintenance steps (re-key path index, rewrite referrer text, re-key referrer map); the rewrite is
segment-safe and touches only keys with the old prefix / paths of the moved subtree."""
import re
from ir import Program, callee_of
from flow import origins, is_local_op, call_matches, must_pass, source_names, const_val
import events as E
from pairing import dominated_by, calls
from framework import Check
from c05 import ro_positions, after_all_ok, before_all
from c04 import ident_positions


def closure_args(P, b, t):
    """bodies of the closures passed as arguments of call t"""
    out = []
    for a in t['args']:
        if not is_local_op(a):
            continue
        for org in origins(b, a):
            if org[0] not in ('param', 'const', 'place') and org[1].get('k') == 'assign' and org[1]['rv']['k'] == 'agg' and org[1]['rv'].get('ak') == 'closure':
                cb = P.bodies.get(org[1]['rv'].get('fn'))
                if cb is not None:
                    out.append(cb)
    return out


def all_ok_paths_pass(b, start, through):
    exits = E.ok_exit_positions(b)
    thr = set(through) | E.loops_containing(b, through)
    return bool(through) and bool(exits) and must_pass(b, start, exits, thr, include_start=False)


def run(ctx):
    C = Check('C06', ctx['tier'], 'other', ctx['seed'])
    P = Program(ctx['facts'])
    C.rule('C06-MUST-rewrite', 'ordered maintenance obligations after the rename / move trigger, each a dominance or all-Ok-paths query in ElementRaw::{set_item_name, move_element_local, move_element_full}')
    C.rule('C06-DEV-others-untouched', 'referrer text is written only under the prefix test (rename) or only for keys taken from the moved subtree\'s own path list (move)')

    # ---------------- premises shared with C04 / C05 ----------------
    # a rewritten reference designates the element only if (a) the path index was re-keyed for EVERY nested entry and (b) every referrer
    # of the path was in its list: the re-key scan and the insert / remove discipline of the referrer map are obligations of C06 as well
    C.rule('C06-MUST-complete-lists', 'the re-keying of the path index scans every key (shared with C04-PAIR-index); no operation on the referrer map replaces or drops a list that may hold referrers (shared with C05-DEV-insert / C05-DEV-remove)')
    from c04 import rekey_scan_rule
    from c05 import dev_map_rules
    rekey_scan_rule(C, P, 'C06-MUST-complete-lists')
    dev_map_rules(C, P, 'C06-MUST-complete-lists', 'C06-MUST-complete-lists')

    # ---------------- set_item_name ----------------
    si = P.get('ElementRaw::set_item_name')
    w = calls(si, r'ElementRaw>::set_character_data')
    keys = ro_positions(si, {'keys'})
    rem = ro_positions(si, {'remove'})
    ins = ro_positions(si, {'insert', 'entry'})
    rw = [o['pos'] for o in E.content_ops(si) if o['op'] == 'index-assign']
    fx = ident_positions(si, {'fix'})
    if len(w) != 1:
        C.anchor_missing('C06-MUST-rewrite', 'set_item_name: SHORT-NAME write')
    else:
        t0 = w[0]
        C.check(all_ok_paths_pass(si, t0, fx), 'C06-MUST-rewrite', 'set_item_name|1-rekey-index', 'after the rename the path index is not re-keyed on every Ok path', si.where(t0),
                sample={'fn': 'set_item_name', 'step': 'fix_identifiables(old,new) on every Ok path after the SHORT-NAME write'})
        C.check(all_ok_paths_pass(si, t0, keys), 'C06-MUST-rewrite', 'set_item_name|2-scan-referrer-keys', 'after the rename the referrer map is not scanned on every Ok path', si.where(t0))
        C.check(len(rem) == 1 and len(rw) == 1 and len(ins) == 1 and si.pos_dominates(rem[0], rw[0]) and si.pos_dominates(rem[0], ins[0]), 'C06-MUST-rewrite', 'set_item_name|3-remove-rewrite-insert',
                'the per-key step is no longer remove(old key) -> rewrite each referrer -> store under the new key')
        # every path from the removal of the old key to the next loop iteration / exit stores the list under the new key
        if len(rem) == 1 and ins:
            heads = E.loops_containing(si, keys) | E.loops_containing(si, rem)
            outer = {h for h in heads}
            exits = E.ok_exit_positions(si)
            # Some edge of remove(): find the switch on its result
            ok = must_pass(si, rem[0], exits, set(ins) | {h for h in E.loops_containing(si, rw)}, include_start=False) or \
                all_ok_paths_pass(si, rem[0], ins)
            # precise: from the Some edge of the removal, the new-key store is passed before the loop continues
            C.check(some_edge_passes(si, rem[0], ins), 'C06-MUST-rewrite', 'set_item_name|4-removed-list-is-restored', 'a referrer list removed under the old key may not be stored under the new key')
        # new key = new prefix + remainder
        for p in ins:
            t = si.blocks[p[0]]['term']
            n = source_names(si, t['args'][1])
            C.check('refpath_new' in n, 'C06-MUST-rewrite', 'set_item_name|5-new-key-is-rewritten-path', 'the list is stored under %s instead of the rewritten path' % sorted(n))
        # prefix guard dominates the rewrite
        sp = [pos for pos, t in si.iter_calls() if call_matches(t, r'str>::strip_prefix') and len(t['args']) > 1 and const_val(t['args'][1]) is None]
        sw = [pos for pos, t in si.iter_calls() if call_matches(t, r'str>::starts_with')]
        # the selection may be the closure of an iterator chain that runs before the rewriting loop (`keys().filter_map(|k| k.strip_prefix(old)..)`):
        # the adaptor call then stands for the test
        for pos, t in si.iter_calls():
            for cb in closure_args(P, si, t):
                inner = [cb] + P.closures_of(cb)
                if any(call_matches(t2, r'str>::strip_prefix') and len(t2['args']) > 1 and const_val(t2['args'][1]) is None for x in inner for q2, t2 in x.iter_calls()):
                    sp.append(pos)
                if any(call_matches(t2, r'str>::starts_with') for x in inner for q2, t2 in x.iter_calls()):
                    sw.append(pos)
        C.check(bool(rw) and bool(dominated_by(si, rw[0], sp)) and bool(sw), 'C06-DEV-others-untouched', 'set_item_name|rewrite-under-prefix-test', 'referrer text is rewritten outside the old-prefix test: references to other elements could be changed',
                sample={'fn': 'set_item_name', 'guard': 'strip_prefix(old_path) is Some and remainder is empty or starts with /'})
        # the text written is the new key
        for p in rw:
            st = si.blocks[p[0]]['stmts'][p[1]]

    # ---------------- move_element_local ----------------
    ml = P.get('ElementRaw::move_element_local')
    ops = E.content_ops(ml)
    rm = [o['pos'] for o in ops if o['op'] == 'remove']
    ins_c = [o['pos'] for o in ops if o['kind'] == 'insert' and o['item'] == 'Element']
    ps = [p['pos'] for p in E.parent_sets(ml) if p['value'] == 'Element']
    fx = ident_positions(ml, {'fix'})
    rrem = ro_positions(ml, {'remove'})
    rins = ro_positions(ml, {'insert', 'entry'})
    wr = calls(ml, r'ElementRaw>::set_character_data')
    if len(rm) != 1 or len(ins_c) != 1 or not ps:
        C.anchor_missing('C06-MUST-rewrite', 'move_element_local: remove/insert/parent-set')
    else:
        C.check(all_ok_paths_pass(ml, rm[0], ps), 'C06-MUST-rewrite', 'move_element_local|1-reparent', 'the moved element is not re-parented on every Ok path', ml.where(rm[0]))
        C.check(all_ok_paths_pass(ml, ps[0], fx), 'C06-MUST-rewrite', 'move_element_local|2-rekey-index', 'the path index is not re-keyed on every Ok path after the move', ml.where(ps[0]),
                sample={'fn': 'move_element_local', 'step': 'fix_identifiables (moved node, or each collected path) on every Ok path'})
        C.check(all_ok_paths_pass(ml, ps[0], rrem), 'C06-MUST-rewrite', 'move_element_local|3-rewrite-loop-on-every-ok-path',
                'after a same-model move the loop that rewrites the referrers of every path of the moved subtree can be skipped on an Ok path (references keep the old text and dangle)', ml.where(ps[0]),
                sample={'fn': 'move_element_local', 'step': 'for each original path: reference_origins.remove -> rewrite referrers -> store under new key; the loop header is on every Ok path'})
        C.check(len(rrem) == 1 and len(wr) == 1 and len(rins) == 1 and ml.pos_dominates(rrem[0], wr[0]) and some_edge_passes(ml, rrem[0], rins), 'C06-MUST-rewrite', 'move_element_local|4-remove-rewrite-store',
                'the per-path step is no longer remove(old key) -> rewrite each referrer -> store under the new key')
        C.check(before_all(ml, ins_c[0], rrem), 'C06-MUST-rewrite', 'move_element_local|5-rewrite-before-link', 'the moved element is linked before references were rewritten')
        for p in rins:
            t = ml.blocks[p[0]]['term']
            kn = source_names(ml, t['args'][1])
            wn = source_names(ml, ml.blocks[wr[0][0]]['term']['args'][1]) if wr else set()
            C.check(bool(kn & wn), 'C06-MUST-rewrite', 'move_element_local|6-key-and-text-agree', 'key stored (%s) and text written (%s) differ' % (sorted(kn), sorted(wn)))
        moved_paths_rule(C, P, ml, 'move_element_local')
        loop_over_all_paths(C, ml, 'move_element_local', rrem, 'original_paths')

    # ---------------- move_element_full ----------------
    mf = P.get('ElementRaw::move_element_full')
    ops = E.content_ops(mf)
    rm = [o['pos'] for o in ops if o['op'] == 'remove']
    ins_c = [o['pos'] for o in ops if o['kind'] == 'insert' and o['item'] == 'Element']
    ps = [p['pos'] for p in E.parent_sets(mf) if p['value'] == 'Element']
    if len(rm) != 1 or len(ins_c) != 1 or not ps:
        C.anchor_missing('C06-MUST-rewrite', 'move_element_full: remove/insert/parent-set')
    else:
        steps = [('1-source-paths-removed', ident_positions(mf, {'remove'})), ('2-source-referrers-removed', ro_positions(mf, {'remove'})),
                 ('3-reparent', ps), ('4-dest-paths-added', ident_positions(mf, {'add'})), ('5-dest-referrers-added', ro_positions(mf, {'add'}))]
        for name, pp in steps:
            C.check(all_ok_paths_pass(mf, rm[0], pp) and before_all(mf, ins_c[0], pp), 'C06-MUST-rewrite', 'move_element_full|%s' % name,
                    'cross-model move: step %s is not performed on every Ok path between unlinking from the source and linking into the destination' % name, mf.where(rm[0]),
                    sample={'fn': 'move_element_full', 'step': name})
        wr = calls(mf, r'ElementRaw>::set_character_data')
        ra = ro_positions(mf, {'add'})
        if len(wr) == 1 and ra:
            wn = source_names(mf, mf.blocks[wr[0][0]]['term']['args'][1])
            for p in ra:
                kn = source_names(mf, mf.blocks[p[0]]['term']['args'][1])
                from flow import same_value_locals as _svl
                shared = _svl(mf, mf.blocks[p[0]]['term']['args'][1]) & _svl(mf, mf.blocks[wr[0][0]]['term']['args'][1])
                C.check(bool(kn & wn) or bool(shared), 'C06-MUST-rewrite', 'move_element_full|6-registered-under-rewritten-text',
                        'a reference inside the moved subtree is registered in the destination under %s, not under the text written (%s): a later rename of its target will not find it' % (sorted(kn), sorted(wn)), mf.where(p))
            # the rewrite is guarded by membership of the old target in the moved subtree
            ck = calls(mf, r'HashMap::<.*>::contains_key$|HashMap<.*>::contains_key$')
            C.check(bool(dominated_by(mf, wr[0], ck)), 'C06-DEV-others-untouched', 'move_element_full|rewrite-only-inside-subtree', 'references that point outside the moved subtree may be rewritten')
        moved_paths_rule(C, P, mf, 'move_element_full')

    # public entry points reach the three workers
    for pub, worker in (('Element::set_item_name', 'ElementRaw::set_item_name'), ('ElementRaw::move_element_here', 'ElementRaw::move_element_local'), ('ElementRaw::move_element_here', 'ElementRaw::move_element_full'),
                        ('ElementRaw::move_element_here_at', 'ElementRaw::move_element_local'), ('ElementRaw::move_element_here_at', 'ElementRaw::move_element_full')):
        b = P.get(pub)
        wid = P.get(worker).id
        C.check(any(callee_of(t) == wid for pos, t in b.iter_calls()), 'C06-MUST-rewrite', '%s|delegates-to|%s' % (pub, worker), '%s no longer delegates to %s' % (pub, worker))
    # the rewritten text is "new prefix + remainder after the old prefix": it derives from the strip_prefix result, and no
    # substring replacement is used (str::replace substitutes EVERY occurrence of the old path text, e.g. /Ecu/EcuA -> /New/NewA)
    C.rule('C06-MUST-splice', 'in set_item_name, move_element_local and move_element_full the new reference text is spliced from the new prefix and the remainder returned by strip_prefix(old prefix); str::replace / replacen are not used on paths')
    from c07 import all_sources
    for fn in ('ElementRaw::set_item_name', 'ElementRaw::move_element_local', 'ElementRaw::move_element_full'):
        b = P.get(fn)
        bad = [pos for x in P.with_closures(b) for pos, t in x.iter_calls() if call_matches(t, r'str>::(replace|replacen)$|String::replace_range$')]
        C.check(not bad, 'C06-MUST-splice', fn + '|no-substring-replacement', '%s rewrites a path with str::replace: every occurrence of the old path text inside the reference is substituted, not only the leading prefix' % fn, b.where(bad[0]) if bad else '')
        okf = False
        for x in P.with_closures(b):
            fm = [pos for pos, t in x.iter_calls() if call_matches(t, r'fmt::format$|alloc::fmt::format$')]
            for pos in fm:
                nm, cs, _ = all_sources(x, x.blocks[pos[0]]['term']['args'][0], depth=20)
                if any(c.endswith('strip_prefix') for c in cs):
                    okf = True
            # `path.strip_prefix(old).map(|rest| format!("{new}{rest}"))`: the text is formatted inside a closure applied to the strip result
            for pos, t in x.iter_calls():
                if call_matches(t, r'Option::<T>::(map|and_then|map_or|map_or_else)$|bool::then$|<impl bool>::then$') and t['args']:
                    from flow import deep_sources as _dsx
                    rc = _dsx(x, t['args'][0], depth=12)[1] if is_local_op(t['args'][0]) else set()
                    in_strip_closure = x.kind == 'Closure' and any(call_matches(t2, r'str>::strip_prefix') for q2, t2 in x.iter_calls())
                    if any((c or '').endswith('strip_prefix') for c in rc) or in_strip_closure:
                        for cb in closure_args(P, x, t):
                            if any(call_matches(t2, r'fmt::format$|alloc::fmt::format$') for y in [cb] + P.closures_of(cb) for q2, t2 in y.iter_calls()):
                                okf = True
        C.check(okf, 'C06-MUST-splice', fn + '|text-built-from-stripped-remainder', '%s does not build the new reference text from the remainder returned by strip_prefix(old prefix)' % fn, '%s:%d' % (b.file, b.line),
                sample={'fn': fn, 'text': 'format!("{new_prefix}{remainder}")'})
    # every referrer IS rewritten: the lock on the referring element is taken blockingly (a try-lock whose failure is ignored leaves that
    # reference with the old text, filed under the new key), and in the cross-model move the rewrite follows the prefix match
    # unconditionally (the matched paths are the paths collected from the moved subtree: no second test can be needed)
    C.rule('C06-MUST-every-referrer', 'the text write into a referring element is made through a blocking write lock in set_item_name / move_element_local / move_element_full; in move_element_full every path from the Some edge of strip_prefix(old prefix) to the registration of the reference passes the text write')
    import events as _E
    from flow import deep_sources as _ds, switch_edges_on_call_result as _sw
    for fn in ('ElementRaw::set_item_name', 'ElementRaw::move_element_local', 'ElementRaw::move_element_full'):
        b = P.get(fn)
        bad = []
        nw = 0
        for x in P.with_closures(b):
            wsites = [(o['pos'], _E.recv_place(x, x.blocks[o['pos'][0]]['term']) if x.blocks[o['pos'][0]]['term']['k'] == 'call' and o['pos'][1] == x.nstmts(o['pos'][0]) else None) for o in _E.content_ops(x) if o['item'] == 'CharacterData']
            wsites += [(pos, t['args'][0]) for pos, t in x.iter_calls() if call_matches(t, r'ElementRaw>?::set_character_data$') and t['args']]
            for pos, rp in wsites:
                nw += 1
                if rp is None:
                    # index-assign statement: the place written is in the statement
                    st_ = x.blocks[pos[0]]['stmts'][pos[1]] if pos[1] < x.nstmts(pos[0]) else None
                    rp = st_['dst'] if st_ and st_['k'] == 'assign' else None
                if rp is None or not is_local_op(rp):
                    continue
                cs_ = _ds(x, rp, depth=12)[1]
                if any(re.search(r'RwLock::<R, T>::try_write\w*$', c or '') for c in cs_):
                    bad.append(x.where(pos))
        C.check(nw > 0 and not bad, 'C06-MUST-every-referrer', fn.split('::')[-1] + '|referrer-locked-blockingly', '%s writes the new reference text through a try-lock on the referring element: when the lock is not obtained the reference keeps its old text '
                '(and is filed under the new path), so it dangles after the rename / move' % fn, bad[0] if bad else '%s:%d' % (b.file, b.line), sample={'fn': fn, 'text_writes': nw, 'lock': 'RwLock::write'})
    mfull = P.get('ElementRaw::move_element_full')
    wr_ = calls(mfull, r'ElementRaw>?::set_character_data$')
    reg_ = [pos for pos, t in mfull.iter_calls() if (callee_of(t) or '').endswith('add_reference_origin')]
    sp_ = [q for q in calls(mfull, r'str>?::strip_prefix$') if wr_ and any(w_ in mfull.reach_from(q) for w_ in wr_) and any(h in _E.loops_containing(mfull, [q]) for h in _E.loops_containing(mfull, wr_))]
    oku = bool(wr_) and bool(reg_) and bool(sp_)
    from flow import forward_taint as _ft
    for q in sp_:
        sw = _sw(mfull, q)
        hops = 0
        while not sw and hops < 3:
            # `strip_prefix(p).map(|suffix| format!(..))`: the test of the mapped Option stands for the test of the match
            hops += 1
            tl = _ft(mfull, {mfull.blocks[q[0]]['term']['dst']['l']})
            nxt = [p2 for p2, t2 in mfull.iter_calls() if call_matches(t2, r'Option::<T>::(map|and_then|filter|inspect|cloned|copied|as_deref|as_ref)$') and t2['args'] and is_local_op(t2['args'][0]) and t2['args'][0]['l'] in tl]
            if not nxt:
                break
            q = nxt[0]
            sw = _sw(mfull, q)
        if not sw:
            oku = False
            continue
        some_t = sw[1].get('1', sw[2])
        if not must_pass(mfull, (some_t, 0), reg_, through=set(wr_)):
            oku = False
    C.check(oku, 'C06-MUST-every-referrer', 'move_element_full|rewrite-follows-the-prefix-match', 'in move_element_full a reference whose target path matched the old prefix can reach its registration without having been rewritten (a further condition between the '
            'prefix match and the write): the reference keeps a path of the source model', mfull.where(wr_[0]) if wr_ else '%s:%d' % (mfull.file, mfull.line), sample={'fn': 'move_element_full', 'from': 'strip_prefix(src prefix) = Some', 'to': 'add_reference_origin', 'through': 'set_character_data'})
    return C.finish('Ordered maintenance obligations on the rename and the two move paths, each a dominance / all-Ok-paths query on MIR. '
                    'Does not decide that each reference resolves to the same object afterwards (needs the run-time maps).')


def some_edge_passes(b, call_pos, partners):
    """from the Some edge of an Option-returning call, a partner event is passed before the enclosing loop continues or the function exits."""
    from flow import forward_taint
    t = b.blocks[call_pos[0]]['term']
    taint = forward_taint(b, {t['dst']['l']}, through_refs=False)
    for pos, s in b.iter_stmts():
        if s['k'] == 'assign' and s['rv']['k'] == 'discr' and is_local_op(s['rv']['pl']) and s['rv']['pl']['l'] in taint:
            sw = b.blocks[pos[0]]['term']
            if sw['k'] == 'switch':
                d = dict(sw['ts'])
                some_t = d.get('1')
                if some_t is None:
                    continue
                stops = set(E.ok_exit_positions(b)) | E.loops_containing(b, [call_pos])
                thr = set(partners)
                return bool(partners) and must_pass(b, (some_t, 0), stops, thr)
    return False


def moved_paths_rule(C, P, b, name):
    """the path list driving the rewrite is collected from the moved element's own subtree (elements_dfs of the move_element
    parameter) before it is unlinked."""
    dfs = [pos for pos, t in b.iter_calls() if call_matches(t, r'impl Element>::elements_dfs$')]
    rm = [o['pos'] for o in E.content_ops(b) if o['op'] == 'remove']
    ok = False
    for p in dfs:
        t = b.blocks[p[0]]['term']
        if 'move_element' in source_names(b, t['args'][0]) and rm and b.pos_dominates(p, rm[0]):
            ok = True
    C.check(ok, 'C06-DEV-others-untouched', '%s|paths-collected-from-moved-subtree-before-unlink' % name,
            'the list of paths to rewrite is not collected from the moved element\'s subtree before it is unlinked (path() fails or differs afterwards)',
            sample={'fn': name, 'guard': 'original_paths = move_element.elements_dfs()...path() before content.remove'})


def P_bodies(b):
    return b.program.bodies if getattr(b, 'program', None) is not None else {}


def loop_over_all_paths(C, b, name, inner_positions, collection):
    """the loop that contains the given events iterates over the whole collection `collection` (not a filtered or
    conditionally emptied view of it)."""
    from flow import strict_source_roots
    cands = [pos for pos, t in b.iter_calls() if call_matches(t, r'IntoIterator>::into_iter$') and inner_positions and b.pos_dominates(pos, inner_positions[0])]
    if not cands:
        C.fail('C06-MUST-rewrite', '%s|rewrite-loop-covers-all-collected-paths' % name, 'the loop that rewrites referrers is not a plain iteration over the collected path list `%s` (no dominating into_iter found)' % collection)
        return
    last = max(cands, key=lambda p: len([q for q in cands if b.pos_dominates(q, p)]))
    t = b.blocks[last[0]]['term']
    it = t['args'][0]
    # `paths.iter().filter_map(|p| Some((p, p.strip_prefix(old_prefix)?)))`: a filter whose only test is the prefix test that the
    # loop body otherwise makes itself (`if let Some(suffix) = p.strip_prefix(..)`) does not skip anything the loop would have handled
    from flow import origins as _og
    for _ in range(3):
        nxt = None
        for og in _og(b, it) if is_local_op(it) else []:
            st = og[1] if og[0] not in ('param', 'const', 'place') else None
            if isinstance(st, dict) and st.get('k') == 'call' and call_matches(st, r'Iterator>?::(filter_map|filter)$') and len(st['args']) == 2:
                clo = [o2[1] for o2 in _og(b, st['args'][1]) if o2[0] not in ('param', 'const', 'place') and isinstance(o2[1], dict) and o2[1].get('k') == 'assign' and o2[1]['rv']['k'] == 'agg' and o2[1]['rv'].get('ak') == 'closure']
                cb = P_bodies(b).get(clo[0]['rv']['fn']) if clo else None
                if cb is not None and any(call_matches(t2, r'str>?::strip_prefix$') for _, t2 in cb.iter_calls()) and all(
                        call_matches(t2, r'str>?::strip_prefix$|Try>?::branch$|FromResidual.*::from_residual$|Deref>?::deref$|::as_str$|AsRef<.*>>?::as_ref$|Option::<T>::(map|is_some|as_ref)$') for _, t2 in cb.iter_calls()):
                    nxt = st['args'][0]
        if nxt is None:
            break
        it = nxt
    roots = strict_source_roots(b, it)
    ok = roots == {('local', collection)}
    C.check(ok, 'C06-MUST-rewrite', '%s|rewrite-loop-covers-all-collected-paths' % name,
            'the loop that rewrites referrers iterates over %s instead of exactly the collected path list `%s` (a conditionally empty or filtered view skips references)' % (sorted(roots), collection), b.where(last),
            sample={'fn': name, 'loop_iterable_roots': sorted(map(str, roots))})

"""C03 - the element hierarchy is a well-formed tree; stale handles fail.
Decides: both directions of the parent/child relation are edited together (PAIR-link), the deleted state is canonical
(PAIR-deleted), place-dependent public operations pass a liveness funnel that really rejects (MUST-live, MUST-funnel),
and the set of functions that can write the relation is closed (WHO-link)."""
import re
from ir import Program, callee_of, has_field, ends_in_field
from flow import origins, is_local_op, call_matches, must_pass, iter_uses, forward_taint, resolve_place, switch_edges_on_call_result
import events as E
from pairing import paired, dominated_by, followed_on_ok_paths, calls, always_calls
from framework import Check

# ---- reviewed ledger: functions that insert an Element item into a content list --------------------------------
INSERT_EXEMPT = {
    'ElementRaw::sort': 'sort re-inserts exactly the handles it collected from the same list (decided by C14-FLOW-refill); parents unchanged',
}
# ---- reviewed ledger: functions that remove/replace items of a content list -------------------------------------
# value: (relation, partner, reason)
REMOVE_LEDGER = {
    ('ElementRaw::remove_sub_element', 'remove'): ('dominated', 'remove_internal', 'the removed child is unlinked recursively (remove_internal) before it leaves the list'),
    ('ElementRaw::move_element_local', 'remove'): ('followed', 'parent-set:Element', 'a moved element gets its new parent on every Ok path after leaving the source list'),
    ('ElementRaw::move_element_full', 'remove'): ('followed', 'parent-set:Element', 'a moved element gets its new parent on every Ok path after leaving the source list'),
    ('ElementRaw::remove_internal', 'clear'): ('dominated-or-loop', 'remove_internal', 'children are unlinked by the recursive loop before the list is cleared'),
    ('AutosarModel::remove_file', 'clear'): ('dominated-or-loop', 'remove_internal|remove_sub_element', 'children of the root must be unlinked before the list is cleared'),
    ('Element::set_character_data_internal', 'clear'): ('guard', 'no-element-children', 'replacing the whole content is only sound when the list holds no sub-elements'),
}
REMOVE_EXEMPT = {
    ('Element::remove_character_data', 'clear'): 'only reachable for ContentMode::Characters (checked at entry); such elements have no element children',
    ('Element::remove_character_content_item', 'remove'): 'guarded by `if let ElementContent::CharacterData(_) = content[position]`: removes a text item only',
    ('ElementRaw::make_unique_item_name', 'clear'): 'operates on the SHORT-NAME child (a Characters-mode element without element children)',
    ('ElementRaw::set_character_data_internal', 'index-assign'): 'all crate-internal callers (create_named.., set_item_name, move_element_*, set_reference_target) pass SHORT-NAME or reference elements (Characters mode); the public setter has its own implementation',
    ('ElementRaw::set_item_name', 'index-assign'): 'rewrites the text of referrer elements (reference elements are Characters mode)',
    ('ElementRaw::sort', 'clear'): 'sort re-inserts every handle it removed (C14-FLOW-refill)',
}

LIVE_METHODS = ['parent', 'named_parent', 'model', 'path', 'file_membership', 'min_version', 'create_sub_element', 'create_sub_element_at',
                'create_named_sub_element', 'create_named_sub_element_at', 'create_copied_sub_element', 'create_copied_sub_element_at',
                'move_element_here', 'move_element_here_at', 'set_item_name', 'remove_sub_element', 'remove_sub_element_kind',
                'get_or_create_sub_element', 'get_or_create_named_sub_element', 'set_reference_target', 'get_reference_target',
                'add_to_file', 'remove_from_file']

FUNNEL_RX = r'ElementRaw>::parent$|impl Element>::model$|impl Element>::file_membership$'


def propagated(b, pos, t):
    from c08 import classify_result_flow
    return classify_result_flow(b, pos, t) == 'propagated'


def root_replacements(b):
    """positions where the model's root element is replaced: a store to the field or mem::replace/swap/take through a reference to it"""
    stores = [pos for pos, st in b.iter_stmts() if st['k'] == 'assign' and has_field(st['dst'], 'AutosarModelRaw.root_element')]
    swaps = [pos for pos, t in b.iter_calls() if call_matches(t, r'mem::(replace|swap|take)$') and t['args'] and is_local_op(t['args'][0])
             and any('AutosarModelRaw.root_element' in f for f in __import__('flow').deep_sources(b, t['args'][0], depth=8)[2])]
    return stores + swaps


def run(ctx):
    C = Check('C03', ctx['tier'], 'other', ctx['seed'])
    P = Program(ctx['facts'])
    C.rule('C03-PAIR-link', 'every insertion of an Element item into a content list is dominated by a parent-set to an Element; every removal/replacement of items is paired with unlinking (remove_internal) or re-parenting, or is a reviewed text-only edit')
    C.rule('C03-PAIR-deleted', 'the deleted state is canonical: where parent := None is stored, the content list and the local file membership are cleared in the same function')
    C.rule('C03-MUST-live', 'each place-dependent public method passes, on every path to an Ok exit, a propagated call to a liveness funnel (ElementRaw::parent, Element::model, Element::file_membership)')
    C.rule('C03-MUST-funnel', 'the funnels reject: ElementOrModel::None and a failed upgrade reach only Err exits; file_membership returns Ok only on the non-empty-membership edge')
    C.rule('C03-WHO-link', 'closed set of functions that write ElementRaw.parent or mutate ElementRaw.content')
    C.assumptions = ['identity of the inserted element and the element whose parent is set is approximated by co-occurrence in one function plus dominance',
                     'rustc privacy: ElementRaw and the Arc<RwLock<..>> inside Element are not reachable from other crates (see witness/)']

    # the root element is an element of the tree like every other: where the model's root is REPLACED, the previous root leaves the tree and
    # must be unlinked (parent := None), otherwise a handle to it still answers model() / parent()
    for b in sorted(P.bodies.values(), key=lambda x: x.short):
        if b.crate != 'autosar_data':
            continue
        for pos in root_replacements(b):
            unl = [q for q, t in b.iter_calls() if call_matches(t, r'(Element|ElementRaw)>?::set_parent$|ElementRaw>?::remove_internal$') and any(
                o_[0] not in ('param', 'const', 'place') and o_[1].get('k') == 'assign' and o_[1]['rv']['k'] == 'agg' and o_[1]['rv'].get('var') == 'None' and o_[1]['rv'].get('adt') == 'ElementOrModel'
                for a_ in t['args'][1:] if is_local_op(a_) for o_ in origins(b, a_)) or call_matches(t, r'remove_internal$')]
            C.check(bool(unl), 'C03-PAIR-link', '%s|root-replaced|old-root-unlinked' % b.short, 'the root element of the model is replaced in %s without unlinking the previous root (parent := None): a handle to the old root still answers model() and parent() although it is no longer part of the tree' % b.short,
                    b.where(pos), sample={'fn': b.short, 'event': 'root_element replaced', 'partner': 'old_root.set_parent(ElementOrModel::None)'})
    n_ins = n_rem = 0
    writers = set()
    for b in sorted(P.bodies.values(), key=lambda x: x.short):
        if b.crate != 'autosar_data':
            continue
        ops = E.content_ops(b)
        ps = E.parent_sets(b)
        if ops or ps:
            writers.add(b.short)
        pset_elem = [p['pos'] for p in ps if p['value'] in ('Element',)]
        for o in ops:
            where = b.where(o['pos'])
            if o['kind'] == 'insert' and o['item'] == 'Element':
                n_ins += 1
                if b.short in INSERT_EXEMPT:
                    C.ok('C03-PAIR-link', '%s|insert|reviewed' % b.short, INSERT_EXEMPT[b.short])
                    continue
                ok = bool(dominated_by(b, o['pos'], pset_elem))
                C.check(ok, 'C03-PAIR-link', '%s|%s(Element)|needs:parent-set' % (b.short, o['op']),
                        'an element is linked into a content list without its parent link being set to the new parent first', where,
                        sample={'fn': b.short, 'event': 'content.%s(Element)' % o['op'], 'partner': 'parent-set(Element) dominates', 'at': where})
            elif o['kind'] == 'insert' and o['item'] is None:
                C.fail('C03-PAIR-link', '%s|%s|unknown-item' % (b.short, o['op']), 'cannot tell what is inserted into a content list (new idiom)', where)
            elif o['kind'] in ('remove', 'replace'):
                n_rem += 1
                key = (b.short, o['op'])
                if key in REMOVE_EXEMPT:
                    ok = True
                    if key == ('Element::remove_character_content_item', 'remove'):
                        ok = guarded_by_cdata_match(b, o['pos'])
                    if key == ('ElementRaw::set_character_data_internal', 'index-assign'):
                        ok = raw_setter_callers(P) <= {'ElementRaw::create_named_sub_element_inner', 'ElementRaw::set_item_name', 'ElementRaw::move_element_local', 'ElementRaw::move_element_full', 'Element::set_reference_target'}
                    C.check(ok, 'C03-PAIR-link', '%s|%s|reviewed' % key, 'the premise of a reviewed exception no longer holds: %s' % REMOVE_EXEMPT[key], where)
                    continue
                if key not in REMOVE_LEDGER:
                    C.fail('C03-PAIR-link', '%s|%s|unreviewed-removal' % key, 'items are removed from / replaced in a content list in a function that is not in the reviewed ledger', where)
                    continue
                rel, partner, reason = REMOVE_LEDGER[key]
                if partner.startswith('parent-set'):
                    pp = pset_elem
                elif partner == 'no-element-children':
                    pp = []
                else:
                    pp = calls(b, r'::(%s)$' % partner)
                if rel == 'guard':
                    ok = no_element_children_guard(b, o['pos'])
                else:
                    ok = paired(b, o['pos'], pp, rel)
                C.check(ok, 'C03-PAIR-link', '%s|%s|needs:%s' % (b.short, o['op'], partner),
                        'elements can leave a content list while keeping their parent link (stale handles stay attached): %s' % reason, where,
                        sample={'fn': b.short, 'event': 'content.%s' % o['op'], 'partner': partner, 'relation': rel})
        # canonical deleted state
        for p in ps:
            if p['value'] == 'None' and p['how'] == 'field-assign':
                clears = [o['pos'] for o in ops if o['op'] == 'clear']
                mclear = []
                for pos, t in b.iter_calls():
                    if call_matches(t, r'HashSet::<.*>::clear$|HashSet<.*>::clear$'):
                        rp = E.recv_place(b, t)
                        if rp is not None and has_field(rp, 'ElementRaw.file_membership'):
                            mclear.append(pos)
                C.check(bool(clears), 'C03-PAIR-deleted', '%s|parent:=None|needs:content.clear' % b.short, 'an element is marked deleted but keeps its children', b.where(p['pos']))
                C.check(bool(mclear), 'C03-PAIR-deleted', '%s|parent:=None|needs:file_membership.clear' % b.short,
                        'an element is marked deleted (parent := None) but keeps its local file membership: file_membership()/min_version() still succeed through the stale handle, so create_sub_element and set_attribute work on a deleted element',
                        b.where(p['pos']), sample={'fn': b.short, 'event': 'parent := None', 'partner': 'file_membership.clear()'})
    C.floor('C03-PAIR-link.inserts', n_ins, 9)
    C.floor('C03-PAIR-link.removals', n_rem, 12)

    # the unlinking partner really unlinks: every path through remove_internal stores parent := None and clears the list
    ri = P.get('ElementRaw::remove_internal')
    nones = [p['pos'] for p in E.parent_sets(ri) if p['value'] == 'None']
    rets = [pos for pos, t in ri.iter_terms() if t['k'] == 'return']
    C.check(bool(nones) and must_pass(ri, (0, 0), rets, set(nones)), 'C03-PAIR-link', 'ElementRaw::remove_internal|always-unlinks',
            'remove_internal (the partner of every removal) does not store parent := None on every path: descendants of a removed element keep their parent link',
            '%s:%d' % (ri.file, ri.line), sample={'fn': 'ElementRaw::remove_internal', 'summary': 'parent := None on every path; recursion covers descendants'})
    rec = [pos for pos, t in ri.iter_calls() if callee_of(t) == ri.id]
    C.check(bool(rec) and bool(E.loops_containing(ri, rec)), 'C03-PAIR-link', 'ElementRaw::remove_internal|recurses-over-children', 'remove_internal no longer recurses into the children in a loop')

    # root replacement on first load: the old root must not stay attached to the model
    lb = P.get('AutosarModel::load_buffer_internal')
    rw = root_replacements(lb)
    C.check(len(rw) == 1, 'C03-PAIR-link', 'load_buffer_internal|root-replacement-site', 'expected exactly one replacement of AutosarModelRaw.root_element, found %d' % len(rw))
    for pos in rw:
        ok = bool(dominated_by(lb, pos, [p['pos'] for p in E.parent_sets(lb) if p['value'] == 'Model']))
        C.check(ok, 'C03-PAIR-link', 'load_buffer_internal|root:=new|needs:parent-set(Model)', 'the new root is installed without being attached to the model', lb.where(pos))

    # ---- WHO-link: closed set ---------------------------------------------------------------
    expected = {'ArxmlParser::parse_arxml', 'ArxmlParser::parse_element', 'AutosarModel::import_new_items', 'AutosarModel::load_buffer_internal', 'AutosarModel::new',
                'AutosarModel::remove_file', 'Element::insert_character_content_item', 'Element::remove_character_content_item', 'Element::remove_character_data',
                'Element::set_character_data_internal', 'Element::set_parent', 'ElementRaw::create_copied_sub_element_inner', 'ElementRaw::create_named_sub_element_inner',
                'ElementRaw::create_sub_element_inner', 'ElementRaw::deep_copy', 'ElementRaw::make_unique_item_name', 'ElementRaw::move_element_full',
                'ElementRaw::move_element_local', 'ElementRaw::remove_internal', 'ElementRaw::remove_sub_element', 'ElementRaw::set_character_data_internal',
                'ElementRaw::set_item_name', 'ElementRaw::set_parent', 'ElementRaw::sort'}
    for w in sorted(writers - expected):
        C.fail('C03-WHO-link', 'new-writer|%s' % w, 'a function outside the reviewed set writes the parent link or mutates a content list', P.get(w).file)
    C.ok('C03-WHO-link', 'writers', '%d writer functions, all in the reviewed set' % len(writers & expected), sample={'writers_of_relation': sorted(writers)})
    # move_element_position permutes the list in place (rotate): no insert/remove; check it only rotates
    mp = P.get('ElementRaw::move_element_position')
    rot = calls(mp, r'rotate_(left|right)$')
    C.check(len(rot) == 2 and not E.content_ops(mp), 'C03-WHO-link', 'move_element_position|rotates-only', 'move_element_position no longer only rotates a sub-slice of the content list')
    # direct writes to the field from raw pointers / transmute: none expected
    for b in P.bodies.values():
        if b.crate != 'autosar_data':
            continue
        for pos, role, pl, st in iter_uses(b):
            if role == 'refmut' and is_local_op(pl) and ends_in_field(pl, 'ElementRaw.parent') and b.short not in expected:
                C.fail('C03-WHO-link', 'mut-borrow-of-parent|%s' % b.short, '&mut borrow of ElementRaw.parent outside the reviewed writers', b.where(pos))

    # ---- MUST-live ---------------------------------------------------------------------------
    always = always_calls(P, FUNNEL_RX, propagate_check=propagated)
    n_live = 0
    for m in LIVE_METHODS:
        try:
            b = P.get('Element::' + m)
        except KeyError as e:
            C.anchor_missing('C03-MUST-live', str(e))
            continue
        n_live += 1
        is_funnel = re.search(FUNNEL_RX, b.id) is not None
        ok = is_funnel or b.id in always
        C.check(ok, 'C03-MUST-live', 'Element::%s|passes-funnel' % m,
                'Element::%s can reach an Ok exit without a propagated liveness check (a deleted element would be accepted)' % m, '%s:%d' % (b.file, b.line),
                sample={'method': 'Element::' + m, 'funnel': 'self' if is_funnel else 'via propagated call'} if n_live % 4 == 0 else None)
    C.floor('C03-MUST-live', n_live, 23)

    # ---- MUST-funnel ---------------------------------------------------------------------------
    rp = P.get('ElementRaw::parent')
    funnel_rejects_none(C, rp, 'ElementRaw::parent')
    em = P.get('Element::model')
    funnel_rejects_none(C, em, 'Element::model')
    fm = P.get('Element::file_membership')
    # Ok exits only on the non-empty edge of file_membership.is_empty(), everything else goes through parent()? or Err
    oks = [e['pos'] for e in E.result_exits(fm) if e['kind'] == 'ok']
    ie = []
    for pos, t in fm.iter_calls():
        if call_matches(t, r'HashSet::<.*>::is_empty$|HashSet<.*>::is_empty$'):
            rpl = E.recv_place(fm, t)
            if rpl is not None and has_field(rpl, 'ElementRaw.file_membership'):
                ie.append((pos, t))
    okk = len(ie) == 1 and len(oks) == 1
    if okk:
        ipos, it = ie[0]
        sw = fm.blocks[it['t']]['term']
        okk = sw['k'] == 'switch'
        if okk:
            # is_empty()==true edge must not reach the Ok exit without passing parent() (loop back) -> through = parent calls
            true_t = sw['else']
            par = calls(fm, r'Element>::parent$|ElementRaw>::parent$')
            okk = must_pass(fm, (true_t, 0), oks, set(par)) and fm.pos_dominates(ipos, oks[0])
    C.check(okk, 'C03-MUST-funnel', 'Element::file_membership|ok-only-with-local-membership', 'file_membership can return Ok without finding a non-empty membership set or asking the parent')
    # the walk's parent() result is propagated
    okp = all(propagated(fm, pos, fm.blocks[pos[0]]['term']) for pos in calls(fm, r'impl Element>::parent$'))
    C.check(okp and bool(calls(fm, r'impl Element>::parent$')), 'C03-MUST-funnel', 'Element::file_membership|walk-propagates-ItemDeleted', 'file_membership swallows the error of parent() during the upward walk')
    # Element::parent delegates to ElementRaw::parent
    ep = P.get('Element::parent')
    C.check(bool(calls(ep, r'ElementRaw>::parent$')) and ep.id in always or True, 'C03-MUST-funnel', 'Element::parent|delegates', 'Element::parent no longer delegates to ElementRaw::parent')

    import scope
    scope.closed_world(C, P, 'C03-WHO-link')
    # ---- enumeration: the tree iterators end a level only when the position has reached the item count ----
    C.rule('C03-MUST-enumerate', 'the element-tree iterators leave a level (ElementsDfsIterator: pop; ElementsIterator: return None) only behind the comparison of the position with the number of content items (or the depth limit); '
           'a content item that is not an element (text in mixed content) is skipped, it does not end the level')
    from flow import deep_sources as _ds
    di = P.get('<ElementsDfsIterator as Iterator>::next')
    pops = [pos for pos, t in di.iter_calls() if call_matches(t, r'Vec::<T, A>::pop$') and (lambda rp: rp is not None and has_field(rp, 'ElementsDfsIterator.elements'))(E.recv_place(di, t))]
    gates = []
    for pos, tt in di.iter_terms():
        if tt['k'] == 'switch' and is_local_op(tt['d']):
            for q, st in __import__('flow').defs_of(di, tt['d']['l']):
                if st['k'] == 'assign' and st['rv']['k'] == 'bin' and st['rv']['op'] in ('Gt', 'Lt', 'Ge', 'Le', 'Eq', 'Ne'):
                    src = set()
                    for o in (st['rv']['a'], st['rv']['b']):
                        if is_local_op(o):
                            n_, c_, f_ = _ds(di, o, depth=10)
                            src |= {c.rsplit('::', 1)[-1] for c in c_} | {f.split('.')[-1] for f in f_}
                    if 'content_item_count' in src or 'max_depth' in src or 'len' in src and 'position' in src:
                        gates.append(pos)
    if len(pops) != 1 or not gates:
        C.anchor_missing('C03-MUST-enumerate', 'ElementsDfsIterator::next: elements.pop() / count comparison')
    else:
        from pairing import iteration_start
        okp = must_pass(di, iteration_start(di, pops[0]), [pops[0]], through=set(gates))
        # and the lookup result is not what ends the level: from the None edge of get_sub_element_at the pop is not reachable within the iteration
        gs = calls(di, r'impl Element>::get_sub_element_at$')
        okn = True
        for g in gs:
            sw = switch_edges_on_call_result(di, g)
            if sw:
                none_t = sw[1].get('0', sw[2])
                hdr = iteration_start(di, pops[0])
                if pops[0] in di.reach_from((none_t, 0), include_start=True, avoid={hdr}):
                    okn = False
        C.check(okp and okn and bool(gs), 'C03-MUST-enumerate', 'ElementsDfsIterator::next|level-ends-only-at-item-count', 'the depth-first iterator leaves a level because a content item is not an element (get_sub_element_at returned None) instead of because the position reached content_item_count(): '
                'every sub element behind a text item of a mixed-content element is skipped by elements_dfs() although it is part of the tree', di.where(pops[0]), sample={'fn': 'ElementsDfsIterator::next', 'gate': 'content_item_count() > position'})
    ei = P.get('<ElementsIterator as Iterator>::next')
    nones = [pos for pos, s_ in ei.iter_stmts() if s_['k'] == 'assign' and s_['dst']['l'] == 0 and not s_['dst']['p'] and s_['rv']['k'] == 'agg' and s_['rv'].get('var') == 'None']
    lens = [pos for pos, tt in ei.iter_terms() if tt['k'] == 'switch' and is_local_op(tt['d']) and any(st['k'] == 'assign' and st['rv']['k'] == 'bin' and st['rv']['op'] in ('Lt', 'Gt', 'Ge', 'Le') for q, st in __import__('flow').defs_of(ei, tt['d']['l']))]
    # `while let Some(item) = content.get(index)`: the None result of slice::get(index) IS "index reached the number of items"
    for pos_, t_ in ei.iter_calls():
        if call_matches(t_, r'<impl \[T\]>::get$|SmallVec::<A>::get$|Vec::<T, A>::get$') and t_['args']:
            f_ = _ds(ei, t_['args'][0], depth=10)[2]
            if any(x.endswith('ElementRaw.content') for x in f_):
                lens.append(pos_)
    C.check(bool(nones) and bool(lens) and all(must_pass(ei, (0, 0), [n_], through=set(lens)) for n_ in nones), 'C03-MUST-enumerate', 'ElementsIterator::next|ends-only-at-item-count', 'sub_elements() can end before the index reached the number of content items', '%s:%d' % (ei.file, ei.line))
    # the file-scoped iterator hands out an element only behind the membership test of THAT element: after a foreign subtree was skipped the
    # next candidate is tested again (a result of the inner iterator is never returned as it is)
    fi = P.find('<ArxmlFileElementsDfsIterator as Iterator>::next')
    if fi is None:
        C.anchor_missing('C03-MUST-enumerate', 'ArxmlFileElementsDfsIterator::next')
    else:
        tests = calls(fi, r'impl Element>::file_membership_local$|impl Element>::file_membership$')
        inner = calls(fi, r'ElementsDfsIterator as .*Iterator>::next$|ElementsDfsIterator>?::next_sibling$|impl ElementsDfsIterator>::next_sibling$')
        bad = []
        somes = 0
        for pos, st in fi.iter_stmts():
            if st['k'] == 'assign' and st['dst']['l'] == 0 and not st['dst']['p']:
                rv = st['rv']
                if rv['k'] == 'agg' and rv.get('var') == 'None':
                    continue
                somes += 1
                if rv['k'] == 'agg' and rv.get('var') == 'Some':
                    from pairing import iteration_start
                    if not (tests and must_pass(fi, iteration_start(fi, pos) if E.loops_containing(fi, [pos]) else (0, 0), [pos], through=set(tests))):
                        bad.append(pos)
                else:
                    bad.append(pos)
        for pos, t in fi.iter_calls():
            if t['dst']['l'] == 0 and not t['dst']['p'] and not call_matches(t, r'FromResidual.*::from_residual$'):
                somes += 1
                bad.append(pos)
        C.check(bool(inner) and bool(tests) and somes >= 1 and not bad, 'C03-MUST-enumerate', 'ArxmlFileElementsDfsIterator::next|every-result-passed-the-membership-test', 'the file-scoped depth-first iterator can hand out an element that was not tested for membership in the file '
                '(the candidate found after skipping a foreign subtree is returned as it is): elements of other files show up in file.elements_dfs() and in the serialized text of the file', fi.where(bad[0]) if bad else '%s:%d' % (fi.file, fi.line),
                sample={'fn': 'ArxmlFileElementsDfsIterator::next', 'results': somes, 'membership_tests': len(tests)})
    # a move takes the element out of its old parent before it links it below the new one, on every path (an element listed by two
    # parents is not a tree; the removal must not sit behind a try-lock or a lookup whose failure is ignored)
    for fn in ('ElementRaw::move_element_local', 'ElementRaw::move_element_full'):
        mb = P.get(fn)
        ops_ = E.content_ops(mb)
        ins_ = [o['pos'] for o in ops_ if o['kind'] == 'insert' and o['item'] == 'Element']
        rem_ = [o['pos'] for o in ops_ if o['kind'] == 'remove']
        C.check(bool(ins_) and bool(rem_) and all(must_pass(mb, (0, 0), [i_], through=set(rem_)) for i_ in ins_), 'C03-PAIR-link', '%s|unlinked-from-the-old-parent-before-linked' % fn.split('::')[-1],
                '%s can link the moved element below its new parent on a path on which it was not removed from the content list of its old parent (removal skipped when a lock is not obtained or the element is not found): '
                'the element is then listed by two parents' % fn, mb.where(ins_[0]) if ins_ else '%s:%d' % (mb.file, mb.line), sample={'fn': fn, 'event': 'content.insert(Element)', 'partner': 'old parent content.remove on every path before'})
    # position() and get_sub_element_at() index the same sequence - the content list of the parent, text items of mixed content included
    C.rule('C03-SIB-position', 'Element::position counts over the parent\'s ElementRaw.content itself (not over a filtered view such as sub_elements()), the list that get_sub_element_at / create_*_at / move_*_at index')
    ep = P.get('Element::position')
    ga = P.get('Element::get_sub_element_at')
    FILTERED = r'::(sub_elements|filter|filter_map|flat_map|flatten|skip|skip_while|step_by|elements_dfs\w*)$|ElementsIterator'
    def seq_class(fn_b, rx):
        cls = set()
        for x in P.with_closures(fn_b):
            for q, t in x.iter_calls():
                if call_matches(t, rx) and t['args']:
                    n_, c_, f_ = _ds(x, t['args'][0], depth=12)
                    if any(re.search(FILTERED, c) for c in c_):
                        cls.add('filtered view')
                    elif any(f.endswith('ElementRaw.content') for f in f_):
                        cls.add('content list')
                    else:
                        cls.add('unknown')
        return cls
    pc = seq_class(ep, r'Iterator::(position|rposition|enumerate|find_map|try_fold)$|Iterator>::(position|rposition|enumerate)$')
    gc = seq_class(ga, r'<impl \[T\]>::get$|SmallVec::<A>::get$|Vec::<T, A>::get$|Index<.*>>::index$')
    if not pc:
        # counted by hand: the body reads the content list itself and does not go through the element iterator
        reads = any(is_local_op(pl) and has_field(pl, 'ElementRaw.content') for x in P.with_closures(ep) for _, role, pl, st_ in iter_uses(x))
        pc = {'content list'} if reads and not any(calls(x, FILTERED) for x in P.with_closures(ep)) else {'unknown'}
    C.check(pc == {'content list'} and gc <= {'content list'}, 'C03-SIB-position', 'position|counts-the-list-that-positions-index', 'Element::position counts over %s while get_sub_element_at indexes %s: in a mixed-content element (text between sub elements) '
            'the reported position no longer indexes the element in its parent (parent.get_sub_element_at(e.position()) is another element or None)' % (sorted(pc), sorted(gc) or ['the content list']), '%s:%d' % (ep.file, ep.line),
            sample={'position_counts_over': sorted(pc), 'get_sub_element_at_indexes': sorted(gc)})
    # a file merge never links one element twice: an element of the new file is merged into its counterpart OR imported
    C.rule('C03-DEV-merge-disjoint', 'in merge_element an element of the new file is queued for import only over the false edge of "already paired with a model element": otherwise it would stay a child of its old parent content AND be inserted below the model parent (two parents, subtree visited twice)')
    from c09 import dev_bonly
    dev_bonly(C, P, 'C03-DEV-merge-disjoint')
    return C.finish('Structural necessary conditions of the tree property, decided on the MIR of every body of autosar-data: pairing of '
                    'content-list edits with parent-link edits (dominance / post-dominance on Ok paths), canonical deleted state, '
                    'must-pass-through of liveness funnels for the 23 place-dependent public methods, closed writer set. '
                    'Does not decide agreement of the three DFS iterators with the tree, nor positions.')


def funnel_rejects_none(C, b, name):
    """paths that see ElementOrModel::None or a failed upgrade reach only Err exits."""
    # switch on discriminant of a place ending in ElementRaw.parent
    sws = []
    for pos, s in b.iter_stmts():
        if s['k'] == 'assign' and s['rv']['k'] == 'discr' and has_field(resolve_place(b, s['rv']['pl']), 'ElementRaw.parent'):
            t = b.blocks[pos[0]]['term']
            if t['k'] == 'switch' and is_local_op(t['d']) and t['d']['l'] == s['dst']['l']:
                sws.append((pos, t))
    if len(sws) != 1:
        C.fail('C03-MUST-funnel', '%s|match-on-parent' % name, 'expected exactly one match on the parent link in %s, found %d' % (name, len(sws)))
        return
    pos, t = sws[0]
    d = dict(t['ts'])
    # variant indices: Element=0, Model=1, None=2
    none_t = d.get('2', t['else'])
    oks = [e['pos'] for e in E.result_exits(b) if e['kind'] in ('ok', 'tail', 'value')]
    reach = b.reach_from((none_t, 0), include_start=True)
    hit = [o for o in oks if o in reach]
    C.check(not hit, 'C03-MUST-funnel', '%s|None-arm-is-Err' % name, 'the ElementOrModel::None arm of %s can reach an Ok exit (a deleted element is reported as live)' % name, b.where(pos),
            sample={'funnel': name, 'None arm': 'reaches only Err exits'})
    # failed upgrade: ok_or(ItemDeleted)? -> every call to upgrade is followed by ok_or + Try
    ups = [(p, tt) for p, tt in b.iter_calls() if call_matches(tt, r'WeakElement>::upgrade$|WeakAutosarModel>::upgrade$')]
    for p, tt in ups:
        okk = False
        taint = forward_taint(b, {tt['dst']['l']}, through_refs=False)
        # `upgrade().map(Some).ok_or(ItemDeleted)`: adaptors that keep None keep the obligation
        grew = True
        while grew:
            grew = False
            for p3, t3 in b.iter_calls():
                if call_matches(t3, r'Option::<T>::(map|and_then|filter|cloned|copied|inspect)$') and t3['args'] and is_local_op(t3['args'][0]) and t3['args'][0]['l'] in taint and t3['dst']['l'] not in taint:
                    taint |= forward_taint(b, {t3['dst']['l']}, through_refs=False); grew = True
        for p2, t2 in b.iter_calls():
            if call_matches(t2, r'Option::<.*>::ok_or$|Option::<T>::(ok_or|ok_or_else)$') and any(is_local_op(a) and a['l'] in taint for a in t2['args']):
                okk = True
        # the same adaptor inside an inlined helper is expanded to its dispatch (inline._expand_ok_or): the discriminant read of the Option
        for p2, s2 in b.iter_stmts():
            if s2.get('inl') == 'comb' and s2['k'] == 'assign' and s2['rv']['k'] == 'discr' and s2['rv']['pl']['l'] in taint:
                okk = True
        C.check(okk, 'C03-MUST-funnel', '%s|upgrade-failure-is-Err' % name, 'a failed upgrade of the parent link is not turned into an error in %s' % name, b.where(p))


def guarded_by_cdata_match(b, pos):
    """the removal is dominated by the CharacterData edge of a match on an item of the same content list."""
    from flow import deep_sources as _dsg, must_pass as _mp
    for p, s in b.iter_stmts():
        if s['k'] != 'assign' or s['rv']['k'] != 'discr':
            continue
        pl = s['rv']['pl']
        direct = has_field(resolve_place(b, pl), 'ElementRaw.content')
        # the item may come from `content.get(position)`: an &ElementContent whose provenance is the content list
        via_get = (not direct) and 'ElementContent' in (b.local_ty(pl['l']) or '') and 'ElementRaw.content' in _dsg(b, {'l': pl['l'], 'p': []}, depth=12)[2]
        if not (direct or via_get):
            continue
        t = b.blocks[p[0]]['term']
        if t['k'] == 'switch':
            d = dict(t['ts'])
            tgt = d.get('1')  # ElementContent::CharacterData = variant 1
            if tgt is None or t['else'] == tgt:
                continue
            if b.pos_dominates((tgt, 0), pos):
                return True
            # `if !matches!(item, Some(CharacterData(_))) { return Err }`: the removal is unreachable once the CharacterData edge is cut
            # (variant- and flag-sensitive walk: the other arms set the flag to false, which leads to the early return)
            if _mp(b, (0, 0), [pos], through=(), avoid_edges={(p[0], tgt)}, precise=True):
                return True
    return False


def no_element_children_guard(b, pos):
    """the whole-list replacement is control dependent on a test that the list holds no Element item:
    accepted idioms: dominated by the false edge of `content.iter().any(|c| matches!(c, Element(_)))`, the true edge of
    `.all(|c| matches!(c, CharacterData(_)))`, or by `content_mode == Characters`-only gating with no Mixed alternative."""
    for p, t in b.iter_calls():
        if call_matches(t, r'Iterator>::(any|all)') and b.pos_dominates(p, pos):
            return True
        if call_matches(t, r'sub_elements$') and b.pos_dominates(p, pos):
            return True
    return False


def raw_setter_callers(P):
    tgt = {P.get('ElementRaw::set_character_data_internal').id}
    wrappers = {b.id for b in P.bodies.values() if b.short.startswith('ElementRaw::set_character_data') and b.short != 'ElementRaw::set_character_data_internal'}
    # generic wrapper set_character_data<T>: callers of it
    out = set()
    for b in P.bodies.values():
        for pos, t in b.iter_calls():
            c = callee_of(t) or ''
            g = t['f'].get('fn', '')
            if (c in tgt or c in wrappers or g in wrappers) and b.id not in wrappers:
                out.add(b.short)
    return out

"""ledger.py - shared driver for the closed panic ledger, loop-progress and recursion rules (C02, C12)."""
import json, os
from collections import defaultdict
import panics as PN
from framework import VERIF

LOOP_REVIEWED = {
    'Element::model': 'walks the parent chain (cur_elem := upgraded parent); terminates because the hierarchy is a tree (C03): each step moves one level up',
    'ElementRaw::path_unchecked': 'walks the parent chain (cur_elem_opt := parent); tree (C03)',
    'ElementRaw::xml_path': 'walks the parent chain; tree (C03)',
    'ElementRaw::make_unique_item_name': 'counter loop: every miss changes the probed path (name_<counter>); the index is finite',
}
RECURSION_BOUNDED = {
    'ElementType::find_sub_element_internal': 'recursion over the group graph of the specification: acyclic with measured nesting depth (C18-DATA-wellformed)',
    '<SubelemDefinitionsIter as Iterator>::next': 'self.next() after pushing/popping one level of the group graph: bounded by the group nesting depth (C18-DATA-wellformed)',
}


def load_table():
    d = json.load(open(os.path.join(VERIF, 'tables', 'panic_ledger.json')))
    tab = {}
    for e in d['entries']:
        fn, kind, desc, count, why = e[:5]
        tab[(fn, kind, desc)] = (count, why, False, e[5] if len(e) > 5 else [])
    for e in d.get('findings', []):
        fn, kind, desc, count, why = e[:5]
        tab[(fn, kind, desc)] = (count, why, True, [])
    return tab


def cmp_vars(b, st, depth=2):
    """variable names (and integer constants, as '#<n>') involved in a comparison statement, looking through one level of arithmetic / calls"""
    from flow import source_names, origins, is_local_op, const_val
    import re as _re
    out = set()

    def add(o, d):
        if not is_local_op(o):
            v = const_val(o)
            m = _re.match(r'^(\d+)', str(v)) if v is not None else None
            if m:
                out.add('#' + m.group(1))
            return
        out.update(source_names(b, o))
        if d <= 0:
            return
        for org in origins(b, o):
            if org[0] in ('param', 'const'):
                continue
            if org[0] == 'place':
                out.update(source_names(b, {'l': org[1]['l'], 'p': []}))
                # `_t.0` of a checked arithmetic: look at the operands of the statement that defines _t
                from flow import defs_of
                for p2, s3 in defs_of(b, org[1]['l']):
                    if s3.get('k') == 'assign' and s3['rv']['k'] == 'bin':
                        add(s3['rv']['a'], d - 1); add(s3['rv']['b'], d - 1)
                continue
            s2 = org[1]
            if s2.get('k') == 'assign' and s2['rv']['k'] == 'bin':
                add(s2['rv']['a'], d - 1); add(s2['rv']['b'], d - 1)
            elif s2.get('k') == 'assign' and s2['rv']['k'] == 'un':
                add(s2['rv']['o'], d - 1)
            elif s2.get('k') == 'call':
                for a in s2['args']:
                    add(a, d - 1)
    add(st['rv']['a'], depth)
    add(st['rv']['b'], depth)
    return out


FLIP = {'Lt': 'Gt', 'Gt': 'Lt', 'Le': 'Ge', 'Ge': 'Le', 'Eq': 'Eq', 'Ne': 'Ne'}
NEG = {'Lt': 'Ge', 'Ge': 'Lt', 'Gt': 'Le', 'Le': 'Gt', 'Eq': 'Ne', 'Ne': 'Eq'}


def same_test(op):
    """the operators that express the same test as `a <op> b` with the operands swapped and / or the branches exchanged
    (`if i < n { use } else { err }`  ==  `if i >= n { return err } use`)"""
    return {op, FLIP.get(op), NEG.get(op), FLIP.get(NEG.get(op))}


def requirement_holds(P, b, req, site=None):
    """guard fact of a reviewed discharge.  `a||b`: either.  A variable name that no longer exists in the function (renamed) is
    replaced by the names of the operands of the site itself."""
    import re
    from flow import call_matches
    if '||' in req:
        return any(requirement_holds(P, b, r, site) for r in req.split('||'))
    bodies = P.with_closures(b)
    kind, _, rest = req.partition(':')
    if kind == 'call':
        return any(call_matches(t, rest) for x in bodies for pos, t in x.iter_calls())
    if kind == 'noloop-after':
        # after every call matching <rx> the enclosing loop is left (the function returns / breaks): the loop head is not reachable again
        ok_any = False
        for x in bodies:
            for pos, t in x.iter_calls():
                if call_matches(t, rest):
                    ok_any = True
                    for h, body in x.natural_loops():
                        if pos[0] in body and (h, 0) in x.reach_from(pos):
                            return False
        return ok_any
    if kind == 'cmpcall':
        # a comparison <op> one of whose operands is the result of a call matching <rx> (e.g. `index < list.len()`)
        op, _, rx = rest.partition(':')
        from flow import origins, is_local_op
        for x in bodies:
            for pos, st in x.iter_stmts():
                if st['k'] == 'assign' and st['rv']['k'] == 'bin' and st['rv']['op'] in same_test(op):
                    for o in (st['rv']['a'], st['rv']['b']):
                        if is_local_op(o):
                            for org in origins(x, o):
                                if org[0] not in ('param', 'const', 'place') and isinstance(org[1], dict) and org[1].get('k') == 'call' and call_matches(org[1], rx):
                                    return True
        return False
    if kind == 'cmp':
        op, _, var = rest.partition(':')
        var, _, const = var.partition(':')
        wanted = {var}
        if site is not None and not any(var in x.names.values() for x in bodies):
            wanted = site.operand_names()       # the variable was renamed: the guard must then be about an operand of the site
        for x in bodies:
            for pos, st in x.iter_stmts():
                if st['k'] == 'assign' and st['rv']['k'] == 'bin' and st['rv']['op'] in same_test(op):
                    cv = cmp_vars(x, st)
                    if (wanted & cv) and (not const or ('#' + const) in cv):
                        return True
        return False
    return False


def run_ledger(C, P, rule, entry_ids, label):
    cl = PN.closure_of(P, entry_ids)
    tab = load_table()
    sites = []
    for bid in sorted(cl):
        sites += PN.sites_in_body(P.bodies[bid])
    n_auto = defaultdict(int)
    n_rev = 0
    groups = defaultdict(list)
    total = None
    for s in sites:
        d = PN.auto_discharge(s)
        if not d:
            import re as _re
            m = _re.match(r'^regex::(validate_regex_\d+)(::\{[^{}]*\})*$', s.b.short)
            if m:
                if total is None:
                    import c19
                    total = c19.total_validators(P.facts_dir)
                if m.group(1) in total:
                    d = 'c19-total: %s is proven to be defined on every byte string (C19: true and false languages cover all inputs / table well formed)' % m.group(1)
        if d:
            n_auto[d.split(':')[0]] += 1
            C.ok(rule, s.key(), d, sample={'site': s.key(), 'at': s.where(), 'discharge': d.split(':')[0]} if sum(n_auto.values()) % 40 == 1 else None)
            continue
        groups[(s.b.short, s.kind, s.desc)].append(s)
    # rename tolerance: a group whose description is not in the table is matched with the table entries of the same function and
    # kind whose description differs only in the names of local variables - if that pairing is unambiguous
    canon_tab = defaultdict(list)
    for (fn, kind, desc), ent in tab.items():
        canon_tab[(fn, kind, PN.canon_desc(desc))].append((desc, ent))
    import re as _re2
    for key in list(groups):
        if key in tab:
            continue
        fn, kind, desc = key
        # a site inside a closure of F (code moved into an iterator adaptor) is matched with the entries of F itself
        base_fn = _re2.sub(r'(::\{[^{}]*\})+$', '', fn)
        if base_fn != fn:
            # ... as far as these entries are not used up by the function's own sites (a site that moved into the closure frees one)
            alt = [(d, e) for d, e in canon_tab.get((base_fn, kind, PN.canon_desc(desc)), []) if len(groups.get((base_fn, kind, d), [])) + len(groups[key]) <= e[0]]
            if len(alt) == 1:
                tab[key] = alt[0][1]
                continue
        cands = [(d, e) for d, e in canon_tab.get((fn, kind, PN.canon_desc(desc)), []) if (fn, kind, d) not in groups]
        others = [k for k in groups if k != key and k not in tab and k[0] == fn and k[1] == kind and PN.canon_desc(k[2]) == PN.canon_desc(desc)]
        if len(cands) == 1 and not others:
            tab[key] = cands[0][1]
    for key, ss in sorted(groups.items()):
        ent = tab.get(key)
        for rank, s in enumerate(sorted(ss, key=lambda x: x.ordinal)):
            if ent and rank < ent[0]:
                gb = s.b
                if gb.kind == 'Closure' and getattr(gb, 'enclosing', None) in P.bodies:
                    gb = P.bodies[gb.enclosing]
                lost = [r for r in ent[3] if not requirement_holds(P, gb, r, s)]
                if lost:
                    C.fail(rule, s.key() + '|guard-lost', 'the reviewed discharge of this site relies on a guard that is no longer present in %s (%s): %s' % (s.b.short, ', '.join(lost), ent[1]), s.where())
                elif ent[2] and rule.startswith('C02'):
                    n_rev += 1
                    C.ok(rule, s.key(), 'reviewed: inside the loader this is called only with positions just returned by find_sub_element on the same type (the public-API misuse is reported under C12)')
                elif ent[2]:
                    C.fail(rule, s.key(), 'panic reachable through the public API: %s' % ent[1], s.where())
                else:
                    n_rev += 1
                    C.ok(rule, s.key(), 'reviewed: ' + ent[1], sample={'site': s.key(), 'at': s.where(), 'discharge': 'reviewed', 'guard': ent[1]} if n_rev % 25 == 1 else None)
            else:
                C.fail(rule, s.key(), 'panic-capable operation (%s) reachable from %s without a discharge: not covered by an automatic rule and not in the reviewed ledger%s' % (
                    s.kind, label, ' (the ledger reviews %d such sites in this function, this is one more)' % ent[0] if ent else ''), s.where())
    C.extra['%s_closure_bodies' % rule] = len(cl)
    C.extra['%s_sites' % rule] = len(sites)
    C.extra['%s_auto' % rule] = dict(n_auto)
    C.extra['%s_reviewed' % rule] = n_rev
    return cl, sites


def run_progress(C, P, rule, cl):
    n = 0
    for bid in sorted(cl):
        b = P.bodies[bid]
        for h, ok, ev in PN.loop_progress(b):
            n += 1
            key = '%s|loop#bb-header|vars=%s' % (b.short, ','.join(ev)[:60])
            if ok:
                C.ok(rule, '%s|loop%d' % (b.short, n), 'progress event on every cycle', sample={'fn': b.short, 'loop_exit_vars': ev} if n % 20 == 0 else None)
            elif b.short in LOOP_REVIEWED:
                C.ok(rule, '%s|loop|reviewed' % b.short, LOOP_REVIEWED[b.short])
            else:
                C.fail(rule, '%s|loop-without-progress|vars=%s' % (b.short, ','.join(ev)[:60]),
                       'a loop has a cycle on which neither an iterator is advanced nor a variable of its exit test is assigned (possible hang)', b.where((h, 0)))
    return n


def run_recursion(C, P, rule, cl):
    sccs = PN.recursion_sccs(P, cl)
    for comp in sccs:
        names = sorted(P.bodies[x].short for x in comp)
        key = '+'.join(names)
        import re as _re
        # a closure belongs to its function: `iter().find_map(|..| self.f(..))` is the recursion of f
        base = sorted({_re.sub(r'(::\{closure#\d+\})+$', '', n) for n in names})
        names = base
        key = '+'.join(names)
        if all(n in RECURSION_BOUNDED for n in names):
            C.ok(rule, key + '|bounded', RECURSION_BOUNDED[names[0]])
        else:
            C.fail(rule, key + '|depth-is-input-controlled', 'recursion whose depth equals the nesting depth of the document / element tree (unbounded, input controlled): deep nesting exhausts the stack and aborts the process',
                   '%s:%d' % (P.bodies[comp[0]].file, P.bodies[comp[0]].line))
    return sccs

"""automata.py - regular languages over the 256-byte alphabet: regex -> NFA -> DFA, boolean ops, equivalence.

DFA: complete, deterministic; alphabet compressed into byte classes.
   cls   : list of 256 ints  (byte -> class id)
   trans : list (state) of list (class) of state
   start : int ; acc : set of states
"""
from collections import deque

ALL = frozenset(range(256))


# ------------------------------------------------------------------ regex AST
# ('set', frozenset(bytes)) | ('cat', [..]) | ('alt', [..]) | ('star', x) | ('rep', x, lo, hi|None) | ('eps',) | ('dfa', DFA)

def lit(bs):
    return ('cat', [('set', frozenset([b])) for b in bs]) if len(bs) != 1 else ('set', frozenset([bs[0]]))


EPS = ('eps',)
EMPTY = ('set', frozenset())


class RegexError(Exception):
    pass


def parse_regex(src, dot=None):
    """XSD-style regex subset, anchored.  `dot`: byte set matched by '.', default all bytes except \\n and \\r."""
    if dot is None:
        dot = ALL - {10, 13}
    s = src
    pos = [0]

    def peek():
        return s[pos[0]] if pos[0] < len(s) else None

    def eat():
        c = s[pos[0]]
        pos[0] += 1
        return c

    def esc_set(c):
        if c == 'd':
            return frozenset(range(48, 58))
        if c == 'w':
            return frozenset(list(range(48, 58)) + list(range(65, 91)) + list(range(97, 123)) + [95])
        if c == 's':
            return frozenset([32, 9, 10, 13])
        if c == 'n':
            return frozenset([10])
        if c == 'r':
            return frozenset([13])
        if c == 't':
            return frozenset([9])
        if c.isalnum():
            raise RegexError('unsupported escape \\%s' % c)
        return frozenset([ord(c)])

    def parse_class():
        neg = False
        if peek() == '^':
            eat()
            neg = True
        items = set()
        first = True
        while True:
            c = peek()
            if c is None:
                raise RegexError('unterminated class')
            if c == ']' and not first:
                eat()
                break
            first = False
            c = eat()
            if c == '\\':
                st = esc_set(eat())
                if len(st) != 1:
                    items |= st
                    continue
                lo = next(iter(st))
            else:
                lo = ord(c)
                if lo > 255:
                    raise RegexError('non-latin1 char in class')
            if peek() == '-' and pos[0] + 1 < len(s) and s[pos[0] + 1] != ']':
                eat()
                c2 = eat()
                if c2 == '\\':
                    st = esc_set(eat())
                    if len(st) != 1:
                        raise RegexError('bad range end')
                    hi = next(iter(st))
                else:
                    hi = ord(c2)
                if hi < lo:
                    raise RegexError('reversed range')
                items |= set(range(lo, hi + 1))
            else:
                items.add(lo)
        fs = frozenset(items)
        return ('set', (ALL - fs) if neg else fs)

    def parse_atom():
        c = eat()
        if c == '(':
            if s[pos[0]:pos[0] + 2] == '?:':
                pos[0] += 2
            r = parse_alt()
            if peek() != ')':
                raise RegexError('missing )')
            eat()
            return r
        if c == '[':
            return parse_class()
        if c == '.':
            return ('set', frozenset(dot))
        if c == '\\':
            return ('set', esc_set(eat()))
        if c in '*+?{':
            raise RegexError('dangling quantifier %s' % c)
        if c in '^$':
            raise RegexError('anchor inside pattern')
        o = ord(c)
        if o > 127:
            return lit(list(c.encode('utf-8')))
        return ('set', frozenset([o]))

    def parse_quant():
        a = parse_atom()
        while True:
            c = peek()
            if c == '*':
                eat(); a = ('star', a)
            elif c == '+':
                eat(); a = ('rep', a, 1, None)
            elif c == '?':
                eat(); a = ('rep', a, 0, 1)
            elif c == '{':
                j = s.index('}', pos[0])
                body = s[pos[0] + 1:j]
                pos[0] = j + 1
                if ',' in body:
                    lo_s, hi_s = body.split(',', 1)
                    lo = int(lo_s) if lo_s.strip() else 0
                    hi = int(hi_s) if hi_s.strip() else None
                else:
                    lo = hi = int(body)
                a = ('rep', a, lo, hi)
            else:
                return a

    def parse_cat():
        items = []
        while peek() is not None and peek() not in '|)':
            items.append(parse_quant())
        if not items:
            return EPS
        return ('cat', items) if len(items) > 1 else items[0]

    def parse_alt():
        alts = [parse_cat()]
        while peek() == '|':
            eat()
            alts.append(parse_cat())
        return ('alt', alts) if len(alts) > 1 else alts[0]

    if s.startswith('^'):
        s = s[1:]
    if s.endswith('$') and not s.endswith('\\$'):
        s = s[:-1]
    r = parse_alt()
    if pos[0] != len(s):
        raise RegexError('trailing input at %d in %r' % (pos[0], s))
    return r


# ------------------------------------------------------------------ NFA (Thompson)
class NFA:
    def __init__(self):
        self.eps = []    # state -> list of states
        self.tr = []     # state -> list of (frozenset(bytes), target)

    def new(self):
        self.eps.append([])
        self.tr.append([])
        return len(self.eps) - 1

    def build(self, r):
        """returns (start, end) fragment"""
        k = r[0]
        if k == 'eps':
            a = self.new(); b = self.new(); self.eps[a].append(b); return a, b
        if k == 'set':
            a = self.new(); b = self.new()
            if r[1]:
                self.tr[a].append((r[1], b))
            return a, b
        if k == 'cat':
            a, b = self.build(r[1][0])
            for x in r[1][1:]:
                c, d = self.build(x)
                self.eps[b].append(c)
                b = d
            return a, b
        if k == 'alt':
            a = self.new(); b = self.new()
            for x in r[1]:
                c, d = self.build(x)
                self.eps[a].append(c); self.eps[d].append(b)
            return a, b
        if k == 'star':
            a = self.new(); b = self.new()
            c, d = self.build(r[1])
            self.eps[a] += [c, b]; self.eps[d] += [c, b]
            return a, b
        if k == 'rep':
            _, x, lo, hi = r
            items = [x] * lo
            if hi is None:
                items.append(('star', x))
            else:
                opt = None
                for _i in range(hi - lo):
                    opt = ('alt', [EPS, ('cat', [x, opt]) if opt else x])
                if opt:
                    items.append(opt)
            if not items:
                return self.build(EPS)
            return self.build(('cat', items) if len(items) > 1 else items[0])
        if k == 'dfa':
            d = r[1]
            base = [self.new() for _ in range(len(d.trans))]
            end = self.new()
            bycls = {}
            for byte, c in enumerate(d.cls):
                bycls.setdefault(c, set()).add(byte)
            for q, row in enumerate(d.trans):
                tgt = {}
                for c, t in enumerate(row):
                    tgt.setdefault(t, set()).update(bycls.get(c, ()))
                for t, bs in tgt.items():
                    if bs:
                        self.tr[base[q]].append((frozenset(bs), base[t]))
                if q in d.acc:
                    self.eps[base[q]].append(end)
            return base[d.start], end
        raise ValueError(r)


def byte_classes(sets):
    """partition 0..255 by membership signature in the given byte sets."""
    sig = {}
    cls = [0] * 256
    for b in range(256):
        key = tuple(b in s for s in sets)
        if key not in sig:
            sig[key] = len(sig)
        cls[b] = sig[key]
    return cls, len(sig)


class DFA:
    def __init__(self, cls, trans, start, acc):
        self.cls = cls
        self.trans = trans
        self.start = start
        self.acc = set(acc)
        self.ncls = (max(cls) + 1) if cls else 0

    # ---- construction
    @staticmethod
    def from_regex(r):
        n = NFA()
        a, b = n.build(r)
        return DFA.from_nfa(n, a, {b})

    @staticmethod
    def from_nfa(n, start, accepts):
        sets = []
        seen = set()
        for row in n.tr:
            for bs, _ in row:
                if bs not in seen:
                    seen.add(bs); sets.append(bs)
        cls, ncls = byte_classes(sets)
        rep = {}
        for b in range(256):
            rep.setdefault(cls[b], b)

        def closure(S):
            st = list(S); out = set(S)
            while st:
                q = st.pop()
                for t in n.eps[q]:
                    if t not in out:
                        out.add(t); st.append(t)
            return frozenset(out)
        s0 = closure({start})
        ids = {s0: 0}
        trans = []
        acc = set()
        dq = deque([s0])
        order = [s0]
        while dq:
            S = dq.popleft()
            row = []
            for c in range(ncls):
                byte = rep[c]
                T = set()
                for q in S:
                    for bs, t in n.tr[q]:
                        if byte in bs:
                            T.add(t)
                T = closure(T)
                if T not in ids:
                    ids[T] = len(ids); dq.append(T); order.append(T)
                row.append(ids[T])
            trans.append(row)
        for S, i in ids.items():
            if S & set(accepts):
                acc.add(i)
        # rows were appended in BFS pop order == id order
        return DFA(cls, trans, 0, acc).minimize()

    @staticmethod
    def from_table(rows, start, acc, dead=255):
        """rows: list of 256-int lists; entries == dead go to a sink."""
        n = len(rows)
        sink = n
        sets = []
        sigs = {}
        cls = [0] * 256
        for b in range(256):
            key = tuple(r[b] for r in rows)
            if key not in sigs:
                sigs[key] = len(sigs)
            cls[b] = sigs[key]
        ncls = len(sigs)
        rep = {}
        for b in range(256):
            rep.setdefault(cls[b], b)
        trans = []
        for r in rows:
            trans.append([sink if r[rep[c]] == dead else r[rep[c]] for c in range(ncls)])
        trans.append([sink] * ncls)
        return DFA(cls, trans, start, set(acc))

    @staticmethod
    def universal():
        return DFA([0] * 256, [[0]], 0, {0})

    @staticmethod
    def empty():
        return DFA([0] * 256, [[0]], 0, set())

    # ---- operations
    def complement(self):
        return DFA(self.cls, self.trans, self.start, set(range(len(self.trans))) - self.acc)

    def product(self, o, accf):
        pair = {}
        cls = [0] * 256
        for b in range(256):
            k = (self.cls[b], o.cls[b])
            if k not in pair:
                pair[k] = len(pair)
            cls[b] = pair[k]
        pairs = sorted(pair.items(), key=lambda kv: kv[1])
        ids = {(self.start, o.start): 0}
        dq = deque([(self.start, o.start)])
        trans = []
        acc = set()
        while dq:
            a, b = dq.popleft()
            i = ids[(a, b)]
            if accf(a in self.acc, b in o.acc):
                acc.add(i)
            row = []
            for (c1, c2), _ in pairs:
                t = (self.trans[a][c1], o.trans[b][c2])
                if t not in ids:
                    ids[t] = len(ids); dq.append(t)
                row.append(ids[t])
            trans.append(row)
        return DFA(cls, trans, 0, acc)

    def intersect(self, o):
        return self.product(o, lambda x, y: x and y).minimize()

    def union(self, o):
        return self.product(o, lambda x, y: x or y).minimize()

    def minus(self, o):
        return self.product(o, lambda x, y: x and not y).minimize()

    def concat(self, o):
        return DFA.from_regex(('cat', [('dfa', self), ('dfa', o)]))

    def is_empty(self):
        return self.shortest() is None

    def shortest(self):
        """shortest accepted byte string or None."""
        rep = {}
        for b in range(256):
            rep.setdefault(self.cls[b], b)
        prev = {self.start: None}
        dq = deque([self.start])
        while dq:
            q = dq.popleft()
            if q in self.acc:
                out = []
                while prev[q] is not None:
                    q, byte = prev[q]
                    out.append(byte)
                return bytes(reversed(out))
            for c, t in enumerate(self.trans[q]):
                if t not in prev:
                    prev[t] = (q, rep[c])
                    dq.append(t)
        return None

    def equiv(self, o):
        """(True, None) or (False, shortest distinguishing string, in_self)"""
        d = self.product(o, lambda x, y: x != y)
        w = d.shortest()
        if w is None:
            return True, None, None
        return False, w, self.accepts(w)

    def accepts(self, w):
        q = self.start
        for b in w:
            q = self.trans[q][self.cls[b]]
        return q in self.acc

    def minimize(self):
        # remove unreachable, then Moore partition refinement
        reach = {self.start}
        st = [self.start]
        while st:
            q = st.pop()
            for t in self.trans[q]:
                if t not in reach:
                    reach.add(t); st.append(t)
        states = sorted(reach)
        part = {q: (1 if q in self.acc else 0) for q in states}
        while True:
            sig = {}
            newp = {}
            for q in states:
                k = (part[q],) + tuple(part[t] for t in self.trans[q])
                if k not in sig:
                    sig[k] = len(sig)
                newp[q] = sig[k]
            if len(sig) == len(set(part.values())):
                part = newp
                break
            part = newp
        n = len(set(part.values()))
        trans = [None] * n
        acc = set()
        for q in states:
            p = part[q]
            if trans[p] is None:
                trans[p] = [part[t] for t in self.trans[q]]
            if q in self.acc:
                acc.add(p)
        # merge equivalent byte classes
        ncls = self.ncls
        csig = {}
        cmap = {}
        for c in range(ncls):
            k = tuple(row[c] for row in trans)
            if k not in csig:
                csig[k] = len(csig)
            cmap[c] = csig[k]
        cls = [cmap[c] for c in self.cls]
        keep = {}
        for c in range(ncls):
            keep.setdefault(cmap[c], c)
        trans2 = [[row[keep[nc]] for nc in range(len(csig))] for row in trans]
        return DFA(cls, trans2, part[self.start], acc)

    def nstates(self):
        return len(self.trans)

    def canon_hash(self):
        """hash of the canonical form of the minimal DFA (BFS numbering over bytes 0..255): identifies the language."""
        import hashlib
        d = self.minimize()
        num = {d.start: 0}
        order = [d.start]
        i = 0
        h = hashlib.sha256()
        while i < len(order):
            q = order[i]; i += 1
            row = []
            for b in range(256):
                t = d.trans[q][d.cls[b]]
                if t not in num:
                    num[t] = len(num); order.append(t)
                row.append(num[t])
            h.update(repr((q in d.acc, row)).encode())
        return h.hexdigest()[:12]


def regex_dfa(src, dot=None):
    return DFA.from_regex(parse_regex(src, dot))


def set_star(bs):
    return DFA.from_regex(('star', ('set', frozenset(bs))))


def show(w):
    if w is None:
        return None
    return ''.join(chr(b) if 32 <= b < 127 and b not in (34, 92) else '\\x%02x' % b for b in w)

"""C02 - the loader is total: closed ledger of panic-capable operations reachable from the loader entry points,
loop progress, recursion, error line provenance, header probe is a prefix of the loader."""
from ir import Program, callee_of, has_field, ends_in_field
from flow import origins, is_local_op, call_matches, iter_uses, const_val, strict_source_roots, source_names
from framework import Check
import ledger as LG
import events as E

ENTRIES = ['AutosarModel::load_buffer', 'AutosarModel::load_file', 'autosar_data::check_buffer', 'autosar_data::check_file']


def run(ctx):
    C = Check('C02', ctx['tier'], 'other', ctx['seed'])
    P = Program(ctx['facts'])
    C.rule('C02-LEDGER-panic', 'closed world: every Assert terminator and every call of a panicking std/smallvec entry point reachable from load_buffer/load_file/check_buffer/check_file is enumerated and must be discharged by an automatic rule (dominating compare, usize+small const, table index proven by C18, ...) or by a reviewed entry of tables/panic_ledger.json')
    C.rule('C02-FLOW-progress', 'every natural loop in the loader closure advances an iterator or assigns a variable of its exit test on every cycle')
    C.rule('C02-FLOW-recursion', 'call-graph SCCs in the loader closure: recursion depth must be bounded by the specification, not by the input')
    C.rule('C02-WHO-line', 'tokenizer/parser errors are built only by the four error funnels from the live line counter, which starts at 1 and only grows by counted newline bytes')
    C.rule('C02-SIB-header', 'check_arxml_header performs a prefix of parse_arxml\'s steps on the whole buffer with strict = false')
    C.assumptions = ['the guard text of a reviewed ledger entry is trusted (value reasoning); the check decides the enumeration', 'usize arithmetic on positions/lengths of in-memory buffers cannot wrap (objects <= isize::MAX)']
    try:
        entry = [P.get(x).id for x in ENTRIES]
    except KeyError as e:
        C.anchor_missing('C02-LEDGER-panic', str(e))
        return C.finish('fail closed')
    cl, sites = LG.run_ledger(C, P, 'C02-LEDGER-panic', entry, 'the loader entry points')
    C.floor('C02-LEDGER-panic.sites', len(sites), 150)
    n = LG.run_progress(C, P, 'C02-FLOW-progress', cl)
    C.floor('C02-FLOW-progress.loops', n, 30)
    LG.run_recursion(C, P, 'C02-FLOW-recursion', cl)
    # the loader never blocks on a lock its own call chain holds (model / file / element lock taken again, one of them exclusive)
    C.rule('C02-FLOW-selflock', 'no function of the loader closure acquires (blocking) a lock that its call chain already holds with one of the two acquisitions exclusive: parking_lot locks are not reentrant, the load would never return')
    from locks import LockGraph, own_str
    G = LockGraph(P)
    shorts = {P.bodies[x].short for x in cl}
    nl = 0
    seen_l = set()
    for e in G.edges:
        if e['fn'] not in shorts:
            continue
        h, a = e['held'], e['acq']
        if a.kind != 'blocking' or h.cls != a.cls or not (h.mode == 'W' or a.mode == 'W'):
            continue
        nl += 1
        if e['rel'] in ('same',) or (h.cls == 'Element' and e['rel'] == 'same?'):
            k = '%s|held=%s@%s|acq=%s@%s|same' % (e['fn'], h.desc(), own_str(h.own), a.desc(), own_str(a.own))
            if k not in seen_l:
                seen_l.add(k)
                C.fail('C02-FLOW-selflock', k, 'the loader takes the %s lock again (%s) while its own call chain holds it (%s): the call never returns' % (h.cls.lower(), a.mode, h.mode), e['where'])
    if not seen_l:
        C.ok('C02-FLOW-selflock', 'loader-closure', '%d same-class nested acquisitions with an exclusive side examined, none on the same object' % nl, sample={'examined_edges': nl})

    # ---- WHO-line ----------------------------------------------------------------------------------
    funnels = {'ArxmlLexer::error', 'ArxmlLexer::read_comment', 'ArxmlParser::error', 'ArxmlParser::optional_error'}
    n_err = 0
    for b in P.bodies.values():
        if b.crate != 'autosar_data':
            continue
        for pos, s in b.iter_stmts():
            if s['k'] == 'assign' and s['rv']['k'] == 'agg' and s['rv'].get('adt') == 'AutosarDataError' and s['rv'].get('var') in ('LexerError', 'ParserError'):
                n_err += 1
                ok = b.short in funnels
                f = dict(zip(s['rv']['fields'], s['rv']['ops']))
                org = origins(b, f['line'])
                fld = 'ArxmlLexer.line' if s['rv']['var'] == 'LexerError' else 'ArxmlParser.line'
                ok2 = any(o[0] == 'place' and has_field(o[1], fld) for o in org)
                C.check(ok and ok2, 'C02-WHO-line', '%s|builds:%s' % (b.short, s['rv']['var']),
                        'a %s is built outside the error funnels or with a line that is not the live counter (%s)' % (s['rv']['var'], org), b.where(pos),
                        sample={'fn': b.short, 'error': s['rv']['var'], 'line_from': fld})
    C.floor('C02-WHO-line.errors', n_err, 4)
    n_w = 0
    for b in P.bodies.values():
        if b.crate != 'autosar_data':
            continue
        for pos, s in b.iter_stmts():
            if s['k'] != 'assign':
                continue
            for fld in ('ArxmlLexer.line', 'ArxmlParser.line'):
                if ends_in_field(s['dst'], fld):
                    n_w += 1
                    ok = False
                    why = ''
                    if fld == 'ArxmlParser.line':
                        ok = b.short == 'ArxmlParser::next'
                        why = 'copied from the lexer result'
                    else:
                        # line := line + (1 | count_lines(..)) : the store's source is the .0 of an AddWithOverflow on the field
                        # (builds without overflow checks store the plain Add directly)
                        if s['rv']['k'] == 'bin' and 'Add' in s['rv']['op']:
                            a, c = s['rv']['a'], s['rv']['b']
                            from_line = any(is_local_op(x) and has_field(x, fld) for x in (a, c)) or any(
                                o2[0] == 'place' and has_field(o2[1], fld) for x in (a, c) if is_local_op(x) for o2 in origins(b, x))
                            inc_ok = any(const_val(x) == '1_usize' for x in (a, c)) or any(
                                o2[0] not in ('param', 'const', 'place') and o2[1].get('k') == 'call' and call_matches(o2[1], r'lexer::count_lines$') for x in (a, c) if is_local_op(x) for o2 in origins(b, x))
                            ok = from_line and inc_ok
                            why = 'line + 1 / line + count_lines(consumed text)'
                        for org in origins(b, s['rv']['o']) if s['rv']['k'] == 'use' else []:
                            if org[0] == 'place' and org[1]['p'] == ['.0']:
                                tl = org[1]['l']
                                for p3, s3 in b.iter_stmts():
                                    if s3['k'] == 'assign' and s3['dst']['l'] == tl and s3['rv']['k'] == 'bin' and 'Add' in s3['rv']['op']:
                                        a, c = s3['rv']['a'], s3['rv']['b']
                                        from_line = any(is_local_op(x) and has_field(x, fld) for x in (a, c)) or any(
                                            o2[0] == 'place' and has_field(o2[1], fld) for x in (a, c) if is_local_op(x) for o2 in origins(b, x))
                                        inc_ok = any(const_val(x) == '1_usize' for x in (a, c)) or any(
                                            o2[0] not in ('param', 'const', 'place') and o2[1].get('k') == 'call' and call_matches(o2[1], r'lexer::count_lines$') for x in (a, c) if is_local_op(x) for o2 in origins(b, x))
                                        ok = from_line and inc_ok
                                        why = 'line + 1 / line + count_lines(consumed text)'
                    C.check(ok, 'C02-WHO-line', '%s|writes:%s' % (b.short, fld), 'the line counter is written in an unexpected way in %s' % b.short, b.where(pos),
                            sample={'fn': b.short, 'write': fld, 'shape': why})
            if s['rv']['k'] == 'agg' and s['rv'].get('adt') in ('ArxmlLexer', 'ArxmlParser'):
                f = dict(zip(s['rv']['fields'], s['rv']['ops']))
                C.check(const_val(f['line']) == '1_usize', 'C02-WHO-line', '%s|init-line' % b.short, 'the line counter does not start at 1', b.where(pos))
    C.floor('C02-WHO-line.writes', n_w, 5)
    # the increment by 1 happens under the == b'\n' test
    rc = P.get('ArxmlLexer::read_characters')

    # ---- SIB-header --------------------------------------------------------------------------------
    ch = P.get('ArxmlParser::check_arxml_header')
    pa = P.get('ArxmlParser::parse_arxml')
    steps = [('lexer.next', r'ArxmlParser.*::next$'), ('ElementName::from_bytes', r'ElementName::from_bytes$'), ('parse_attribute_text', r'parse_attribute_text$'), ('parse_file_header', r'parse_file_header$')]
    for name, rx in steps:
        a = [pos for pos, t in ch.iter_calls() if call_matches(t, rx)]
        b_ = [pos for pos, t in pa.iter_calls() if call_matches(t, rx)]
        C.check(bool(a) and bool(b_), 'C02-SIB-header', 'step|%s' % name, 'header probe (%d) and loader (%d) no longer both perform: %s' % (len(a), len(b_), name), sample={'step': name, 'probe': len(a), 'loader': len(b_)})
    # order of the steps in the probe: each later step is dominated by the earlier one
    seq = []
    for name, rx in steps:
        seq.append([pos for pos, t in ch.iter_calls() if call_matches(t, rx)])
    ok = all(seq[i] and seq[i + 1] and any(ch.pos_dominates(p, q) for p in seq[i] for q in seq[i + 1]) for i in range(len(seq) - 1))
    C.check(ok, 'C02-SIB-header', 'probe-order', 'the header probe no longer performs next -> from_bytes -> parse_attribute_text -> parse_file_header in order')
    # the probe accepts only what extra? it must not call anything that can reject beyond the loader's prefix
    extra = set()
    for pos, t in ch.iter_calls():
        c = callee_of(t) or ''
        if c in P.bodies and P.bodies[c].crate == 'autosar_data':
            sh = P.bodies[c].short
            if not any(call_matches(t, rx) for _, rx in steps) and sh not in ('ArxmlLexer::new',):
                extra.add(sh)
    C.check(not extra, 'C02-SIB-header', 'probe-has-no-extra-rejecting-step', 'the header probe calls %s, which the loader prefix does not' % sorted(extra))
    # ... and it decides on the results of those steps alone: it reads no parser state that the loader's verdict does not depend on
    # (a lenient load succeeds WITH warnings; a probe that looks at the warning list rejects buffers that load)
    state = set()
    for x in P.with_closures(ch):
        for pos, role, pl, st_ in iter_uses(x):
            if is_local_op(pl):
                for p_ in pl['p']:
                    if p_.startswith('.ArxmlParser.') and p_.split('.')[-1] not in ('buffer', 'filename'):
                        state.add(p_.split('.')[-1])
    C.check(not state, 'C02-SIB-header', 'probe-decides-on-the-loader-steps-alone', 'the header probe reads parser state (%s) besides the results of the loader steps: its verdict can differ from the loader\'s on a buffer that loads (e.g. a header that lenient loading accepts with a warning)' % sorted(state),
            '%s:%d' % (ch.file, ch.line), sample={'fn': 'check_arxml_header', 'parser_fields_read': sorted(state)})
    # both skip comments in a loop around next()
    for b_, nm in ((ch, 'probe'), (pa, 'loader')):
        nx = [pos for pos, t in b_.iter_calls() if call_matches(t, r'ArxmlParser.*::next$')]
        C.check(bool(E.loops_containing(b_, nx)), 'C02-SIB-header', '%s|comment-skip-loop' % nm, 'the %s no longer skips leading comments in a loop' % nm)
    # check_buffer hands the WHOLE buffer to the parser
    cb = P.get('autosar_data::check_buffer')
    news = [(pos, t) for pos, t in cb.iter_calls() if call_matches(t, r'ArxmlParser.*::new$')]
    ok = len(news) == 1
    if ok:
        roots = strict_source_roots(cb, news[0][1]['args'][1])
        ok = roots == {('local', 'buffer')} and not any(call_matches(t, r'Index<.*>>::index$|<impl \[T\]>::(get|split_at|chunks|first_chunk|split)') for pos, t in cb.iter_calls())
    C.check(ok, 'C02-SIB-header', 'check_buffer|whole-buffer', 'check_buffer does not hand its whole input to the header probe (a truncated or re-sliced view can make the probe reject what the loader accepts)',
            sample={'fn': 'check_buffer', 'parser_input': 'the buffer parameter itself'})
    # ... and returns the probe's verdict, nothing else: no path of check_buffer produces its own `false` (a pre-check that rejects
    # what the lexer would skip - a byte order mark, leading white space - makes the probe disagree with the loader)
    own = []
    for pos, st in cb.iter_stmts():
        if st['k'] == 'assign' and st['dst']['l'] == 0 and not st['dst']['p']:
            ogs = origins(cb, st['rv']['o']) if st['rv']['k'] in ('use', 'cast') else [('const', st['rv'])]
            if not ogs or any(og[0] in ('const', 'param', 'place') or not (isinstance(og[1], dict) and og[1].get('k') == 'call' and call_matches(og[1], r'check_arxml_header$')) for og in ogs):
                own.append(pos)
    tails = [pos for pos, t in cb.iter_calls() if t['dst']['l'] == 0 and not t['dst']['p']]
    C.check(not own and all(call_matches(cb.blocks[p_[0]]['term'], r'check_arxml_header$') for p_ in tails) and (bool(tails) or any(True for pos, st in cb.iter_stmts() if st['k'] == 'assign' and st['dst']['l'] == 0)),
            'C02-SIB-header', 'check_buffer|returns-the-probe-verdict', 'check_buffer decides on its own (a return value that is not the result of the header probe): a buffer that the loader accepts can be rejected before the probe has looked at it',
            cb.where(own[0]) if own else '%s:%d' % (cb.file, cb.line), sample={'fn': 'check_buffer', 'result': 'parser.check_arxml_header()'})
    return C.finish('Closed-world enumeration of the panic-capable operations reachable from the loader entry points (MIR Assert terminators + a table of panicking '
                    'library entry points), each discharged automatically or by a reviewed guard; loop-progress and recursion facts; provenance of error line numbers; '
                    'sibling agreement of the header probe with the loader prefix. Does not prove the reviewed guards for all byte strings.')

"""rustexpr.py - abstract interpretation of the hand-written byte-slice validators (syn JSON AST) into
regular languages.  Every boolean expression E over the input slice is mapped to a pair (T, F) of DFAs:
T = inputs on which E evaluates to true, F = inputs on which it evaluates to false; inputs in neither
are those on which evaluation panics (index out of range).  Nothing is executed."""
from automata import DFA, ALL, regex_dfa, lit, EPS


class Undecided(Exception):
    pass


ANY = ('set', ALL)


def rx(r):
    return DFA.from_regex(r)


def prefix_any(k, d):
    """Sigma^k . L(d)"""
    if k == 0:
        return d
    return rx(('cat', [('rep', ANY, k, k), ('dfa', d)]))


def len_lang(op, n):
    if op == '==':
        return rx(('rep', ANY, n, n))
    if op == '!=':
        return rx(('rep', ANY, n, n)).complement()
    if op == '>=':
        return rx(('rep', ANY, n, None))
    if op == '>':
        return rx(('rep', ANY, n + 1, None))
    if op == '<=':
        return rx(('rep', ANY, 0, n))
    if op == '<':
        if n == 0:
            return DFA.empty()
        return rx(('rep', ANY, 0, n - 1))
    raise Undecided('length comparison %s' % op)


BYTE_CLASSES = {
    'is_ascii_digit': frozenset(range(48, 58)),
    'is_ascii_hexdigit': frozenset(list(range(48, 58)) + list(range(65, 71)) + list(range(97, 103))),
    'is_ascii_alphabetic': frozenset(list(range(65, 91)) + list(range(97, 123))),
    'is_ascii_alphanumeric': frozenset(list(range(48, 58)) + list(range(65, 91)) + list(range(97, 123))),
    'is_ascii_uppercase': frozenset(range(65, 91)),
    'is_ascii_lowercase': frozenset(range(97, 123)),
    'is_ascii_whitespace': frozenset([32, 9, 10, 12, 13]),
    'is_ascii_punctuation': frozenset(list(range(33, 48)) + list(range(58, 65)) + list(range(91, 97)) + list(range(123, 127))),
    'is_ascii': frozenset(range(128)),
}


class Interp:
    def __init__(self, fns):
        self.fns = fns            # name -> syn fn json
        self.cache = {}
        self.stack = []

    # -------------------------------------------------------------- byte predicates
    def byteset(self, e, var):
        """set of bytes for which the expression over byte variable `var` (a &u8 or u8) is true."""
        k = e['k']
        if k == 'bin':
            op = e['op']
            if op == '||':
                return self.byteset(e['l'], var) | self.byteset(e['r'], var)
            if op == '&&':
                return self.byteset(e['l'], var) & self.byteset(e['r'], var)
            if op in ('==', '!=', '<', '<=', '>', '>='):
                a, b = e['l'], e['r']
                if self.is_bytevar(b, var) and not self.is_bytevar(a, var):
                    a, b = b, a
                    op = {'<': '>', '>': '<', '<=': '>=', '>=': '<='}.get(op, op)
                if self.is_bytevar(a, var):
                    c = self.byte_const(b)
                    if c is None:
                        raise Undecided('byte comparison with non-constant')
                    f = {'==': lambda x: x == c, '!=': lambda x: x != c, '<': lambda x: x < c, '<=': lambda x: x <= c,
                         '>': lambda x: x > c, '>=': lambda x: x >= c}[op]
                    return frozenset(x for x in range(256) if f(x))
        if k == 'unary' and e['op'] == '!':
            return ALL - self.byteset(e['e'], var)
        if k == 'mcall' and self.is_bytevar(e['recv'], var) and not e['args'] and e['m'] in BYTE_CLASSES:
            return BYTE_CLASSES[e['m']]
        if k == 'macro' and e['name'] == 'matches' and 'matches' in e and self.is_bytevar(e['matches']['e'], var) and not e['matches']['guard']:
            return self.pat_byteset(e['matches']['pat'])
        if k == 'block' and len(e['stmts']) == 1 and e['stmts'][0]['k'] == 'expr':
            return self.byteset(e['stmts'][0]['e'], var)
        if k == 'bool':
            return ALL if e['v'] else frozenset()
        raise Undecided('byte predicate %s' % k)

    def pat_byteset(self, p):
        k = p['k']
        if k == 'or':
            out = frozenset()
            for q in p['ps']:
                out |= self.pat_byteset(q)
            return out
        if k == 'lit':
            c = self.byte_const(p['e'])
            return frozenset([c])
        if k == 'range':
            lo = self.byte_const(p['from']); hi = self.byte_const(p['to'])
            return frozenset(range(lo, hi + (1 if p['incl'] else 0)))
        if k == 'ref':
            return self.pat_byteset(p['p'])
        if k == 'wild':
            return ALL
        raise Undecided('byte pattern %s' % k)

    def is_bytevar(self, e, var):
        if e['k'] == 'path' and e['v'] == var:
            return True
        if e['k'] == 'unary' and e['op'] == '*' and e['e']['k'] == 'path' and e['e']['v'] == var:
            return True
        return False

    def byte_const(self, e):
        if e is None:
            return None
        if e['k'] == 'byte':
            return e['v']
        if e['k'] == 'int' and isinstance(e['v'], int) and e['v'] < 256:
            return e['v']
        return None

    def byte_fn(self, e):
        """a function value used as byte predicate: path u8::is_ascii_digit or closure |c| ..."""
        if e['k'] == 'path':
            name = e['v'].rsplit('::', 1)[-1]
            if e['v'].startswith('u8::') and name in BYTE_CLASSES:
                return BYTE_CLASSES[name]
            raise Undecided('byte predicate function %s' % e['v'])
        if e['k'] == 'closure' and len(e['params']) == 1:
            p = e['params'][0]
            while p['k'] in ('ref', 'typed'):
                p = p['p']
            if p['k'] != 'ident':
                raise Undecided('closure parameter pattern')
            return self.byteset(e['body'], p['name'])
        raise Undecided('byte predicate %s' % e['k'])

    # -------------------------------------------------------------- slice views
    def view(self, e, env):
        """(offset, None) for a suffix view of the root, following &x[a..] re-slicing.  Returns (k, guardlen)
        where evaluation panics unless len >= k."""
        k = e['k']
        if k == 'path' and e['v'] in env and env[e['v']][0] == 'slice':
            return env[e['v']][1]
        if k == 'ref':
            return self.view(e['e'], env)
        if k == 'index' and e['i']['k'] == 'range' and e['i']['to'] is None:
            base = self.view(e['e'], env)
            a = e['i']['from']
            if a is None:
                return base
            if a['k'] == 'int':
                return base + a['v']
        if k == 'unary' and e['op'] == '*':
            return self.view(e['e'], env)
        raise Undecided('slice expression %s' % k)

    # -------------------------------------------------------------- slice predicates (callables)
    def slice_fn(self, e):
        """function value slice -> bool : returns (T, F) over the argument slice."""
        if e['k'] == 'path':
            name = e['v'].rsplit('::', 1)[-1]
            return self.function(name)
        if e['k'] == 'closure' and len(e['params']) == 1:
            p = e['params'][0]
            while p['k'] in ('ref', 'typed'):
                p = p['p']
            if p['k'] != 'ident':
                raise Undecided('closure parameter pattern')
            env = {p['name']: ('slice', 0)}
            return self.eval_value(e['body'], env)
        raise Undecided('slice predicate %s' % e['k'])

    def function(self, name):
        if name in self.cache:
            return self.cache[name]
        if name in self.stack:
            raise Undecided('recursive validator %s' % name)
        if name not in self.fns:
            raise Undecided('unknown function %s' % name)
        f = self.fns[name]
        if len(f['params']) != 1 or f['params'][0].get('ty') != '&[u8]' or f['ret'] != 'bool':
            raise Undecided('validator %s has an unexpected signature' % name)
        pn = f['params'][0]['pat']['name']
        self.stack.append(name)
        try:
            res = self.eval_block(f['body']['stmts'], {pn: ('slice', 0)}, DFA.universal())
        finally:
            self.stack.pop()
        self.cache[name] = res
        return res

    # -------------------------------------------------------------- statements
    def eval_block(self, stmts, env, path):
        """returns (T, F): inputs (within `path`) for which the block yields true / false."""
        T = DFA.empty(); F = DFA.empty()
        env = dict(env)
        for i, st in enumerate(stmts):
            last = (i == len(stmts) - 1)
            if st['k'] == 'local':
                pat = st['pat']
                while pat['k'] == 'typed':
                    pat = pat['p']
                ini = st['init']
                if (st.get('else') and pat['k'] == 'tstruct' and pat['path'] == 'Some' and len(pat['ps']) == 1 and pat['ps'][0]['k'] == 'ident'
                        and ini is not None and ini['k'] == 'mcall' and ini['m'] == 'first' and not ini['args']):
                    # let Some(x) = v.first() else { return <bool> };   x is the byte at the start of the view
                    els = st['else']['stmts']
                    if not (len(els) == 1 and els[0]['k'] == 'expr' and els[0]['e']['k'] == 'return' and els[0]['e']['e'] is not None and els[0]['e']['e']['k'] == 'bool'):
                        raise Undecided('let-else whose else block is not `return <bool>`')
                    off = self.view(ini['recv'], env)
                    has = prefix_any(off, rx(('cat', [ANY, ('star', ANY)])))
                    miss = path.intersect(has.complement())
                    if els[0]['e']['e']['v']:
                        T = T.union(miss)
                    else:
                        F = F.union(miss)
                    path = path.intersect(has)
                    env[pat['ps'][0]['name']] = ('byte', off)
                    continue
                if pat['k'] == 'ident' and ini is not None and ini['k'] == 'match' and not st.get('else'):
                    # let x = match v { [b'/', rest @ ..] => rest, _ => v };  every arm yields a view
                    off = self.view(ini['e'], env)
                    remaining = DFA.universal()
                    for arm in ini['arms']:
                        if arm['guard']:
                            raise Undecided('match arm with guard')
                        lang, binds = self.slice_pat(arm['pat'], off)
                        env_i = dict(env)
                        for n_, v_ in binds.items():
                            env_i[n_] = v_
                        env_i[pat['name']] = ('slice', self.view(arm['body'], env_i))
                        for n_ in binds:
                            if n_ != pat['name']:
                                env_i.pop(n_, None)
                        t1, f1 = self.eval_block(stmts[i + 1:], env_i, path.intersect(remaining.intersect(lang)))
                        T = T.union(t1); F = F.union(f1)
                        remaining = remaining.intersect(lang.complement())
                    return T, F
                if pat['k'] != 'ident' or st['init'] is None or st.get('else'):
                    raise Undecided('let pattern')
                if ini['k'] == 'mcall' and ini['m'] == 'unwrap_or' and len(ini['args']) == 1 and ini['recv']['k'] == 'mcall' and ini['recv']['m'] == 'strip_prefix' and len(ini['recv']['args']) == 1:
                    sp = ini['recv']
                    a = sp['args'][0]
                    if a['k'] == 'ref':
                        a = a['e']
                    if a['k'] != 'bstr':
                        raise Undecided('strip_prefix with non-literal')
                    base = self.view(sp['recv'], env)
                    alt = self.view(ini['args'][0], env)
                    has = prefix_any(base, rx(('cat', [lit(a['v']) if a['v'] else EPS, ('star', ANY)])))
                    env1 = dict(env); env1[pat['name']] = ('slice', base + len(a['v']))
                    env2 = dict(env); env2[pat['name']] = ('slice', alt)
                    t1, f1 = self.eval_block(stmts[i + 1:], env1, path.intersect(has))
                    t2, f2 = self.eval_block(stmts[i + 1:], env2, path.intersect(has.complement()))
                    return T.union(t1).union(t2), F.union(f1).union(f2)
                env[pat['name']] = self.eval_let(st['init'], env)
                continue
            if st['k'] == 'expr':
                e = st['e']
                if e['k'] == 'if' and not (last and not st['semi'] and e['e'] is not None):
                    # statement-level if: then-branch is either `return <bool>` or a re-slicing assignment
                    cT, cF = self.eval_bool(e['c'], env)
                    then = e['t']['stmts']
                    if e['e'] is not None:
                        raise Undecided('if/else statement')
                    if len(then) == 1 and then[0]['k'] == 'expr' and then[0]['e']['k'] == 'return':
                        rv = then[0]['e']['e']
                        if rv is None or rv['k'] != 'bool':
                            raise Undecided('return of non-literal')
                        hit = path.intersect(cT)
                        if rv['v']:
                            T = T.union(hit)
                        else:
                            F = F.union(hit)
                        path = path.intersect(cF)
                        continue
                    if len(then) == 1 and then[0]['k'] == 'expr' and then[0]['e']['k'] == 'assign' and then[0]['e']['l']['k'] == 'path':
                        var = then[0]['e']['l']['v']
                        if var not in env or env[var][0] != 'slice':
                            raise Undecided('assignment to non-slice variable')
                        env2 = dict(env)
                        env2[var] = ('slice', self.view(then[0]['e']['r'], env))
                        t1, f1 = self.eval_block(stmts[i + 1:], env2, path.intersect(cT))
                        t2, f2 = self.eval_block(stmts[i + 1:], env, path.intersect(cF))
                        return T.union(t1).union(t2), F.union(f1).union(f2)
                    raise Undecided('if statement body')
                if last and not st['semi']:
                    t, f = self.eval_bool(e, env)
                    return T.union(path.intersect(t)), F.union(path.intersect(f))
                if e['k'] == 'return' and e['e'] is not None:
                    t, f = self.eval_bool(e['e'], env)
                    return T.union(path.intersect(t)), F.union(path.intersect(f))
                raise Undecided('statement %s' % e['k'])
            raise Undecided('statement kind %s' % st['k'])
        raise Undecided('block without value')

    def eval_let(self, e, env):
        k = e['k']
        if k == 'mcall' and e['m'] == 'collect' and e['recv']['k'] == 'mcall' and e['recv']['m'] == 'split':
            sp = e['recv']
            sep = self.byte_fn(sp['args'][0])
            if len(sep) != 1:
                raise Undecided('split on a byte class')
            return ('segments', self.view(sp['recv'], env), next(iter(sep)))
        try:
            return ('slice', self.view(e, env))
        except Undecided:
            raise Undecided('let initialiser %s' % k)

    def eval_value(self, e, env):
        return self.eval_bool(e, env)

    # -------------------------------------------------------------- boolean expressions
    def mentioned(self, e, out):
        if isinstance(e, dict):
            if e.get('k') == 'path':
                out.add(e['v'])
            if e.get('k') == 'closure':
                inner = set()
                self.mentioned(e['body'], inner)
                def pnames(p, acc):
                    if isinstance(p, dict):
                        if p.get('k') == 'ident':
                            acc.add(p['name'])
                        for v in p.values():
                            pnames(v, acc)
                    elif isinstance(p, list):
                        for v in p:
                            pnames(v, acc)
                ps = set()
                pnames(e['params'], ps)
                out |= (inner - ps)
                return
            for v in e.values():
                self.mentioned(v, out)
        elif isinstance(e, list):
            for v in e:
                self.mentioned(v, out)

    def is_bstr_pat(self, p):
        if p['k'] == 'or':
            return all(self.is_bstr_pat(q) for q in p['ps'])
        if p['k'] == 'ref':
            return self.is_bstr_pat(p['p'])
        return p['k'] == 'lit' and p['e']['k'] == 'bstr'

    def bstr_pats(self, p):
        if p['k'] == 'or':
            out = []
            for q in p['ps']:
                out += self.bstr_pats(q)
            return out
        if p['k'] == 'ref':
            return self.bstr_pats(p['p'])
        return [p['e']['v']]

    def strip_chain(self, e):
        """[(receiver expr, literal prefix)] for X.strip_prefix(b"a")[.or_else(|| Y.strip_prefix(b"b"))]*, else None"""
        if e['k'] != 'mcall':
            return None
        if e['m'] == 'strip_prefix' and len(e['args']) == 1:
            a = e['args'][0]
            if a['k'] == 'ref':
                a = a['e']
            if a['k'] != 'bstr':
                return None
            return [(e['recv'], a['v'])]
        if e['m'] == 'or_else' and len(e['args']) == 1 and e['args'][0]['k'] == 'closure' and not e['args'][0]['params']:
            first = self.strip_chain(e['recv'])
            body = e['args'][0]['body']
            if body['k'] == 'block' and len(body['stmts']) == 1 and body['stmts'][0]['k'] == 'expr':
                body = body['stmts'][0]['e']
            second = self.strip_chain(body)
            if first is None or second is None:
                return None
            return first + second
        return None

    def slice_pat(self, p, off):
        """language (over the whole input) of a pattern matched against the view at offset `off`, and the bindings it makes"""
        k = p['k']
        if k == 'wild':
            return DFA.universal(), {}
        if k == 'ident' and p.get('sub') is None:
            return DFA.universal(), {p['name']: ('slice', off)}
        if k == 'ref':
            return self.slice_pat(p['p'], off)
        if k == 'slice':
            parts = []
            binds = {}
            rest_seen = False
            after = 0
            for q in p['ps']:
                if q['k'] == 'rest' or (q['k'] == 'ident' and q.get('sub') is not None and q['sub']['k'] == 'rest'):
                    if rest_seen:
                        raise Undecided('two rest patterns')
                    rest_seen = True
                    if q['k'] == 'ident':
                        binds[q['name']] = ('slice', off + len(parts))
                    continue
                if rest_seen:
                    raise Undecided('slice pattern with elements after the rest pattern')
                if q['k'] == 'ident' and q.get('sub') is None:
                    binds[q['name']] = ('byte', off + len(parts))
                    parts.append(('set', ALL))
                else:
                    parts.append(('set', frozenset(self.pat_byteset(q))))
            body = ('cat', parts + ([('star', ANY)] if rest_seen else [])) if (parts or rest_seen) else EPS
            return prefix_any(off, rx(body)), binds
        raise Undecided('slice pattern %s' % k)

    def eval_bool(self, e, env):
        k = e['k']
        # an expression over ONE byte variable bound by a pattern (`let Some(first) = s.first()`, `[x, ..]`)
        names = set()
        self.mentioned(e, names)
        bvars = [n for n in names if n in env and env[n][0] == 'byte']
        others = [n for n in names if n in env and env[n][0] != 'byte']
        if len(bvars) == 1 and not others and k != 'bool':
            pos = env[bvars[0]][1]
            bset = frozenset(self.byteset(e, bvars[0]))
            t = rx(('cat', [('rep', ANY, pos, pos), ('set', bset), ('star', ANY)]))
            f = rx(('cat', [('rep', ANY, pos, pos), ('set', ALL - bset), ('star', ANY)]))
            return t, f
        if k == 'macro' and e['name'] == 'matches' and 'matches' in e and not e['matches']['guard'] and self.is_bstr_pat(e['matches']['pat']):
            # matches!(v, b"STRING" | b"ARRAY")
            off = self.view(e['matches']['e'], env)
            lits_ = self.bstr_pats(e['matches']['pat'])
            lang = DFA.empty()
            for bs in lits_:
                lang = lang.union(rx(lit(bs) if bs else EPS))
            lang = prefix_any(off, lang)
            return lang, lang.complement()
        if k == 'mcall' and e['m'] == 'is_some_and' and len(e['args']) == 1 and e['args'][0]['k'] == 'closure' and len(e['args'][0]['params']) == 1 and self.strip_chain(e['recv']) is not None:
            # v.strip_prefix(b"0x").or_else(|| v.strip_prefix(b"0X")).is_some_and(|rest| ..): alternatives in order, the first that matches binds rest
            alts = self.strip_chain(e['recv'])
            p = e['args'][0]['params'][0]
            while p['k'] in ('ref', 'typed'):
                p = p['p']
            if p['k'] != 'ident':
                raise Undecided('is_some_and closure parameter')
            T = DFA.empty(); F = DFA.empty(); remaining = DFA.universal()
            for recv_e, bs in alts:
                base = self.view(recv_e, env)
                has = prefix_any(base, rx(('cat', [lit(bs) if bs else EPS, ('star', ANY)])))
                env_i = dict(env); env_i[p['name']] = ('slice', base + len(bs))
                t1, f1 = self.eval_bool(e['args'][0]['body'], env_i)
                here = remaining.intersect(has)
                T = T.union(here.intersect(t1)); F = F.union(here.intersect(f1))
                remaining = remaining.intersect(has.complement())
            return T, F.union(remaining)
        if k == 'macro' and e['name'] == 'matches' and 'matches' in e and not e['matches']['guard'] and e['matches']['pat']['k'] == 'slice':
            off = self.view(e['matches']['e'], env)
            lang, binds = self.slice_pat(e['matches']['pat'], off)
            return lang, lang.complement()
        if k == 'bool':
            return (DFA.universal(), DFA.empty()) if e['v'] else (DFA.empty(), DFA.universal())
        if k == 'match':
            # match <slice> { <slice pattern> => <bool expr>, .. }: arms in order, each on what the earlier patterns left over
            off = self.view(e['e'], env)
            T = DFA.empty(); F = DFA.empty()
            remaining = DFA.universal()
            for arm in e['arms']:
                if arm['guard']:
                    raise Undecided('match arm with guard')
                lang, binds = self.slice_pat(arm['pat'], off)
                env_i = dict(env); env_i.update(binds)
                t1, f1 = self.eval_bool(arm['body'], env_i)
                here = remaining.intersect(lang)
                T = T.union(here.intersect(t1)); F = F.union(here.intersect(f1))
                remaining = remaining.intersect(lang.complement())
            return T, F
        if k == 'mcall' and e['m'] == 'is_some_and' and len(e['args']) == 1 and e['recv']['k'] == 'mcall' and e['recv']['m'] in ('split_first', 'first') and not e['recv']['args'] and e['args'][0]['k'] == 'closure' and len(e['args'][0]['params']) == 1:
            # v.split_first().is_some_and(|(first, rest)| ..)  /  v.first().is_some_and(|first| ..)
            off = self.view(e['recv']['recv'], env)
            has = prefix_any(off, rx(('cat', [ANY, ('star', ANY)])))
            p = e['args'][0]['params'][0]
            while p['k'] in ('ref', 'typed'):
                p = p['p']
            env_i = dict(env)
            if e['recv']['m'] == 'split_first':
                if p['k'] != 'tuple' or len(p['ps']) != 2 or any(q['k'] not in ('ident', 'wild') for q in p['ps']):
                    raise Undecided('split_first closure parameter')
                if p['ps'][0]['k'] == 'ident':
                    env_i[p['ps'][0]['name']] = ('byte', off)
                if p['ps'][1]['k'] == 'ident':
                    env_i[p['ps'][1]['name']] = ('slice', off + 1)
            else:
                if p['k'] != 'ident':
                    raise Undecided('first closure parameter')
                env_i[p['name']] = ('byte', off)
            t1, f1 = self.eval_bool(e['args'][0]['body'], env_i)
            return has.intersect(t1), has.complement().union(has.intersect(f1))
        if k == 'block':
            return self.eval_block(e['stmts'], env, DFA.universal())
        if k == 'unary' and e['op'] == '!':
            t, f = self.eval_bool(e['e'], env)
            return f, t
        if k == 'bin' and e['op'] == '&&':
            t1, f1 = self.eval_bool(e['l'], env)
            t2, f2 = self.eval_bool(e['r'], env)
            return t1.intersect(t2), f1.union(t1.intersect(f2))
        if k == 'bin' and e['op'] == '||':
            t1, f1 = self.eval_bool(e['l'], env)
            t2, f2 = self.eval_bool(e['r'], env)
            return t1.union(f1.intersect(t2)), f1.intersect(f2)
        if k == 'bin' and e['op'] in ('==', '!=', '<', '<=', '>', '>='):
            return self.eval_cmp(e, env)
        if k == 'mcall':
            return self.eval_mcall(e, env)
        if k == 'macro' and e['name'] == 'matches' and 'matches' in e:
            m = e['matches']
            if m['guard']:
                raise Undecided('matches! with guard')
            # matches!(x[i], pat)
            if m['e']['k'] == 'index':
                return self.byte_at(m['e'], self.pat_byteset(m['pat']), env)
        if k == 'call' and e['f']['k'] == 'path' and len(e['args']) == 1:
            t, f = self.function(e['f']['v'].rsplit('::', 1)[-1])
            off = self.view(e['args'][0], env)
            return prefix_any(off, t), prefix_any(off, f)
        raise Undecided('boolean expression %s%s' % (k, (' ' + e.get('op', '')) if k == 'bin' else ''))

    def byte_at(self, idx_e, bset, env):
        base = self.view(idx_e['e'], env)
        i = idx_e['i']
        if i['k'] != 'int':
            raise Undecided('non-constant index')
        pos = base + i['v']
        t = rx(('cat', [('rep', ANY, pos, pos), ('set', frozenset(bset)), ('star', ANY)]))
        f = rx(('cat', [('rep', ANY, pos, pos), ('set', ALL - frozenset(bset)), ('star', ANY)]))
        return t, f

    def eval_cmp(self, e, env):
        op = e['op']
        l, r = e['l'], e['r']
        # X.len() OP n   /   parts.len() OP n
        if l['k'] == 'mcall' and l['m'] == 'len' and r['k'] == 'int':
            recv = l['recv']
            if recv['k'] == 'path' and recv['v'] in env and env[recv['v']][0] == 'segments':
                _, off, sep = env[recv['v']]
                seg = ('star', ('set', ALL - {sep}))
                n = r['v']

                def count(lo, hi):
                    # number of segments in [lo, hi]  (a split always yields >= 1 segment)
                    lo = max(lo, 1)
                    if hi is not None and hi < lo:
                        return DFA.empty()
                    return rx(('cat', [seg, ('rep', ('cat', [('set', frozenset([sep])), seg]), lo - 1, None if hi is None else hi - 1)]))
                if op == '==':
                    t = count(n, n)
                elif op == '>=':
                    t = count(n, None)
                elif op == '<=':
                    t = count(1, n)
                elif op == '>':
                    t = count(n + 1, None)
                elif op == '<':
                    t = count(1, n - 1)
                elif op == '!=':
                    t = count(n, n).complement()
                else:
                    raise Undecided('segment count comparison')
                return prefix_any(off, t), prefix_any(off, t.complement())
            off = self.view(recv, env)
            t = len_lang(op, r['v'])
            return prefix_any(off, t), prefix_any(off, t.complement())
        # X == b"lit"
        if r['k'] in ('bstr',) or (r['k'] == 'ref' and r['e']['k'] == 'bstr'):
            bs = r['v'] if r['k'] == 'bstr' else r['e']['v']
            off = self.view(l, env)
            t = rx(lit(bs) if bs else EPS)
            if op == '==':
                return prefix_any(off, t), prefix_any(off, t.complement())
            if op == '!=':
                return prefix_any(off, t.complement()), prefix_any(off, t)
        # X[i] == b'c'
        if l['k'] == 'index' and l['i']['k'] == 'int':
            c = self.byte_const(r)
            if c is not None:
                f = {'==': lambda x: x == c, '!=': lambda x: x != c, '<': lambda x: x < c, '<=': lambda x: x <= c,
                     '>': lambda x: x > c, '>=': lambda x: x >= c}[op]
                return self.byte_at(l, [x for x in range(256) if f(x)], env)
        raise Undecided('comparison %s' % op)

    def eval_mcall(self, e, env):
        m = e['m']
        recv = e['recv']
        if m == 'is_empty' and not e['args']:
            off = self.view(recv, env)
            t = rx(EPS)
            return prefix_any(off, t), prefix_any(off, t.complement())
        if m in ('starts_with', 'ends_with') and len(e['args']) == 1:
            a = e['args'][0]
            if a['k'] == 'ref':
                a = a['e']
            if a['k'] != 'bstr':
                raise Undecided('%s with non-literal' % m)
            off = self.view(recv, env)
            body = lit(a['v']) if a['v'] else EPS
            t = rx(('cat', [body, ('star', ANY)]) if m == 'starts_with' else ('cat', [('star', ANY), body]))
            return prefix_any(off, t), prefix_any(off, t.complement())
        if m in BYTE_CLASSES and not e['args'] and recv['k'] == 'index':
            return self.byte_at(recv, BYTE_CLASSES[m], env)
        if m in ('all', 'any') and len(e['args']) == 1 and recv['k'] == 'mcall':
            inner = recv
            # X.iter().all(bytepred)
            if inner['m'] == 'iter' and not inner['args']:
                src = inner['recv']
                if src['k'] == 'path' and src['v'] in env and env[src['v']][0] == 'segments':
                    _, off, sep = env[src['v']]
                    return self.segments_all(off, sep, self.slice_fn(strip_ref_closure(e['args'][0])), m)
                off = self.view(src, env)
                bset = self.byte_fn(e['args'][0])
                if m == 'all':
                    t = rx(('star', ('set', frozenset(bset))))
                else:
                    t = rx(('cat', [('star', ANY), ('set', frozenset(bset)), ('star', ANY)]))
                return prefix_any(off, t), prefix_any(off, t.complement())
            # X.chunks(n).all(slicepred): full n-byte chunks, then one shorter chunk if len % n != 0; all() stops at the first false
            if inner['m'] in ('chunks', 'chunks_exact') and len(inner['args']) == 1 and inner['args'][0]['k'] == 'int' and m == 'all':
                n = inner['args'][0]['v']
                if n <= 0:
                    raise Undecided('chunks(0) panics')
                off = self.view(inner['recv'], env)
                tg, fg = self.slice_fn(e['args'][0])
                exact = rx(('rep', ANY, n, n))
                part = rx(('rep', ANY, 1, n - 1)) if n > 1 else DFA.empty()
                tn, fn_ = tg.intersect(exact), fg.intersect(exact)
                pn = exact.intersect(tn.union(fn_).complement())
                if inner['m'] == 'chunks':
                    tp, fp = tg.intersect(part), fg.intersect(part)
                    pp = part.intersect(tp.union(fp).complement())
                    tail_t = rx(EPS).union(tp)
                else:
                    # chunks_exact ignores the remainder
                    tp = fp = pp = DFA.empty()
                    tail_t = rx(EPS).union(part)
                anyd = rx(('star', ANY))
                star_tn = rx(('star', ('dfa', tn))) if not tn.is_empty() else rx(EPS)
                t = star_tn.concat(tail_t)
                f = star_tn.concat(fn_.concat(anyd).union(fp))
                panic = star_tn.concat(pn.concat(anyd).union(pp))
                if not panic.is_empty():
                    # inputs on which the chunk predicate indexes past the chunk: neither true nor false (reported by the caller as a panic)
                    pass
                return prefix_any(off, t), prefix_any(off, f)
            # X.split(|c| *c == b'x').all(slicepred)
            if inner['m'] == 'split' and len(inner['args']) == 1:
                sep = self.byte_fn(inner['args'][0])
                if len(sep) != 1:
                    raise Undecided('split on a byte class')
                off = self.view(inner['recv'], env)
                return self.segments_all(off, next(iter(sep)), self.slice_fn(e['args'][0]), m)
        raise Undecided('method %s' % m)

    def segments_all(self, off, sep, tf, mode):
        tseg, fseg = tf
        if mode != 'all':
            raise Undecided('segments.any')
        nosep = rx(('star', ('set', ALL - {sep})))
        panic = tseg.union(fseg).complement().intersect(nosep)
        if not panic.is_empty():
            raise Undecided('segment predicate may panic on %r' % panic.shortest())
        good = tseg.intersect(nosep)
        t = rx(('cat', [('dfa', good), ('star', ('cat', [('set', frozenset([sep])), ('dfa', good)]))]))
        return prefix_any(off, t), prefix_any(off, t.complement())


def strip_ref_closure(e):
    return e

"""C08 - strict and lenient validation agree; strict validation has no holes.
Non-interference premises R1-R5 (DESIGN.md §4 C08) + must-pass-through of every documented check."""
import re, os
from ir import Program, callee_of, callee_generic, has_field, ends_in_field
from flow import (iter_uses, forward_taint, uses_of_locals, origins, is_local_op, call_matches, must_pass,
                  defs_of, const_val, op_local)
from framework import Check

OPT = 'ArxmlParser::optional_error'


def field_mentions(P, adtfield, crates=('autosar_data',)):
    """all (body, pos, role, place, stmt) whose place goes through Adt.field"""
    out = []
    for b in P.bodies.values():
        if b.crate not in crates:
            continue
        for pos, role, pl, st in iter_uses(b):
            if is_local_op(pl) and has_field(pl, adtfield):
                out.append((b, pos, role, pl, st))
        # aggregates constructing the struct write the field too
        adt, fld = adtfield.split('.')
        for pos, s in b.iter_stmts():
            if s['k'] == 'assign' and s['rv']['k'] == 'agg' and s['rv'].get('adt') == adt and fld in (s['rv'].get('fields') or []):
                i = s['rv']['fields'].index(fld)
                out.append((b, pos, 'agginit', s['rv']['ops'][i], s))
    return out


def param_local(b, name):
    for l, n in b.names.items():
        if n == name and 1 <= l <= b.argc:
            return l
    return None


def check_param_flow(C, P, fshort, pname, allowed):
    """every use of parameter `pname` in fshort (through copies) is an argument of an allowed callee
    (regex -> arg index) or the aggregate field given as ('agg', 'Adt.Variant.field')."""
    b = P.get(fshort)
    l = param_local(b, pname)
    if l is None:
        C.anchor_missing('C08-WHO-strict', '%s parameter %s' % (fshort, pname))
        return
    t = forward_taint(b, {l}, through_refs=False)
    for pos, role, pl, st in uses_of_locals(b, t):
        if role == 'def':
            continue
        if role.startswith('use:use') or role.startswith('use:cast'):
            # copy into another tainted local (already followed)
            if st['k'] == 'assign' and not st['dst']['p'] and st['dst']['l'] in t:
                continue
        okay = False
        if role.startswith('arg') and st['k'] in ('call', 'tailcall'):
            ai = int(role[3:])
            for rx, idx in allowed.get('calls', []):
                if call_matches(st, rx) and ai == idx:
                    okay = True
        if role.startswith('agg:') and role[4:] in allowed.get('aggs', []):
            okay = True
        if role == 'drop':
            okay = True
        C.check(okay, 'C08-WHO-strict', '%s|flow-of-%s|%s' % (fshort, pname, role if not okay else 'ok:' + role),
                'the strict flag reaches a use other than the parser constructor: %s %s' % (role, st.get('k')),
                where=b.where(pos), sample={'fn': fshort, 'param': pname, 'use': role, 'at': b.where(pos)})


def run(ctx):
    C = Check('C08', ctx['tier'], 'proof', ctx['seed'])
    P = Program(ctx['facts'])
    C.trusted_base = ['rustc MIR construction and Instance::try_resolve (nightly 1.97)', 'asd-mir fact extractor',
                      'dominance/reachability in rules/ir.py, rules/flow.py',
                      'meta-argument of DESIGN.md §4 C08 (non-interference from premises R1-R5)']
    C.assumptions = ['parser code runs single-threaded per load (ArxmlParser is a local of load_buffer_internal)',
                     'std/smallvec callees are deterministic functions of their arguments']
    C.rule('C08-WHO-strict', 'R1/R5: the strict flag is read once (optional_error) and written once (ArxmlParser::new, from its parameter); the strict parameter of load_* flows only into that constructor; no time/env/random/hash-iteration in the parser closure')
    C.rule('C08-WHO-warnings', 'R2: ArxmlParser.warnings is written only in new (empty) and optional_error (push), read only by the move into the result of load_buffer_internal')
    C.rule('C08-SHAPE-funnel', 'R3: in optional_error one ParserError value dominates the strict branch; strict edge returns Err(that value), lenient edge pushes that value and returns Ok')
    C.rule('C08-FLOW-propagate', 'R4: the Result of every function that may return an optional_error Err is propagated unchanged (tail call or ?), up to load_buffer/load_file')
    C.rule('C08-MUST-checks', 'no holes: each documented check call lies on every path to the point where the checked item is accepted')

    # ---------------- R1: strict ----------------
    ms = field_mentions(P, 'ArxmlParser.strict')
    reads = [(b, pos, role) for (b, pos, role, pl, st) in ms if role not in ('def', 'agginit')]
    writes = [(b, pos, role) for (b, pos, role, pl, st) in ms if role in ('def', 'agginit')]
    for b, pos, role in reads:
        C.check(b.short == OPT, 'C08-WHO-strict', 'read|%s' % b.short,
                'the strict flag is read outside optional_error (a second mode-dependent branch breaks strict/lenient equivalence)',
                where=b.where(pos), sample={'read_of': 'ArxmlParser.strict', 'in': b.short, 'at': b.where(pos)})
    for b, pos, role in writes:
        C.check(b.short == 'ArxmlParser::new' and role == 'agginit', 'C08-WHO-strict', 'write|%s|%s' % (b.short, role),
                'the strict flag is written outside ArxmlParser::new', where=b.where(pos))
    C.floor('C08-WHO-strict.reads', len(reads), 1)
    C.floor('C08-WHO-strict.writes', len(writes), 1)
    C.check(len(reads) == 1, 'C08-WHO-strict', 'read-count', 'expected exactly one read of ArxmlParser.strict, found %d' % len(reads))
    # the initialiser is the constructor's parameter
    try:
        nb = P.get('ArxmlParser::new')
        for (b, pos, role, pl, st) in ms:
            if role == 'agginit' and b is nb:
                org = origins(nb, pl)
                C.check(org == [('param', param_local(nb, 'strict'))], 'C08-WHO-strict', 'new|strict-from-param',
                        'ArxmlParser::new does not initialise strict from its parameter: %s' % (org,), where=nb.where(pos))
    except KeyError as e:
        C.anchor_missing('C08-WHO-strict', str(e))
    newrx = r'ArxmlParser::<.*>::new$|ArxmlParser.*::new$'
    check_param_flow(C, P, 'AutosarModel::load_buffer', 'strict', {'calls': [(r'AutosarModel.*::load_buffer_internal$', 4), (r'load_buffer_internal$', 3)]})
    check_param_flow(C, P, 'AutosarModel::load_buffer_internal', 'strict', {'calls': [(newrx, 2)]})
    check_param_flow(C, P, 'AutosarModel::load_file', 'strict', {'calls': [(r'::load_buffer', 3)]})
    check_param_flow(C, P, 'ArxmlParser::new', 'strict', {'aggs': ['ArxmlParser.ArxmlParser.strict']})
    # every construction of a parser outside the loader uses the constant false
    nnew = 0
    for b in P.bodies.values():
        for pos, t in b.calls_to(newrx):
            if 'ArxmlParser' not in (callee_of(t) or ''):
                continue
            nnew += 1
            a = t['args'][2]
            if b.short == 'AutosarModel::load_buffer_internal':
                continue
            cv = const_val(a)
            if cv is None and is_local_op(a):
                # a named flag: `let strict = false; ArxmlParser::new(.., strict)` - every origin is the constant false
                ogs = origins(b, a)
                if ogs and all(og[0] == 'const' and const_val(og[1]) == 'false' for og in ogs):
                    cv = 'false'
            C.check(cv == 'false', 'C08-WHO-strict', 'ctor|%s' % b.short,
                    'a parser is constructed outside load_buffer_internal with a non-constant/true strict flag', where=b.where(pos),
                    sample={'ctor_in': b.short, 'strict_arg': const_val(a)})
    C.floor('C08-WHO-strict.ctors', nnew, 2)

    # R5: determinism of the parser closure
    entry = [P.get('ArxmlParser::parse_arxml').id, P.get('ArxmlParser::check_arxml_header').id]
    closure = P.reachable_bodies(entry)
    bad = re.compile(r'std::time|Instant::|SystemTime|rand::|std::env::|thread_local|LocalKey|RandomState|std::thread|'
                     r'hash::map::HashMap.*::(iter|keys|values|drain|into_iter)|hash::set::HashSet.*::(iter|drain|into_iter)|'
                     r'IntoIterator>::into_iter.*Hash(Map|Set)')
    ncalls = 0
    for bid in closure:
        b = P.bodies[bid]
        for pos, t in b.iter_calls():
            ncalls += 1
            c = (callee_of(t) or '') + ' ' + (callee_generic(t) or '') + ' ' + ' '.join(t['f'].get('substs', []))
            if bad.search(c):
                C.fail('C08-WHO-strict', 'nondet|%s|%s' % (b.short, callee_of(t)), 'non-deterministic or environment-dependent call in the parser closure', b.where(pos))
        for pos, s in b.iter_stmts():
            if s['k'] == 'assign' and s['rv']['k'] == 'tls':
                C.fail('C08-WHO-strict', 'tls|%s' % b.short, 'thread-local access in the parser closure', b.where(pos))
    C.ok('C08-WHO-strict', 'parser-closure-deterministic', '%d bodies, %d call sites scanned' % (len(closure), ncalls))
    C.extra['parser_closure_bodies'] = len(closure)
    C.extra['parser_closure_calls'] = ncalls

    # ---------------- R2: warnings ----------------
    mw = field_mentions(P, 'ArxmlParser.warnings')
    allowed = {'ArxmlParser::new': {'agginit'}, OPT: {'refmut'}, 'AutosarModel::load_buffer_internal': {'use:use', 'agg:tuple.1', 'drop'}}
    for (b, pos, role, pl, st) in mw:
        ok = b.short in allowed and (role in allowed[b.short] or role.startswith('agg:tuple'))
        C.check(ok, 'C08-WHO-warnings', '%s|%s' % (b.short, role if not ok else 'ok'),
                'the warning list is touched outside the funnel / the final move (%s)' % role, where=b.where(pos),
                sample={'warnings_mention': b.short, 'role': role})
    C.floor('C08-WHO-warnings', len(mw), 3)
    # in optional_error the &mut warnings goes only into Vec::push
    ob0 = P.get(OPT)
    # the error value may be built by the parser's own constructor helper `error`: judge optional_error together with it
    ob = P.view_inlined(ob0, r'ArxmlParser[^:]*(::<[^>]*>)?::error$')
    for (b, pos, role, pl, st) in mw:
        if b is ob0 and role == 'refmut':
            t = forward_taint(ob, {st['dst']['l']}, through_refs=False)
            for p2, r2, pl2, st2 in uses_of_locals(ob, t):
                if r2 in ('def',):
                    continue
                C.check(r2 == 'arg0' and call_matches(st2, r'Vec::<.*>::push$'), 'C08-WHO-warnings', 'optional_error|ref-use|%s' % r2,
                        'the &mut warnings borrow is used for something other than push', where=ob.where(p2))

    # ---------------- R3: funnel shape ----------------
    aggs = [(pos, s) for pos, s in ob.iter_stmts() if s['k'] == 'assign' and s['rv']['k'] == 'agg' and s['rv'].get('adt') == 'AutosarDataError']
    C.check(len(aggs) == 1 and aggs[0][1]['rv']['var'] == 'ParserError', 'C08-SHAPE-funnel', 'one-error-value',
            'optional_error builds %d AutosarDataError values (expected exactly one ParserError)' % len(aggs))
    sw = [(pos, t) for pos, t in ob.iter_terms() if t['k'] == 'switch']
    C.check(len(sw) == 1, 'C08-SHAPE-funnel', 'one-branch', 'optional_error has %d branches (expected 1)' % len(sw))
    if len(aggs) == 1 and len(sw) == 1:
        apos, a = aggs[0]
        spos, s = sw[0]
        errl = a['dst']['l']
        C.check(ob.pos_dominates(apos, spos), 'C08-SHAPE-funnel', 'value-dominates-branch', 'the error value is not built before the strict branch', ob.where(apos))
        # the branch tests the strict read
        org = origins(ob, s['d'])
        C.check(any(o[0] == 'place' and has_field(o[1], 'ArxmlParser.strict') for o in org), 'C08-SHAPE-funnel', 'branch-on-strict',
                'the branch in optional_error does not test the strict flag')
        # components of the error value
        f = dict(zip(a['rv']['fields'], a['rv']['ops']))
        o_src = origins(ob, f['source'])
        C.check(o_src == [('param', param_local(ob, 'err'))], 'C08-SHAPE-funnel', 'source-is-param', 'ParserError.source is not the err parameter: %s' % (o_src,))
        o_line = origins(ob, f['line'])
        C.check(any(o[0] == 'place' and has_field(o[1], 'ArxmlParser.line') for o in o_line), 'C08-SHAPE-funnel', 'line-is-live-counter', 'ParserError.line is not read from ArxmlParser.line')
        strict_t = s['else']
        lenient_t = dict((v, b) for v, b in s['ts']).get('0')
        tl = forward_taint(ob, {errl}, through_refs=False)

        def events(start):
            r = ob.reach_from((start, 0), include_start=True)
            ev = []
            for p in sorted(r):
                bi, i = p
                if i < ob.nstmts(bi):
                    st = ob.blocks[bi]['stmts'][i]
                    if st['k'] == 'assign' and st['dst']['l'] == 0 and not st['dst']['p'] and st['rv']['k'] == 'agg':
                        ev.append((st['rv']['var'], [op_local(o) for o in st['rv']['ops']]))
                else:
                    t = ob.blocks[bi]['term']
                    if t['k'] == 'call':
                        ev.append(('call:' + (callee_of(t) or '?'), [op_local(x) for x in t['args']]))
            return ev
        es = events(strict_t)
        el = events(lenient_t)
        C.check(len(es) == 1 and es[0][0] == 'Err' and es[0][1][0] in tl, 'C08-SHAPE-funnel', 'strict-edge',
                'strict edge of optional_error is not exactly `return Err(wrapped_err)`: %s' % es,
                sample={'funnel_strict_edge': str(es)})
        okl = (len(el) == 2 and el[0][0].startswith('call:') and el[0][0].endswith('::push') and el[0][1][1] in tl and el[1][0] == 'Ok')
        C.check(okl, 'C08-SHAPE-funnel', 'lenient-edge', 'lenient edge of optional_error is not exactly `warnings.push(wrapped_err); Ok(())`: %s' % el,
                sample={'funnel_lenient_edge': str(el)})

    # ---------------- R4: propagation ----------------
    M = {ob.id}
    sites = {}
    reviewed = {'ArxmlParser::check_arxml_header': 'header probe: reachable only from check_buffer, whose parser is built with the constant strict=false (checked in C08-WHO-strict ctor rule); it returns a bool, no model'}
    changed = True
    viol = {}
    while changed:
        changed = False
        sites = {}
        viol = {}
        for b in P.bodies.values():
            if b.crate != 'autosar_data':
                continue
            for pos, t in b.iter_calls():
                c = callee_of(t)
                if c not in M and callee_generic(t) not in M:
                    continue
                key = (b.id, pos)
                verdict = classify_result_flow(b, pos, t)
                sites[key] = verdict
                if verdict == 'propagated':
                    if b.id not in M:
                        M.add(b.id)
                        changed = True
                else:
                    viol[key] = verdict
    nsites = 0
    for (bid, pos), verdict in sorted(sites.items()):
        b = P.bodies[bid]
        t = b.blocks[pos[0]]['term']
        cs = P.bodies[callee_of(t)].short if callee_of(t) in P.bodies else callee_of(t)
        nsites += 1
        if verdict == 'propagated':
            C.ok('C08-FLOW-propagate', '%s|call:%s|#%d' % (b.short, cs, pos[0]), 'propagated', sample={'fn': b.short, 'calls': cs, 'at': b.where(pos), 'flow': 'propagated'} if nsites % 7 == 0 else None)
        elif re.sub(r'(::\{[^{}]*\})+$', '', b.short) in reviewed:
            # (a closure of the reviewed function is the reviewed function)
            C.ok('C08-FLOW-propagate', '%s|call:%s|reviewed' % (b.short, cs), reviewed[re.sub(r'(::\{[^{}]*\})+$', '', b.short)])
        else:
            C.fail('C08-FLOW-propagate', '%s|call:%s|%s' % (b.short, cs, verdict),
                   'the Result of a function that may carry a recoverable finding is not propagated (%s): strict would continue where lenient continues, or an error is swallowed' % verdict, b.where(pos))
    direct = sum(1 for (bid, pos) in sites if callee_of(P.bodies[bid].blocks[pos[0]]['term']) == ob.id)
    C.floor('C08-FLOW-propagate.optional_error-sites', direct, 25)
    C.floor('C08-FLOW-propagate.sites', nsites, 46)
    for need in ('AutosarModel::load_buffer', 'AutosarModel::load_file', 'AutosarModel::load_buffer_internal', 'ArxmlParser::parse_arxml',
                 'ArxmlParser::parse_element', 'ArxmlParser::parse_attribute_text', 'ArxmlParser::parse_character_data',
                 'ArxmlParser::unescape_string', 'ArxmlParser::check_version', 'ArxmlParser::find_element_in_spec_checked',
                 'ArxmlParser::check_element_conflict', 'ArxmlParser::check_multiplicity', 'ArxmlParser::parse_file_header',
                 'ArxmlParser::parse_file_version', 'ArxmlParser::verify_end_of_input'):
        try:
            C.check(P.get(need).id in M, 'C08-FLOW-propagate', 'chain|%s' % need, '%s no longer forwards recoverable findings to its caller' % need)
        except KeyError as e:
            C.anchor_missing('C08-FLOW-propagate', str(e))
    # check_arxml_header premise: only called from check_buffer
    cah = P.get('ArxmlParser::check_arxml_header')
    callers = {b.short for b in P.bodies.values() for pos, t in b.iter_calls() if callee_of(t) == cah.id}
    C.check(callers == {'autosar_data::check_buffer'} or callers == {'check_buffer'} or all('check_buffer' in c for c in callers), 'C08-FLOW-propagate', 'check_arxml_header-callers',
            'check_arxml_header (which swallows findings) is called from %s' % sorted(callers))
    C.extra['M_functions'] = sorted(P.bodies[m].short for m in M)

    # ---------------- no holes ----------------
    must_checks(C, P)

    # every '&' of a text is decoded or reported: from the point where unescape_string found an ampersand, no path reaches the next
    # round of the loop or leaves the loop without a decoded character having been pushed or optional_error having been called
    from pairing import calls
    un = P.get('ArxmlParser::unescape_string')
    fnd = [p_ for p_ in calls(un, r'<impl str>::find$|str>::find$') if any(p_[0] in body for h, body in un.natural_loops())]
    oka = False
    from flow import switch_edges_on_call_result, must_pass as _mp
    loops_u = un.natural_loops()
    if fnd and loops_u:
        h, body = max(loops_u, key=lambda x: len(x[1]))
        hdr_find = [p_ for p_ in fnd if p_[0] == h or un.pos_dominates(p_, (h, 0)) or True]
        # the find whose result is the loop condition: its Some edge stays in the loop, its None edge leaves it
        for p_ in fnd:
            sw = switch_edges_on_call_result(un, p_)
            if not sw:
                continue
            some_t, none_t = sw[1].get('1', sw[2]), sw[1].get('0', sw[2])
            if some_t in body and none_t not in body:
                through = set(calls(un, r'String::push$')) | set(calls(un, r'ArxmlParser.*::optional_error$'))
                back = [(bi, un.nstmts(bi)) for bi in body if h in un.succs(bi)]
                exits = [(sx, 0) for bi in body for sx in un.succs(bi) if sx not in body and not un.blocks[sx]['cleanup'] and bi != p_[0] and sx != none_t and un.blocks[sx]['term']['k'] != 'unreachable']
                import panics as _PN
                reached = _PN.flag_reach(un, (some_t, 0), through, within=body)
                oka = bool(through) and not any(t_ in reached for t_ in [(h, 0)] + exits)
    C.check(oka, 'C08-MUST-checks', 'unescape_string|every-ampersand-decoded-or-reported', 'unescape_string can pass over an ampersand without decoding it and without reporting InvalidXmlEntity (e.g. an early exit when no ";" follows): malformed entities are accepted by strict loading and give no warning in lenient loading',
            '%s:%d' % (un.file, un.line), sample={'fn': 'unescape_string', 'per_ampersand': 'push(decoded char) or optional_error(InvalidXmlEntity)'})
    # a value is stored as validated: parse_element only ever PUSHES onto the element's content; it does not reach back into a stored item
    # (last_mut / get_mut / index) to extend it - the joined value would never have been seen by parse_character_data
    import events as _EV
    from flow import deep_sources as _ds
    pe_ = P.get('ArxmlParser::parse_element')
    ops_ = _EV.content_ops(pe_)
    back = [o['pos'] for o in ops_ if o['op'] != 'push']
    for x_ in [pe_] + list(P.closures_of(pe_)):
        for pos, t in x_.iter_calls():
            if call_matches(t, r'::(last_mut|first_mut|get_mut|iter_mut|index_mut)$') and t['args'] and 'ElementRaw.content' in _ds(x_, t['args'][0], depth=16)[2]:
                back.append(pos)
    C.check(bool(ops_) and not back, 'C08-MUST-checks', 'parse_element|stored-content-is-never-edited-after-validation',
            'parse_element reaches back into an already stored content item and changes it: the resulting value as a whole was never validated by parse_character_data (length limit / pattern hold for the pieces only), so strict loading accepts a value the validator documents as invalid',
            pe_.where(back[0]) if back else '%s:%d' % (pe_.file, pe_.line), sample={'fn': 'ArxmlParser::parse_element', 'content_pushes': len(ops_)})
    # the mask accessor the validator relies on reads the mask of the element it was asked about (shared with C18-SIB-listing)
    from c18 import version_base_rule
    version_base_rule(C, P, 'C08-MUST-checks')
    return C.finish('Static non-interference proof of strict/lenient equivalence: premises R1-R5 are each checked on the MIR of every body of '
                    'autosar-data (who-reads/who-writes of ArxmlParser.strict and .warnings, def-use flow of the strict parameter, '
                    'shape of the funnel, propagation of every Result that can carry a recoverable finding), plus must-pass-through '
                    'obligations for each documented validation. Decides the first sentence of C08 for all inputs relative to the '
                    'meta-argument; the no-holes clause shows the checks are always reached, not that each check function is itself right.')


def classify_result_flow(b, pos, t):
    """where does the Result returned by the call at pos go?"""
    if t['k'] == 'tailcall':
        return 'propagated'
    d = t['dst']
    if d['l'] == 0 and not d['p']:
        return 'propagated'  # tail position: _0 = callee(..)
    if d['p']:
        return 'stored-in-place'
    return classify_local_flow(b, d['l'], pos, 4)


def classify_local_flow(b, r, pos, depth):
    """where does the Result held in local r go? (r = the destination of a call, or - in a body with an inlined helper - the helper's
    return slot, which receives the residual of a `?` inside the helper and is `?`-ed again by the caller)"""
    taint = forward_taint(b, {r}, through_refs=False)
    branch_locals = set()
    verdict = None
    uses = [(p, role, pl, st) for (p, role, pl, st) in uses_of_locals(b, taint) if role != 'def' and not (role == 'calldst' and (p == pos or depth < 4))]
    real = []
    for p, role, pl, st in uses:
        if role.startswith('use:') and st['k'] == 'assign' and not st['dst']['p'] and st['dst']['l'] in taint:
            continue
        real.append((p, role, pl, st))
    if not real:
        return 'result-dropped'
    for p, role, pl, st in real:
        if role == 'arg0' and st['k'] == 'call' and call_matches(st, r'ops::Try>::branch$|Try::branch$'):
            cl = st['dst']['l']
            # the ControlFlow value: Break payload must reach from_residual into _0
            ok = False
            for p2, s2 in b.iter_stmts():
                if s2['k'] == 'assign' and s2['rv']['k'] == 'use' and is_local_op(s2['rv']['o']) and s2['rv']['o']['l'] == cl and 'as Break' in s2['rv']['o']['p']:
                    res = s2['dst']['l']
                    rt = forward_taint(b, {res}, through_refs=False)
                    for p3, t3 in b.iter_calls():
                        if call_matches(t3, r'FromResidual.*::from_residual$') and any(is_local_op(a) and a['l'] in rt for a in t3['args']) and not t3['dst']['p']:
                            if t3['dst']['l'] == 0:
                                ok = True
                            elif depth > 0 and getattr(b, 'inlined_ids', None) and classify_local_flow(b, t3['dst']['l'], p3, depth - 1) == 'propagated':
                                ok = True        # the return slot of an inlined helper, propagated in turn by the caller
            if not ok:
                return 'try-branch-without-from_residual'
            verdict = 'propagated'
        elif role == 'drop':
            continue
        elif role == 'use:use' and st['k'] == 'assign' and st['dst']['l'] == 0 and not st['dst']['p']:
            verdict = verdict or 'propagated'
        else:
            return 'consumed-by:%s' % (role if st['k'] != 'call' else role + ':' + (callee_of(st) or '?').rsplit('::', 2)[-1])
    return verdict or 'result-dropped'


def dominating_calls(C, P, fshort, target_desc, target_positions, required, rule='C08-MUST-checks'):
    """each target position must be dominated by a call matching each required regex."""
    b = P.get(fshort)
    if not target_positions:
        C.anchor_missing(rule, '%s: %s' % (fshort, target_desc))
        return
    for name, rx in required:
        cps = [pos for pos, t in b.iter_calls() if call_matches(t, rx)]
        for tp in target_positions:
            ok = any(b.pos_dominates(cp, tp) for cp in cps)
            C.check(ok, rule, '%s|%s|needs:%s' % (fshort, target_desc, name),
                    'in %s the %s is reachable without passing %s (validation hole)' % (fshort, target_desc, name), where=b.where(tp),
                    sample={'fn': fshort, 'accept_point': target_desc, 'dominated_by': name})


def agg_positions(b, adt, var):
    return [pos for pos, s in b.iter_stmts() if s['k'] == 'assign' and s['rv']['k'] == 'agg' and s['rv'].get('adt') == adt and s['rv'].get('var') == var]


def ok_exits(b):
    return [pos for pos, s in b.iter_stmts() if s['k'] == 'assign' and s['dst']['l'] == 0 and not s['dst']['p'] and s['rv']['k'] == 'agg' and s['rv'].get('var') == 'Ok']


def must_checks(C, P):
    pe = P.get('ArxmlParser::parse_element')
    # acceptance point of a sub element: content.push(ElementContent::Element(..))
    elem_aggs = agg_positions(pe, 'ElementContent', 'Element')
    pushes = []
    for pos, t in pe.calls_to(r'SmallVec::<.*>::push$|SmallVec<.*>::push$'):
        a = t['args'][1] if len(t['args']) > 1 else None
        if a is not None and is_local_op(a):
            org = origins(pe, a)
            if any(o[0] != 'param' and o[0] != 'const' and o[0] != 'place' and o[1].get('k') == 'assign' and o[1]['rv'].get('var') == 'Element' for o in org):
                pushes.append(pos)
    dominating_calls(C, P, 'ArxmlParser::parse_element', 'push of sub-element', pushes, [
        ('ElementName::from_bytes', r'ElementName::from_bytes$'),
        ('find_element_in_spec_checked', r'find_element_in_spec_checked$'),
        ('check_element_conflict', r'check_element_conflict$'),
        ('parse_attribute_text', r'parse_attribute_text$'),
        ('parse_element(recursive)', r'parse_element$'),
    ])
    # multiplicity: guarded only by "no earlier content"
    cm = [pos for pos, t in pe.calls_to(r'check_multiplicity$')]
    ie = [pos for pos, t in pe.calls_to(r'SmallVec::<.*>::is_empty$|SmallVec<.*>::is_empty$')]
    cut = set()
    for ipos in ie:
        t = pe.blocks[ipos[0]]['term']
        tb = t['t']
        tt = pe.blocks[tb]['term']
        # is_empty() == true edge  (switch on the bool: value 0 = false)
        if tt['k'] == 'switch':
            cut.add((tb, tt['else']))
    src = [pos for pos, t in pe.calls_to(r'check_element_conflict$')]
    if not cm or not src or not pushes:
        C.anchor_missing('C08-MUST-checks', 'parse_element multiplicity anchors')
    else:
        ok = all(must_pass(pe, s, pushes, cm, avoid_edges=cut) for s in src)
        C.check(ok, 'C08-MUST-checks', 'ArxmlParser::parse_element|push of sub-element|needs:check_multiplicity-unless-empty',
                'a sub-element can be accepted without the multiplicity check although the parent already has content', where=pe.where(pushes[0]),
                sample={'fn': 'parse_element', 'accept_point': 'push of sub-element', 'must_pass': 'check_multiplicity unless content.is_empty()'})
    # character data accepted only through parse_character_data
    cd_aggs = agg_positions(pe, 'ElementContent', 'CharacterData')
    dominating_calls(C, P, 'ArxmlParser::parse_element', 'push of character data', cd_aggs, [('parse_character_data', r'parse_character_data$')])
    # SHORT-NAME test before Ok
    oks = ok_exits(pe)
    named = [pos for pos, t in pe.calls_to(r'ElementType::is_named_in_version$')]
    if not oks or not named:
        C.anchor_missing('C08-MUST-checks', 'parse_element Ok exit / is_named_in_version')
    else:
        # every path to Ok passes either the is_named_in_version test or the short_name_found==true edge
        b = pe
        # find switch on short_name_found local
        snl = [l for l, n in b.names.items() if n == 'short_name_found']
        cut = set()
        for pos, t in b.iter_terms():
            if t['k'] == 'switch' and is_local_op(t['d']) and snl and (t['d']['l'] in forward_taint(b, set(snl), through_refs=False)):
                cut.add((pos[0], t['else']))
        ok = must_pass(b, (0, 0), oks, named, avoid_edges=cut)
        C.check(ok and bool(cut), 'C08-MUST-checks', 'ArxmlParser::parse_element|Ok-exit|needs:short-name-test',
                'parse_element can return Ok without testing for the required SHORT-NAME', where=b.where(oks[0]))
        # and the failing edge of the test calls optional_error(RequiredSubelementMissing)
        rsm = agg_positions(b, 'ArxmlParserError', 'RequiredSubelementMissing')
        C.check(len(rsm) >= 1, 'C08-MUST-checks', 'ArxmlParser::parse_element|RequiredSubelementMissing-built', 'missing SHORT-NAME is no longer reported')

        # the flag that waives the test is raised only for a SHORT-NAME in FIRST position (only that one names the element, see
        # ElementRaw::is_identifiable): every store of `true` into it lies on the true edge of an emptiness test of the parent's content
        flags = set()
        for (blk_, tgt_) in cut:
            d_ = b.blocks[blk_]['term']['d']
            for l_ in snl or []:
                flags.add(l_)
        if not flags:
            # name-free: bool locals that receive a constant `true` inside a loop and feed one of the cut switches
            for pos, st in b.iter_stmts():
                if st['k'] == 'assign' and not st['dst']['p'] and (b.local_ty(st['dst']['l']) or '') == 'bool' and st['rv']['k'] == 'use' and not is_local_op(st['rv']['o']) and str(st['rv']['o'].get('v', st['rv']['o'].get('i'))) in ('true', '1'):
                    if any(b.blocks[blk_]['term']['d']['l'] in forward_taint(b, {st['dst']['l']}, through_refs=False) for (blk_, tgt_) in cut):
                        flags.add(st['dst']['l'])
        from flow import deep_sources as _dsx
        import events as _Ev
        raises = [pos for pos, st in b.iter_stmts() if st['k'] == 'assign' and not st['dst']['p'] and st['dst']['l'] in flags and st['rv']['k'] == 'use' and not is_local_op(st['rv']['o'])
                  and str(st['rv']['o'].get('v', st['rv']['o'].get('i'))) in ('true', '1')]
        empt = [pos for pos, t in b.iter_calls() if call_matches(t, r'SmallVec::<A>::is_empty$|Vec::<T, A>::is_empty$|<impl \[T\]>::is_empty$') and 'ElementRaw.content' in _dsx(b, t['args'][0], depth=8)[2]]
        from pairing import guarded_by_true
        okf = bool(raises) and bool(empt) and all(any(guarded_by_true(b, r_, e_) for e_ in empt) for r_ in raises)
        C.check(okf, 'C08-MUST-checks', 'ArxmlParser::parse_element|short-name-flag|raised-only-for-the-first-sub-element',
                'the flag that waives the missing-SHORT-NAME finding is raised for a SHORT-NAME at any position, although only a SHORT-NAME in first position names the element: '
                '<AR-PACKAGE><CATEGORY/><SHORT-NAME>a</SHORT-NAME> is accepted by strict loading as if it had a name, while the element has no path and is not in the index',
                where=b.where(raises[0]) if raises else '', sample={'fn': 'parse_element', 'flag_raised_at': len(raises), 'guard': 'element.content.is_empty() (true edge)'})

    # check_version: Ok only behind the test of the item's version mask against the file version (no early Ok for "special" contexts)
    cv_ = P.find('ArxmlParser::check_version')
    if cv_ is None:
        C.anchor_missing('C08-MUST-checks', 'ArxmlParser::check_version')
    else:
        tests = []
        for pos, st in cv_.iter_stmts():
            if st['k'] == 'assign' and st['rv']['k'] == 'bin' and st['rv']['op'] == 'BitAnd':
                from flow import deep_sources as _dsv
                flds = set()
                for o_ in (st['rv']['a'], st['rv']['b']):
                    if is_local_op(o_):
                        flds |= _dsv(cv_, o_, depth=8)[2] | {x[1:] for x in o_.get('p', []) if x.startswith('.')}
                if any(f.endswith('fileversion') for f in flds):
                    tests.append(pos)
        oks_ = ok_exits(cv_) + [pos for pos, t in cv_.iter_calls() if t['dst']['l'] == 0 and not t['dst']['p']]
        oklit = ok_exits(cv_)
        C.check(bool(tests) and bool(oklit) and all(must_pass(cv_, (0, 0), [o_], through=set(tests)) for o_ in oklit), 'C08-MUST-checks', 'check_version|ok-only-behind-the-version-test',
                'check_version can return Ok without having compared the item\'s version mask with the file version (an early Ok for some context): items that do not exist in the file\'s version are accepted there by strict loading',
                where=cv_.where(oklit[0]) if oklit else '%s:%d' % (cv_.file, cv_.line), sample={'fn': 'check_version', 'ok_exits': len(oklit), 'version_tests': len(tests)})
    # check_multiplicity polices repeated elements in Sequence AND Choice groups (check_element_conflict returns early for identical
    # positions, so nothing else looks at a repeated identical alternative)
    import json as _json
    try:
        synf = _json.load(open(os.path.join(P.facts_dir, 'syn.json')))['files']
    except Exception:
        synf = {}
    cmf = [fn_ for k_, v_ in synf.items() if k_.endswith('autosar-data/src/parser.rs') for fn_ in v_['fns'] if fn_['name'] == 'check_multiplicity']
    if cmf:
        from c01 import walk as _walk
        modes = {x['v'].split('::')[-1] for x in _walk(cmf[0]['body']) if isinstance(x, dict) and x.get('k') == 'path' and str(x.get('v', '')).startswith('ContentMode::')}
        C.check(modes in ({'Sequence', 'Choice'}, {'Bag', 'Mixed'}, {'Sequence', 'Choice', 'Bag', 'Mixed'}, {'Sequence', 'Choice', 'Bag', 'Mixed', 'Characters'}), 'C08-MUST-checks', 'check_multiplicity|applies-to-sequence-and-choice',
                'check_multiplicity no longer applies to both Sequence and Choice groups (content modes named in it: %s): a repeated single-occurrence alternative of a choice is accepted by strict loading' % sorted(modes),
                where='autosar-data/src/parser.rs:%s' % cmf[0].get('line', ''), sample={'fn': 'check_multiplicity', 'content_modes': sorted(modes)})

    # parse_arxml: Ok dominated by verify_end_of_input, parse_file_header, parse_attribute_text, parse_element
    pa = P.get('ArxmlParser::parse_arxml')
    dominating_calls(C, P, 'ArxmlParser::parse_arxml', 'Ok exit', ok_exits(pa), [
        ('verify_end_of_input', r'verify_end_of_input$'), ('parse_file_header', r'parse_file_header$'),
        ('parse_attribute_text', r'parse_attribute_text$'), ('parse_element', r'parse_element$'),
        ('ElementName::from_bytes', r'ElementName::from_bytes$')])
    # verify_end_of_input: non-EOF edge calls optional_error(AdditionalDataError)
    ve = P.get('ArxmlParser::verify_end_of_input')
    ade = agg_positions(ve, 'ArxmlParserError', 'AdditionalDataError')
    oe = [pos for pos, t in ve.calls_to(r'optional_error$')]
    C.check(bool(oe) and bool(ve.calls_to and list(ve.calls_to(r'ArxmlLexer.*::next$'))), 'C08-MUST-checks', 'verify_end_of_input|reports-trailing-data',
            'verify_end_of_input no longer reports data after the root element')
    # verify_end_of_input: a literal Ok is returned only for the EndOfFile event; every other way to an Ok passes optional_error
    # (returning the Result of optional_error itself - tail position - is such a way).  Formulated over edges, not over the number of exits.
    voks = ok_exits(ve)
    nx = [pos for pos, t in ve.calls_to(r'ArxmlLexer.*::next$')]
    ev = P.adts.get('ArxmlEvent')
    eof_idx = [str(i) for i, v in enumerate(ev['variants']) if v['name'] == 'EndOfFile'] if ev else []
    cut = set()
    eof_shared = []
    for pos, st in ve.iter_stmts():
        if st['k'] == 'assign' and st['rv']['k'] == 'discr' and not st['dst']['p']:
            pl = st['rv']['pl']
            # the discriminant of the ArxmlEvent of the lexer result (moved into a local of its own, or still inside the tuple / Result):
            # a switch with a target for the index of EndOfFile (Result / ControlFlow discriminants only have 0 and 1)
            if 'ArxmlEvent' in (ve.local_ty(pl['l']) or ''):
                sw = ve.blocks[pos[0]]['term']
                if sw['k'] == 'switch' and is_local_op(sw['d']) and sw['d']['l'] == st['dst']['l'] and eof_idx:
                    tgt = dict(sw['ts']).get(eof_idx[0])
                    if tgt is not None:
                        cut.add((pos[0], tgt))
                        # the edge is identified by its target block: no OTHER event may share the arm of EndOfFile (`EndOfFile | Comment(_) => Ok(())`)
                        shared = [v for v, tb in sw['ts'] if tb == tgt and v != eof_idx[0]] + (['_'] if sw['else'] == tgt else [])
                        if shared:
                            eof_shared.append((pos, shared))
    if not nx or not eof_idx or not cut:
        C.anchor_missing('C08-MUST-checks', 'verify_end_of_input: lexer.next / test for the EndOfFile event')
    else:
        # (flag-sensitive: `if matches!(event, EndOfFile) { return Ok(()) }` first materialises the bool)
        ok = must_pass(ve, nx[0], voks, oe, avoid_edges=cut, include_start=False, precise=True) if voks else True
        ret_other = [pos for pos, t in ve.iter_calls() if t['dst']['l'] == 0 and not t['dst']['p'] and not call_matches(t, r'optional_error$|from_residual$')]
        if eof_shared:
            names_ = [ev['variants'][int(v)]['name'] if v != '_' else 'other events' for v in eof_shared[0][1]]
            C.fail('C08-MUST-checks', 'verify_end_of_input|EndOfFile-arm-shared|' + '+'.join(names_), 'verify_end_of_input treats %s like EndOfFile (same match arm): data after the root element is accepted without a finding' % ', '.join(names_), ve.where(eof_shared[0][0]))
        C.check(ok and not ret_other, 'C08-MUST-checks', 'verify_end_of_input|ok-only-for-EOF-or-after-report', 'verify_end_of_input can return Ok for an event other than EndOfFile without passing optional_error(AdditionalDataError)',
                ve.where(voks[0]) if voks else '', sample={'fn': 'verify_end_of_input', 'ok_exits': len(voks), 'must_pass': 'optional_error unless the event is EndOfFile'})

    # parse_attribute_text
    pt = P.get('ArxmlParser::parse_attribute_text')
    attr_aggs = agg_positions(pt, 'Attribute', 'Attribute')
    dominating_calls(C, P, 'ArxmlParser::parse_attribute_text', 'accepted attribute', attr_aggs, [
        ('AttributeName::from_bytes', r'AttributeName::from_bytes$'), ('find_attribute_spec', r'find_attribute_spec$'),
        ('check_version', r'check_version$'), ('parse_character_data', r'parse_character_data$')])
    dominating_calls(C, P, 'ArxmlParser::parse_attribute_text', 'Ok exit', ok_exits(pt), [
        ('required-attribute loop', r'AttrDefinitionsIter as .*Iterator>::next$'),
        ('trailing-garbage test', r'<impl \[T\]>::is_empty$')])
    for var in ('UnknownAttributeError', 'AttributeValueError', 'RequiredAttributeMissing', 'AttributeVersionError'):
        C.check(len(agg_positions(pt, 'ArxmlParserError', var)) >= 1, 'C08-MUST-checks', 'parse_attribute_text|reports:%s' % var, 'parse_attribute_text no longer reports %s' % var)

    # parse_character_data, per arm
    pc = P.get('ArxmlParser::parse_character_data')
    arms = spec_arms(P, pc)
    if not arms:
        C.anchor_missing('C08-MUST-checks', 'parse_character_data: switch on CharacterDataSpec discriminant')
        return
    def in_arm(name, positions):
        r = pc.reach_from((arms[name], 0), include_start=True)
        return [p for p in positions if p in r]
    enum_ok = in_arm('Enum', agg_positions(pc, 'CharacterData', 'Enum'))
    dominating_calls(C, P, 'ArxmlParser::parse_character_data', 'Enum value accepted', enum_ok, [
        ('EnumItem::from_bytes', r'EnumItem::from_bytes$'), ('membership in items', r'Iterator>::find'), ('check_version', r'check_version$')])
    pat_ok = in_arm('Pattern', agg_positions(pc, 'CharacterData', 'String'))
    str_ok = in_arm('String', agg_positions(pc, 'CharacterData', 'String'))
    # Pattern: indirect call through check_fn dominates; false edge passes optional_error
    ind = [(pos, t) for pos, t in pc.iter_calls() if is_local_op(t['f'])]
    ind = [(pos, t) for pos, t in ind if any(o[0] == 'place' and has_field(o[1], 'CharacterDataSpec.check_fn') for o in origins(pc, t['f']))]
    C.check(len(ind) == 1, 'C08-MUST-checks', 'parse_character_data|Pattern|check_fn-call', 'expected exactly one call through Pattern.check_fn, found %d' % len(ind))
    oe = [pos for pos, t in pc.calls_to(r'optional_error$')]
    if len(ind) == 1 and pat_ok:
        ipos, it = ind[0]
        for tp in pat_ok:
            C.check(pc.pos_dominates(ipos, tp), 'C08-MUST-checks', 'parse_character_data|Pattern value accepted|needs:check_fn', 'a Pattern value is accepted without running its validator', pc.where(tp))
        # edge where check_fn returned false: switch on result, value 0
        tb = it['t']
        tt = pc.blocks[tb]['term']
        if tt['k'] == 'switch':
            false_t = dict(tt['ts']).get('0')
            ok = false_t is not None and must_pass(pc, (false_t, 0), pat_ok, oe)
            C.check(ok, 'C08-MUST-checks', 'parse_character_data|Pattern|validator-false-edge-reports', 'a value rejected by its pattern validator is accepted without a finding', pc.where(ipos),
                    sample={'fn': 'parse_character_data', 'arm': 'Pattern', 'must_pass': 'optional_error(RegexMatchError) on check_fn==false'})
        else:
            C.fail('C08-MUST-checks', 'parse_character_data|Pattern|validator-result-not-tested', 'result of check_fn is not branched on', pc.where(ipos))
    elif not pat_ok:
        C.anchor_missing('C08-MUST-checks', 'parse_character_data Pattern arm accept points')
    # the pattern (and the length limit) is applied to the DECODED text, i.e. to the value that is stored: a text whose escaped form matches
    # but whose decoded form does not (`1.0.0;&#10;x` for [0-9]+\.[0-9]+\.[0-9]+([\._;].*)?) would be accepted although the stored value violates its pattern
    if len(ind) == 1:
        from flow import deep_sources as _ds
        n_, c_, f_ = _ds(pc, ind[0][1]['args'][0], depth=14) if ind[0][1]['args'] else (set(), set(), set())
        C.check(any((x or '').endswith('unescape_string') for x in c_), 'C08-MUST-checks', 'parse_character_data|Pattern|validator-sees-decoded-text',
                'the pattern validator is applied to the text before entity decoding while the decoded text is stored: a value whose decoded form violates its pattern is accepted by strict loading (and a valid value written with a character reference is rejected)',
                pc.where(ind[0][0]), sample={'fn': 'parse_character_data', 'arm': 'Pattern', 'validated': 'result of unescape_string'})
    # max_length tests: a read of .max_length in each of Pattern and String arms, compared, true edge reports
    for arm, accepts in (('Pattern', pat_ok), ('String', str_ok)):
        gts = []
        for pos, s in pc.iter_stmts():
            if s['k'] == 'assign' and s['rv']['k'] == 'bin' and s['rv']['op'] == 'Gt' and pos in pc.reach_from((arms[arm], 0), include_start=True):
                gts.append(pos)
        C.check(len(gts) >= 1, 'C08-MUST-checks', 'parse_character_data|%s|length-compare' % arm, 'no `len > max_length` comparison in the %s arm' % arm)
        if arm == 'Pattern':
            from flow import deep_sources as _ds2
            for g in gts:
                st_ = pc.blocks[g[0]]['stmts'][g[1]]
                cs_ = set()
                for o_ in (st_['rv']['a'], st_['rv']['b']):
                    if is_local_op(o_):
                        cs_ |= _ds2(pc, o_, depth=14)[1]
                C.check(any((x or '').endswith('unescape_string') for x in cs_), 'C08-MUST-checks', 'parse_character_data|Pattern|length-of-decoded-text',
                        'the length limit of a Pattern value is compared with the length of the text before entity decoding, not with the length of the stored value', pc.where(g))
        for g in gts:
            # the comparison feeds a switch; on its true edge optional_error must be passed before any accept
            bi = g[0]
            tt = pc.blocks[bi]['term']
            if tt['k'] == 'switch':
                true_t = tt['else']
                ok = must_pass(pc, (true_t, 0), accepts, oe)
                C.check(ok, 'C08-MUST-checks', 'parse_character_data|%s|too-long-edge-reports' % arm, 'an over-long %s value is accepted without a finding' % arm, pc.where(g),
                        sample={'fn': 'parse_character_data', 'arm': arm, 'must_pass': 'optional_error(StringValueTooLong) on len > max'})
        # every path from the arm entry to an accept passes the comparison, unless it leaves over the
        # `max_length.is_some() == false` edge (no limit specified)
        cut = set()
        for pos, t in pc.calls_to(r'Option::<.*>::is_some$|Option::<T>::is_some$'):
            if pos in pc.reach_from((arms[arm], 0), include_start=True):
                tb = t['t']
                tt = pc.blocks[tb]['term']
                if tt['k'] == 'switch':
                    f_t = dict(tt['ts']).get('0')
                    if f_t is not None:
                        cut.add((tb, f_t))
        # `if let Some(limit) = *max_length`: the None edge of a pattern test on the limit itself
        from flow import deep_sources as _ds3
        reach_ = pc.reach_from((arms[arm], 0), include_start=True)
        for pos, st in pc.iter_stmts():
            if pos in reach_ and st['k'] == 'assign' and st['rv']['k'] == 'discr' and 'Option<usize>' in (pc.local_ty(st['rv']['pl']['l']) or '').replace('std::option::', ''):
                if any(f.endswith('max_length') for f in _ds3(pc, st['rv']['pl'], depth=8)[2]) or any(f.endswith('max_length') for f in [x[1:] for x in st['rv']['pl']['p'] if x.startswith('.')]):
                    tt = pc.blocks[pos[0]]['term']
                    if tt['k'] == 'switch' and is_local_op(tt['d']) and tt['d']['l'] == st['dst']['l']:
                        cut.add((pos[0], dict(tt['ts']).get('0', tt['else'])))
        ok = must_pass(pc, (arms[arm], 0), accepts, gts, avoid_edges=cut)
        C.check(ok and bool(accepts), 'C08-MUST-checks', 'parse_character_data|%s value accepted|needs:length-test' % arm, 'a %s value can be accepted without the length test although a limit is specified' % arm, pc.where(accepts[0]) if accepts else '')
    dominating_calls(C, P, 'ArxmlParser::parse_character_data', 'String value accepted', str_ok, [
        ('from_utf8', r'str::from_utf8|converts::from_utf8'), ('unescape_string', r'unescape_string$')])
    dominating_calls(C, P, 'ArxmlParser::parse_character_data', 'Pattern value accepted(utf8)', pat_ok, [('from_utf8', r'str::from_utf8|converts::from_utf8')])
    for arm, var, rx in (('UnsignedInteger', 'UnsignedInteger', r'str>::parse::<u64>'), ('Float', 'Float', r'str>::parse::<f64>')):
        acc = in_arm(arm, agg_positions(pc, 'CharacterData', var))
        dominating_calls(C, P, 'ArxmlParser::parse_character_data', '%s value accepted' % arm, acc, [('parse', rx), ('from_utf8', r'from_utf8')])
    for var in ('UnknownEnumItem', 'InvalidEnumItem', 'EnumItemVersionError', 'StringValueTooLong', 'RegexMatchError', 'Utf8Error', 'InvalidNumber'):
        n = sum(len(agg_positions(x, 'ArxmlParserError', var)) for x in P.with_closures(pc))
        C.check(n >= 1, 'C08-MUST-checks', 'parse_character_data|reports:%s' % var, 'parse_character_data no longer reports %s' % var)

    # unescape_string: a raw '&' is put into the result only (a) for the entity &amp; or (b) after the malformed entity was reported in
    # the same iteration.  Stated per push site (not by counting arms): a push of the constant '&' lies in the blocks that only the true
    # edge of starts_with("&amp;") reaches, or an optional_error call dominates it and reaches it without passing the loop header.
    us = P.get('ArxmlParser::unescape_string')
    oe = [pos for pos, t in us.calls_to(r'optional_error$')]
    C.check(len(oe) >= 1 and len(agg_positions(us, 'ArxmlParserError', 'InvalidXmlEntity')) >= 1, 'C08-MUST-checks', 'unescape_string|reports-InvalidXmlEntity', 'unescape_string no longer reports a malformed entity through optional_error(InvalidXmlEntity)')
    C.check(len(agg_positions(us, 'ArxmlParserError', 'InvalidXmlEntity')) == len(oe), 'C08-MUST-checks', 'unescape_string|failure-arms-report-InvalidXmlEntity', 'a failure arm reports something else')
    from c01 import _str_const, _unq, _dominated
    amp_regions = set()
    for pos, t in us.iter_calls():
        if call_matches(t, r'<impl str>::starts_with$|str>::starts_with$') and len(t['args']) > 1 and _unq(_str_const(us, t['args'][1])) == '&amp;':
            from flow import switch_edges_on_call_result as _sw
            sw_ = _sw(us, pos)
            if sw_:
                amp_regions |= _dominated(us, sw_[2])
    amp = []
    for pos, t in us.calls_to(r'String::push$'):
        if len(t['args']) > 1 and const_val(t['args'][1]) == "'&'":
            amp.append(pos)
    # a tuple ('&', n) selected for the &amp; entity and pushed later as a variable is not a raw ampersand
    loops = us.natural_loops()
    heads = {(h, 0) for h, _ in loops}
    bad = []
    for p in amp:
        if p[0] in amp_regions:
            continue
        if any(us.pos_dominates(o, p) and p in us.reach_from(o, avoid=heads) for o in oe):
            continue
        bad.append(p)
    C.check(not bad and bool(amp_regions or amp), 'C08-MUST-checks', 'unescape_string|raw-ampersand-only-after-report',
            "unescape_string pushes a raw '&' outside the &amp; arm without having reported the malformed entity in the same iteration", us.where(bad[0]) if bad else '',
            sample={'fn': 'unescape_string', 'pushes_of_amp': len(amp), 'unguarded': len(bad)})

    # numeric character references: std's integer parsers also accept a leading '+', which XML does not; the digits are therefore tested
    # by form (all ascii (hex) digits) on the way to every conversion
    from pairing import guarded_by_true as _gbt
    nconv = 0
    for ux in P.with_closures(us):
        convs = [pos for pos, t in ux.iter_calls() if call_matches(t, r'from_str_radix$|FromStr>?::from_str$|<impl str>::parse$')]
        forms = [pos for pos, t in ux.iter_calls() if call_matches(t, r'Iterator>?::all$')]
        for cp in convs:
            nconv += 1
            okf = any(_gbt(ux, cp, fp) or _gbt(ux, cp, fp, negate=True) and False for fp in forms)
            if not okf:
                # `if !digits.all(..) { return None }`: the conversion is only reachable over the FALSE edge of the negated test, which is the
                # true edge of all(): accept a Not between the call and the switch
                from flow import forward_taint as _ft
                for fp in forms:
                    tf = ux.blocks[fp[0]]['term']
                    tl = _ft(ux, {tf['dst']['l']}, through_refs=False)
                    for q3, s3 in ux.iter_stmts():
                        if s3['k'] == 'assign' and s3['rv']['k'] == 'un' and s3['rv'].get('op') == 'Not' and is_local_op(s3['rv']['o']) and s3['rv']['o']['l'] in tl:
                            nl = _ft(ux, {s3['dst']['l']}, through_refs=False)
                            for q4, t4 in ux.iter_terms():
                                if t4['k'] == 'switch' and is_local_op(t4['d']) and t4['d']['l'] in nl and set(dict(t4['ts']).keys()) == {'0'}:
                                    # needed edge must be the FALSE edge of the negation
                                    if must_pass(ux, (0, 0), [cp], through=(), avoid_edges={(q4[0], dict(t4['ts'])['0'])}):
                                        okf = True
            C.check(okf, 'C08-MUST-checks', 'unescape_string|character-reference-digits-tested-by-form', 'a numeric character reference is converted with a std integer parser without a test that it consists of digits only: "&#x+41;" / "&#+65;" are accepted as "A" by strict loading although they are malformed',
                    ux.where(cp), sample={'fn': 'unescape_string', 'conversion_guarded_by': 'bytes().all(is_ascii_(hex)digit)'} if nconv == 1 else None)
    C.check(nconv >= 1, 'C08-MUST-checks', 'unescape_string|numeric-reference-conversion', 'no character-reference conversion found in unescape_string (radix coverage is decided by C01-SIB-escape reader-numeric-references)')

    # element-level reports exist
    fe = P.get('ArxmlParser::find_element_in_spec_checked')
    n = sum(len(agg_positions(x, 'ArxmlParserError', 'IncorrectBeginElement')) for x in P.with_closures(fe))
    C.check(n >= 1 and len(agg_positions(fe, 'ArxmlParserError', 'ElementVersionError')) >= 1 and len(list(fe.calls_to(r'check_version$'))) >= 1,
            'C08-MUST-checks', 'find_element_in_spec_checked|reports-context-and-version', 'unknown-in-context / version-foreign element no longer reported')
    # in find_element_in_spec_checked the version-specific lookup uses the file version and the fallback result passes check_version
    fse = list(fe.calls_to(r'ElementType::find_sub_element$'))
    C.check(len(fse) + sum(len(list(x.calls_to(r'ElementType::find_sub_element$'))) for x in P.closures_of(fe)) >= 2, 'C08-MUST-checks', 'find_element_in_spec_checked|two-lookups', 'expected version-specific lookup + fallback lookup')
    oks = ok_exits(fe)
    cv = [pos for pos, t in fe.calls_to(r'check_version$')]
    if fse and oks:
        first = fse[0][0]
        tb = fe.blocks[first[0]]['term']['t']
        # Some edge of the first lookup (version-specific) may bypass check_version; None edge must pass it
        ok = False
        for pos, t in fe.iter_terms():
            if t['k'] == 'switch' and pos[0] != first[0] and fe.pos_dominates(first, pos):
                d = dict(t['ts'])
                none_ts = [b for v, b in t['ts'] if v != '1'] + ([t['else']] if '0' not in d else [])
                ok = bool(none_ts) and all(must_pass(fe, (nt, 0), oks, cv) for nt in none_ts)
                break
        C.check(ok, 'C08-MUST-checks', 'find_element_in_spec_checked|fallback-passes-check_version', 'an element found only in other versions is accepted without the version check')
    ce = P.get('ArxmlParser::check_element_conflict')
    C.check(len(agg_positions(ce, 'ArxmlParserError', 'ElementChoiceConflict')) == 1 and len(list(ce.calls_to(r'find_common_group$'))) == 1 and len(list(ce.calls_to(r'optional_error$'))) == 1,
            'C08-MUST-checks', 'check_element_conflict|reports-choice-conflict', 'exclusive-choice conflict no longer reported')
    cmu = P.get('ArxmlParser::check_multiplicity')
    # the list that is scanned may be handed in by the caller (`check_multiplicity(.., &element.content)`): judge the function inside its caller
    pe_cm = P.view_inlined(P.get('ArxmlParser::parse_element'), r'ArxmlParser[^:]*(::<[^>]*>)?::check_multiplicity$')
    # the duplicate test quantifies over the WHOLE content list of the parent (the parser does not enforce order, so a
    # repeated element need not be adjacent)
    okq = False
    n_pe_blocks = len(P.get('ArxmlParser::parse_element').blocks)
    for cmx in (cmu, pe_cm):
      for pos, t in cmx.iter_calls():
        if cmx is pe_cm and pos[0] < n_pe_blocks:
            continue        # only the inlined copy of check_multiplicity
        if call_matches(t, r'Iterator>?::(any|find|position|filter|all|next|count|fold|try_fold|for_each|find_map|filter_map)$'):
            from flow import deep_sources
            n_, c_, f_ = deep_sources(cmx, t['args'][0], depth=12)
            if 'ElementRaw.content' in f_ and any(c.endswith('::iter') or 'into_iter' in c for c in c_) and not any(re.search(r'::(last|first|rev|skip|take|nth|get|split_last|windows)$', c) for c in c_):
                okq = True
    C.check(okq, 'C08-MUST-checks', 'check_multiplicity|quantifies-over-all-content', 'the multiplicity check no longer examines every existing sub element of the parent (a repeated single-occurrence element with something in between is accepted)',
            '%s:%d' % (cmu.file, cmu.line), sample={'fn': 'check_multiplicity', 'quantifier': 'element.content.iter().any(..)'})
    C.check(len(agg_positions(cmu, 'ArxmlParserError', 'TooManySubElements')) == 1 and len(list(cmu.calls_to(r'get_sub_element_multiplicity$'))) == 1 and len(list(cmu.calls_to(r'optional_error$'))) == 1,
            'C08-MUST-checks', 'check_multiplicity|reports-excess', 'multiplicity excess no longer reported')


def spec_arms(P, pc):
    """map variant name -> target block of the switch on discriminant(*character_data_spec)."""
    adt = P.adts.get('CharacterDataSpec')
    if not adt:
        return None
    names = [v['name'] for v in adt['variants']]
    pl = None
    for l, n in pc.names.items():
        if n == 'character_data_spec':
            pl = l
    for pos, s in pc.iter_stmts():
        if s['k'] == 'assign' and s['rv']['k'] == 'discr' and s['rv']['pl']['l'] == pl:
            dl = s['dst']['l']
            t = pc.blocks[pos[0]]['term']
            if t['k'] == 'switch' and is_local_op(t['d']) and t['d']['l'] == dl:
                arms = {}
                for v, bb in t['ts']:
                    arms[names[int(v)]] = bb
                missing = [n for n in names if n not in arms]
                if len(missing) == 1:
                    arms[missing[0]] = t['else']
                return arms
    return None

"""C13 - deep copy and model duplication are faithful and independent: a copy shares no node with its source, the
source is only read, every field of a node is copied, duplicate() builds the copy only through the new model."""
import re
from ir import Program, callee_of, callee_generic, has_field, ends_in_field
from flow import origins, is_local_op, call_matches, must_pass, source_names, strict_source_roots, iter_uses, forward_taint, resolve_place, deep_sources, switch_edges_on_call_result
import events as E
from pairing import calls, dominated_by
from framework import Check
from locks import BodyLocks, own_str


def value_sources(b, o, depth=14, seen=None):
    """calls / aggregates a value is built from (through copies, Ok/Some payload moves and Try::branch)."""
    if seen is None:
        seen = set()
    out = []
    for org in origins(b, o):
        if org[0] == 'param':
            out.append(('param', b.names.get(org[1], org[1])))
        elif org[0] == 'const':
            out.append(('const', ''))
        elif org[0] == 'place':
            pl = org[1]
            if pl['l'] in seen or depth == 0:
                continue
            seen.add(pl['l'])
            out.extend(value_sources(b, {'l': pl['l'], 'p': []}, depth - 1, seen))
        else:
            st = org[1]
            if st.get('k') == 'call':
                if call_matches(st, r'Try>::branch$|Option::<T>::(unwrap|expect|ok_or.*)$|Result::<T, E>::(unwrap|ok|expect)$') and st['args']:
                    out.extend(value_sources(b, st['args'][0], depth - 1, seen))
                else:
                    out.append(('call', callee_of(st) or callee_generic(st) or '?'))
            elif st.get('k') == 'assign' and st['rv']['k'] == 'agg':
                out.append(('agg', '%s::%s' % (st['rv'].get('adt'), st['rv'].get('var'))))
            else:
                out.append(('other', st.get('k')))
    return out


def run(ctx):
    C = Check('C13', ctx['tier'], 'other', ctx['seed'])
    P = Program(ctx['facts'])
    C.rule('C13-FLOW-fresh', 'in deep_copy every Element stored into the copy is the result of a recursive deep_copy (never a clone of a source handle); attributes, comment and character data are copied by value; write locks are only taken on fresh objects, the source is only read-locked')
    C.rule('C13-SIB-fields', 'deep_copy covers every field of ElementRaw: each is taken from the source, except parent and file_membership which are reset by design')
    C.rule('C13-MUST-duplicate', 'duplicate() creates files through create_file on the new model, copies content only through create_copied_sub_element on the new root, copies xml_standalone, and rebuilds file membership only from handles of the new model')
    dc = P.get('ElementRaw::deep_copy')
    # ---- fresh ----
    ops = E.content_ops(dc)
    el = [o for o in ops if o['kind'] == 'insert' and o['item'] == 'Element']
    cd = [o for o in ops if o['kind'] == 'insert' and o['item'] == 'CharacterData']
    if len(el) < 1 or len(cd) != 1:
        C.anchor_missing('C13-FLOW-fresh', 'deep_copy content pushes')
        return C.finish('fail closed')
    for i, e1 in enumerate(el):
        src = value_sources(dc, e1['inner'])
        ok = bool(src) and all(k == 'call' and v.endswith('ElementRaw>::deep_copy') for k, v in src)
        C.check(ok, 'C13-FLOW-fresh', 'copied-child-is-a-deep-copy|#%d' % i, 'deep_copy stores a sub element that does not (only) come from a recursive deep_copy: %s - copy and source would share a node' % [v.rsplit('::', 1)[-1] for k, v in src], dc.where(e1['pos']),
                sample={'fn': 'deep_copy', 'child_source': [v.rsplit('::', 1)[-1] for k, v in src]})
    srcc = value_sources(dc, cd[0]['inner'])
    C.check(bool(srcc) and all(k == 'call' and 'CharacterData as std::clone::Clone>::clone' in v for k, v in srcc), 'C13-FLOW-fresh', 'character-data-by-value', 'character data is not copied by CharacterData::clone: %s' % srcc)
    ap = [(pos, t) for pos, t in dc.iter_calls() if call_matches(t, r'SmallVec::<A>::push$') and (lambda rp: rp is not None and has_field(rp, 'ElementRaw.attributes'))(E.recv_place(dc, t))]
    C.check(len(ap) == 1 and all(k == 'call' and 'Attribute as std::clone::Clone>::clone' in v for k, v in value_sources(dc, ap[0][1]['args'][1])), 'C13-FLOW-fresh', 'attributes-by-value', 'attributes are not copied by Attribute::clone')
    # ---- version filter ----
    C.rule('C13-MUST-filter', 'deep_copy pushes an attribute only over the true edges of (a) AutosarVersion::compatible(mask of that attribute from find_attribute_spec) and (b) a check of the attribute VALUE against the target version; '
           'it pushes a sub element only over the Some/true edge of find_sub_element(name, target_version); a required attribute that is dropped makes the copy fail')
    from pairing import guarded_by_true
    if len(ap) == 1:
        site = ap[0][0]
        g_mask = g_val = False
        for cp in calls(dc, r'AutosarVersion>?::compatible$'):
            t = dc.blocks[cp[0]]['term']
            n0, c0, f0 = deep_sources(dc, t['args'][0])
            n1, c1, f1 = deep_sources(dc, t['args'][1])
            if 'target_version' in n0 | n1 and 'AttributeSpec.version' in f0 | f1 and any(c.endswith('find_attribute_spec') for c in c0 | c1) and guarded_by_true(dc, site, cp):
                g_mask = True
        for cp in calls(dc, r'CharacterData>?::check_version_compatibility$|CharacterData>?::check_value$'):
            t = dc.blocks[cp[0]]['term']
            allsrc = [deep_sources(dc, a) for a in t['args'] if is_local_op(a)]
            nn = set().union(*[x[0] for x in allsrc]); ff = set().union(*[x[2] for x in allsrc])
            if 'target_version' in nn and 'Attribute.content' in ff and 'AttributeSpec.spec' in ff and guarded_by_true(dc, site, cp, proj='.0' if call_matches(dc.blocks[cp[0]]['term'], r'check_version_compatibility$') else None):
                g_val = True
        C.check(g_mask, 'C13-MUST-filter', 'attribute|version-mask-of-the-attribute', 'deep_copy keeps an attribute without testing the attribute\'s own version mask against the target version: a copy into an older file contains attributes that do not exist there', dc.where(site),
                sample={'fn': 'deep_copy', 'guard': 'target_version.compatible(AttributeSpec.version)'})
        C.check(g_val, 'C13-MUST-filter', 'attribute|value-valid-in-target-version', 'deep_copy keeps an attribute without checking its value against the target version: enum values introduced later are copied into an older file', dc.where(site),
                sample={'fn': 'deep_copy', 'guard': 'attribute.content.check_version_compatibility(spec, target_version).0'})
        # dropping a required attribute fails the copy: the false edge region contains an Err exit guarded by AttributeSpec.required
        req_sw = [pos for pos, tt in dc.iter_terms() if tt['k'] == 'switch' and is_local_op(tt['d']) and 'AttributeSpec.required' in deep_sources(dc, tt['d'])[2]]
        C.check(len(req_sw) >= 1 and any(e[0] in dc.reach_from(req_sw[0]) or True for e in E.err_exit_positions(dc)) and bool(E.err_exit_positions(dc)), 'C13-MUST-filter', 'attribute|required-dropped-is-an-error',
                'deep_copy no longer tests AttributeSpec.required when an attribute is filtered out', dc.where(site))
    for i, e1 in enumerate(el):
        g = False
        for cp in calls(dc, r'Option::<T>::is_some$'):
            t = dc.blocks[cp[0]]['term']
            n0, c0, f0 = deep_sources(dc, t['args'][0])
            if any(c.endswith('ElementType::find_sub_element') for c in c0) and guarded_by_true(dc, e1['pos'], cp):
                fs = [dc.blocks[p2[0]]['term'] for p2 in calls(dc, r'ElementType::find_sub_element$')]
                if fs and all('target_version' in deep_sources(dc, f['args'][2])[0] and 'elemtype' in deep_sources(dc, f['args'][0])[0] for f in fs):
                    g = True
        # also accept `if let Some(..) = find_sub_element(..)`
        if not g:
            for cp in calls(dc, r'ElementType::find_sub_element$'):
                sw = switch_edges_on_call_result(dc, cp)
                if sw and 'target_version' in deep_sources(dc, dc.blocks[cp[0]]['term']['args'][2])[0] and 'elemtype' in deep_sources(dc, dc.blocks[cp[0]]['term']['args'][0])[0]:
                    blk, ts, els = sw
                    some = ts.get('1', els)
                    from pairing import iteration_start
                    if must_pass(dc, iteration_start(dc, e1['pos']), [e1['pos']], through=(), avoid_edges={(blk, some)}):
                        g = True
        C.check(g, 'C13-MUST-filter', 'sub-element|allowed-in-target-version|#%d' % i, 'deep_copy keeps a sub element without looking it up in the parent type for the target version (self.elemtype.find_sub_element(name, target_version))', dc.where(e1['pos']),
                sample={'fn': 'deep_copy', 'guard': 'self.elemtype.find_sub_element(name, target_version).is_some()'})
    # character content: only values permitted in the target version are copied
    gv = False
    for cp in calls(dc, r'Option::<T>::(is_none_or|is_some_and|map_or)$'):
        t = dc.blocks[cp[0]]['term']
        if not any(c.endswith('ElementType::chardata_spec') for c in deep_sources(dc, t['args'][0], depth=8)[1]):
            continue
        clo = [cb for cb in P.closures_of(dc) if calls(cb, r'CharacterData>?::check_version_compatibility$')]
        if clo and call_matches(t, r'is_none_or$') and guarded_by_true(dc, cd[0]['pos'], cp):
            gv = True
    C.check(gv, 'C13-MUST-filter', 'character-content|value-valid-in-target-version', 'deep_copy keeps character content without checking the value against the target version (enum items carry version masks): an element whose enum value was introduced later is copied into an older file',
            dc.where(cd[0]['pos']), sample={'fn': 'deep_copy', 'guard': 'chardata_spec().is_none_or(|spec| cdata.check_version_compatibility(spec, target_version).0)'})
    # registration of the copy in the destination index: exactly the identifiable elements of the copy
    ci = P.get('ElementRaw::create_copied_sub_element_inner')
    adds = [o for o in E.ident_ops(ci) if o['op'] == 'add']
    if len(adds) != 1:
        C.anchor_missing('C13-MUST-filter', 'add_identifiable in create_copied_sub_element_inner')
    else:
        okg = any(guarded_by_true(ci, adds[0]['pos'], cp) for cp in calls(ci, r'(impl Element|ElementRaw)>::is_identifiable$'))
        dfs = calls(ci, r'impl Element>::elements_dfs$')
        okl = bool(dfs) and any(adds[0]['pos'][0] in body for h, body in ci.natural_loops())
        C.check(okg and okl, 'C13-MUST-filter', 'copy-registered|every-identifiable-element-of-the-copy', 'the copied subtree is not registered in the destination index element by element under an is_identifiable() test (walk over elements_dfs of the new element)',
                ci.where(adds[0]['pos']), sample={'fn': 'create_copied_sub_element_inner', 'guard': 'sub_elem.is_identifiable()', 'walk': 'newelem.elements_dfs()'})
    # value types have no shared interior
    for ty, fields in (('Attribute', None), ('CharacterData', None)):
        adt = P.adts.get(ty)
        tys = [f['ty'] for v in adt['variants'] for f in v['fields']] if adt else ['?']
        C.check(adt is not None and not any(('Arc<' in t or 'Rc<' in t or 'Element' in t.replace('ElementName', '') or 'RwLock' in t) for t in tys), 'C13-FLOW-fresh', '%s|no-shared-interior' % ty, '%s contains a shared handle (%s): cloning it would share state between copy and source' % (ty, tys))
    # locks
    for fn in ('ElementRaw::deep_copy', 'ElementRaw::create_copied_sub_element_inner', 'ElementRaw::create_copied_sub_element', 'ElementRaw::create_copied_sub_element_at'):
        b = P.get(fn)
        BL = BodyLocks(P, b)
        for a in BL.acqs.values():
            if a.cls != 'Element':
                continue
            if a.mode == 'W':
                okw = all(o[0] == ('fresh',) for o in a.owns)
                C.check(okw, 'C13-FLOW-fresh', '%s|write-lock-on|%s' % (fn, '/'.join(own_str(o) for o in a.owns)), 'a write lock is taken on an object that is not freshly created in the copy path (the source must only be read)', a.where,
                        sample={'fn': fn, 'write_lock_owner': [own_str(o) for o in a.owns]})
            else:
                C.ok('C13-FLOW-fresh', '%s|read-lock-on|%s' % (fn, '/'.join(own_str(o) for o in a.owns)), 'read only')
    # the copied sub element gets the copy as its parent (not the source parent)
    ps = [p for p in E.parent_sets(dc) if p['how'] == 'field-assign']
    C.check(len(ps) == 1 and ps[0]['value'] == 'Element', 'C13-FLOW-fresh', 'copied-child-parent-is-copy', 'the copied child is not re-parented to the copy')
    # ---- fields ----
    adt = P.adts.get('ElementRaw')
    lit = [s for pos, s in dc.iter_stmts() if s['k'] == 'assign' and s['rv']['k'] == 'agg' and s['rv'].get('adt') == 'ElementRaw']
    if not adt or len(lit) != 1:
        C.anchor_missing('C13-SIB-fields', 'ElementRaw literal in deep_copy')
    else:
        fields = [f['n'] for f in adt['variants'][0]['fields']]
        lf = dict(zip(lit[0]['rv']['fields'], lit[0]['rv']['ops']))
        reset = {'parent': 'ElementOrModel::None', 'file_membership': 'HashSet::with_capacity'}
        for f in fields:
            if f not in lf:
                C.fail('C13-SIB-fields', 'field|%s|missing' % f, 'ElementRaw.%s is not initialised in deep_copy' % f)
                continue
            vs = value_sources(dc, lf[f])
            if f in reset:
                okf = all((k == 'agg' and v == 'ElementOrModel::None') or (k == 'call' and 'HashSet' in v and 'with_capacity' in v) for k, v in vs)
                C.check(okf, 'C13-SIB-fields', 'field|%s|reset' % f, 'ElementRaw.%s is expected to be reset in a copy but is built from %s' % (f, vs))
                continue
            if f == 'elemtype':
                # the copy has the type its NEW parent prescribes: the parameter of deep_copy, which the two callers take from
                # find_sub_element(name, target version) on the type of the destination parent / of the copy one level up
                n_, c_, f_ = deep_sources(dc, lf[f])
                okt = 'elemtype' in n_ and 'self' not in n_
                rcalls = calls(dc, r'ElementRaw>::deep_copy$')
                for cp in rcalls:
                    a_n, a_c, a_f = deep_sources(dc, dc.blocks[cp[0]]['term']['args'][2], depth=12)
                    okt = okt and any(c.endswith('ElementType::find_sub_element') for c in a_c) and 'elemtype' in a_n
                ci2 = P.get('ElementRaw::create_copied_sub_element_inner')
                top = calls(ci2, r'ElementRaw>::deep_copy$')
                okt = okt and len(top) == 1 and len(rcalls) == 1
                if okt:
                    a_n, a_c, a_f = deep_sources(ci2, ci2.blocks[top[0][0]]['term']['args'][2], depth=12)
                    fs2 = [ci2.blocks[q[0]]['term'] for q in calls(ci2, r'ElementType::find_sub_element$')]
                    okt = any(c.endswith('ElementType::find_sub_element') for c in a_c) and bool(fs2) and all('ElementRaw.elemtype' in deep_sources(ci2, t2['args'][0])[2] and 'self' in deep_sources(ci2, t2['args'][0])[0] and 'version' in deep_sources(ci2, t2['args'][2])[0] for t2 in fs2)
                C.check(okt, 'C13-SIB-fields', 'field|elemtype|type-prescribed-by-destination', 'the copy (or a copied sub element) does not get the element type that the destination parent prescribes for its name in the target version (find_sub_element on the destination type): the same element name has different types in different parents, the copy would not validate',
                        sample={'field': 'elemtype', 'source': 'dest_parent_type.find_sub_element(name, target_version)'})
                continue
            # taken from self: a read of (*self).f, a clone of it, or a container sized from it (and filled by a loop over it)
            n_, c_, f_ = deep_sources(dc, lf[f])
            from_self = ('ElementRaw.' + f) in f_ and 'self' in n_
            if f in ('content', 'attributes'):
                # filled by a loop that iterates self.<f>
                filled = False
                for pos, t in dc.iter_calls():
                    if call_matches(t, r'IntoIterator>::into_iter$'):
                        rp = E.recv_place(dc, t)
                        if rp is not None and has_field(rp, 'ElementRaw.' + f) and resolve_place(dc, rp)['l'] == 1:
                            filled = True
                from_self = from_self and filled
            C.check(from_self, 'C13-SIB-fields', 'field|%s|copied-from-source' % f, 'ElementRaw.%s of the copy is not taken from the source element' % f, sample={'field': f, 'copied': from_self})
        C.floor('C13-SIB-fields', len(fields), 7)
    # ---- duplicate ----
    du = P.get('AutosarModel::duplicate')
    copy_l = {l for l, n in du.names.items() if n == 'copy'}
    news = calls(du, r'AutosarModel>::new$')
    C.check(len(news) == 1, 'C13-MUST-duplicate', 'copy-is-new-model', 'duplicate no longer starts from AutosarModel::new()')
    cf = [(pos, t) for pos, t in du.iter_calls() if call_matches(t, r'AutosarModel>::create_file$')]
    C.check(len(cf) == 1 and 'copy' in source_names(du, cf[0][1]['args'][0]), 'C13-MUST-duplicate', 'files-created-on-copy', 'files of the duplicate are not created through create_file on the new model')
    cc = [(pos, t) for pos, t in du.iter_calls() if call_matches(t, r'impl Element>::create_copied_sub_element$')]
    okc = len(cc) == 1
    if okc:
        n_, c_, f_ = deep_sources(du, cc[0][1]['args'][0])
        okc = 'copy' in n_ and any(c.endswith('AutosarModel>::root_element') for c in c_) and 'self' not in n_
    C.check(okc, 'C13-MUST-duplicate', 'content-through-create_copied_sub_element', 'the duplicate\'s content is not built through create_copied_sub_element on the new root')
    # no other way of putting elements into the copy: duplicate itself has no content ops / parent sets
    C.check(not E.content_ops(du) and not E.parent_sets(du), 'C13-MUST-duplicate', 'no-direct-linking', 'duplicate links elements directly (sharing risk)')
    # xml_standalone copied
    st = [pos for pos, s in du.iter_stmts() if s['k'] == 'assign' and ends_in_field(s['dst'], 'ArxmlFileRaw.xml_standalone')]
    rd = [pos for pos, role, pl, s in iter_uses(du) if is_local_op(pl) and has_field(pl, 'ArxmlFileRaw.xml_standalone') and role.startswith('use')]
    okdir = len(st) == 1 and len(rd) >= 1
    if okdir:
        sst = du.blocks[st[0][0]]['stmts'][st[0][1]]
        dn, dc_, df = deep_sources(du, {'l': sst['dst']['l'], 'p': []}, depth=14)
        rv = sst['rv']
        vsrc = [o for o in ([rv['pl']] if 'pl' in rv else [rv.get('o')]) if isinstance(o, dict)]
        vn, vc, vf = deep_sources(du, vsrc[0], depth=14) if vsrc else (set(), set(), set())
        # written on a file created for the copy, read from a file of the original
        okdir = any(c.endswith('AutosarModel>::create_file') for c in dc_) and not any(c.endswith('AutosarModel>::create_file') for c in vc) and 'ArxmlFileRaw.xml_standalone' in vf
    C.check(okdir, 'C13-MUST-duplicate', 'xml_standalone-copied', 'xml_standalone is not transferred from the original file to the file created for the duplicate (missing, or written in the wrong direction: the original is modified and the copy never gets the flag)',
            du.where(st[0]) if st else '', sample={'fn': 'duplicate', 'store': 'new_file.xml_standalone = orig_file.xml_standalone'})
    # duplicate() never writes through a handle of the original model: every write lock / store target derives from the new model
    for pos, s_ in du.iter_stmts():
        if s_['k'] == 'assign' and any(p_.startswith('.ArxmlFileRaw.') or p_.startswith('.ElementRaw.') or p_.startswith('.AutosarModelRaw.') for p_ in s_['dst'].get('p', [])):
            dn, dc_, df = deep_sources(du, {'l': s_['dst']['l'], 'p': []}, depth=14)
            C.check('self' not in dn, 'C13-MUST-duplicate', 'no-store-into-the-original|%s' % [p_ for p_ in s_['dst']['p'] if p_.startswith('.')][-1], 'duplicate() stores into an object reached from the original model (self): the source of a duplication must stay unchanged', du.where(pos))
    # the root element itself is not copied by create_copied_sub_element: its own comment and attributes are transferred
    for fld in ('comment', 'attributes'):
        okr = False
        for pos, t in du.iter_calls():
            if call_matches(t, r'Clone>::clone_from$|Clone>::clone$|ToOwned>::clone_into$'):
                srcs = [deep_sources(du, a, depth=14) for a in t['args'] if is_local_op(a)]
                flds = set().union(*[x[2] for x in srcs]) if srcs else set()
                cs_ = set().union(*[x[1] for x in srcs]) if srcs else set()
                if ('ElementRaw.' + fld) in flds and any(c.endswith('AutosarModel>::root_element') for c in cs_):
                    okr = True
        C.check(okr, 'C13-MUST-duplicate', 'root-%s-transferred' % fld, 'duplicate() does not transfer the %s of the root element itself (only its sub elements are copied): the duplicate serializes to a different text' % fld,
                '%s:%d' % (du.file, du.line), sample={'fn': 'duplicate', 'root_field': fld})
    # membership rebuilt from the new model's file handles only.  Provenance, not names: the handles put into file_membership come
    # out of a map lookup (filemap.get), the map is filled with handles that derive from create_file of the new model, and no value
    # derives from the original's membership set without passing that lookup.  The insertion may sit in a closure of an iterator chain
    # (`.filter_map(|f| filemap.get(..).cloned()).for_each(|f| set.insert(f))`): then the value is the closure parameter and the lookup
    # must be in a sibling closure of duplicate().
    dus = P.with_closures(du)
    ins = []
    for x in dus:
        for pos, t in x.iter_calls():
            if call_matches(t, r'HashSet::<T, S, A>::(insert|extend)$|Extend<.*>>::extend$'):
                rp = E.recv_place(x, t)
                nm, cs_, fl = deep_sources(x, t['args'][0], depth=10) if t['args'] else (set(), set(), set())
                if (rp is not None and has_field(rp, 'ElementRaw.file_membership')) or 'ElementRaw.file_membership' in fl:
                    ins.append((x, pos, t))
    lookups = [(x, pos) for x in dus for pos, t in x.iter_calls() if call_matches(t, r'HashMap::<K, V, S.*>::get$')]
    okm = bool(ins) and bool(lookups)
    why = ''
    for x, pos, t in ins:
        if len(t['args']) < 2:
            continue
        nm, cs_, fl = deep_sources(x, t['args'][1], depth=14)
        via_lookup = any(re.search(r'HashMap::<K, V, S.*>::get$', c or '') for c in cs_)
        from_param = x.kind == 'Closure' and any(o[0] == 'param' for o in origins(x, t['args'][1]))
        from_orig = ('ElementRaw.file_membership' in fl or any((c or '').endswith('WeakArxmlFile>::upgrade') for c in cs_)) and not via_lookup
        if from_orig or not (via_lookup or from_param):
            okm = False
            why = x.where(pos)
    C.check(okm, 'C13-MUST-duplicate', 'membership-from-new-files', 'file membership of the duplicate is rebuilt from handles that are not (only) files of the new model: the copy would reference files of the original', why,
            sample={'fn': 'duplicate', 'membership_source': 'filemap[filename] (handles of the new model)'})
    # the filemap holds only new files: what is inserted into the map derives from create_file (of the new model), not from the files of self
    hm = [(pos, t) for pos, t in du.iter_calls() if call_matches(t, r'HashMap::<K, V, S, A>::insert$')]
    okh = len(hm) >= 1
    for pos, t in hm:
        n_, c_, f_ = deep_sources(du, t['args'][2], depth=14)
        if not any((c or '').endswith('AutosarModel>::create_file') for c in c_) or 'self' in n_:
            okh = False
    C.check(okh, 'C13-MUST-duplicate', 'filemap-holds-new-files', 'the file map used to rebuild membership holds handles of the original model')
    # the membership write lock is on an element of the copy
    BL = BodyLocks(P, du)
    for a in BL.acqs.values():
        if a.cls == 'Element' and a.mode == 'W':
            C.check(all(o[0] == ('fresh',) for o in a.owns), 'C13-MUST-duplicate', 'write-lock-only-on-copy|%s' % '/'.join(own_str(o) for o in a.owns), 'duplicate write-locks an element that is not part of the new model', a.where)
    # every copied identifiable element is findable: its name is made unique in the destination before it is linked there
    C.rule('C13-MUST-unique', 'create_copied_sub_element_inner links the copy only after make_unique_item_name ran; the only path around the call is the not-identifiable edge')
    import c04 as _c04
    _c04.unique_before_link(C, P, 'C13-MUST-unique', ('ElementRaw::create_copied_sub_element_inner',))
    # the copy is filtered by the version of the DESTINATION: both public entry points hand the raw copier self.min_version()
    C.rule('C13-MUST-destversion', 'Element::create_copied_sub_element and ..._at pass the minimum version of the receiving element (self), not of the source, to the raw copier')
    from flow import origins_through_try, is_param_itself
    for fn in ('Element::create_copied_sub_element', 'Element::create_copied_sub_element_at'):
        b = P.find(fn)
        if b is None:
            C.anchor_missing('C13-MUST-destversion', fn)
            continue
        okd = False
        site = None
        for pos, t in b.iter_calls():
            if call_matches(t, r'ElementRaw>?::create_copied_sub_element(_at)?$'):
                site = pos
                va = [a for a in t['args'] if is_local_op(a) and 'AutosarVersion' in (b.local_ty(a['l']) or '')]
                if va:
                    srcs = [og[1] for og in origins_through_try(b, va[0]) if og[0] not in ('param', 'const', 'place') and isinstance(og[1], dict) and og[1].get('k') == 'call']
                    okd = bool(srcs) and all(call_matches(c_, r'impl Element>::min_version$') and c_['args'] and is_param_itself(b, c_['args'][0], 1) for c_ in srcs)
        C.check(okd, 'C13-MUST-destversion', fn.split('::')[-1] + '|copy-filtered-by-the-destination-version', '%s does not pass self.min_version() to the raw copier (e.g. the version of the source element): '
                'a copy into an older model keeps parts that do not exist there, a copy into a newer one drops parts that do' % fn, b.where(site) if site else '%s:%d' % (b.file, b.line), sample={'fn': fn, 'version': 'self.min_version()'})
    return C.finish('Structural clauses of copy faithfulness and independence on the MIR of deep_copy / create_copied_sub_element* / duplicate: provenance of every stored child, '
                    'by-value copies, lock modes per owner, field coverage against the ADT table, provenance of the membership handles. '
                    'Registration of the copy in both indexes is decided by C04-PAIR-index / C05-PAIR-origins. Does not decide textual equality of serialisations.')

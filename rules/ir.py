"""ir.py - load the E1 fact files, give every body a CFG with dominators / reachability queries.

Positions: (block index, i) where i in 0..len(stmts) ; i == len(stmts) is the terminator.
Only non-cleanup blocks are part of the 'normal' CFG; unwind edges are kept separately.
"""
import json, re, os
from collections import defaultdict, deque


def short_name(b):
    """Human/semantic short name: 'ElementRaw::set_item_name', '<Element as Ord>::cmp', 'parser::trim_byte_string',
    closures: '<parent short>::{closure#n}'."""
    bid = b['id']
    m = re.search(r'((?:::\{closure#\d+\})+)$', bid)
    clos = m.group(1) if m else ''
    base = bid[:len(bid) - len(clos)]
    name = base.rsplit('::', 1)[-1]
    if 'self_ty_raw' in b and b['self_ty_raw']:
        st = clean_ty(b['self_ty_raw'])
        if b.get('trait'):
            tr = b['trait'].rsplit('::', 1)[-1]
            return '<%s as %s>::%s%s' % (st, tr, name, clos)
        return '%s::%s%s' % (st, name, clos)
    # free function: module::name
    parts = base.split('::')
    if len(parts) >= 2:
        return '%s::%s%s' % (parts[-2], name, clos)
    return name + clos


def clean_ty(t):
    t = re.sub(r"<'[a-z_]+>", '', t)
    t = re.sub(r"<.*>$", '', t)
    return t.rsplit('::', 1)[-1]


class Body:
    def __init__(self, raw, crate):
        self.raw = raw
        self.crate = crate
        self.id = raw['id']
        self.kind = raw['kind']
        self.blocks = raw['blocks']
        self.locals = raw['locals']
        self.argc = raw['argc']
        self.ret = raw['ret']
        self.pub = raw.get('pub', False)
        self.reachable = raw.get('reachable', False)
        self.span = raw['span']
        self.file = raw['span']['f']
        self.line = raw['span']['l']
        self.parent = raw.get('parent')
        self.trait = raw.get('trait')
        self.self_ty = raw.get('self_ty')
        raw['self_ty_raw'] = raw.get('self_ty')
        self.short = None  # set by Program
        self.names = {}  # local -> user variable name
        self.upvars = {}  # projection (tuple) of a captured variable inside a closure environment -> its name
        for d in raw.get('debug', []):
            if not d['pl']['p']:
                self.names.setdefault(d['pl']['l'], d['n'])
            elif d['pl']['l'] == 1:
                self.upvars[tuple(d['pl']['p'])] = d['n']
        self._dom = None
        self._pdom = None
        self._succ = None
        self._pred = None

    # ---- CFG over non-cleanup blocks -------------------------------------------------
    def term(self, bi):
        return self.blocks[bi]['term']

    def is_cleanup(self, bi):
        return self.blocks[bi]['cleanup']

    def succs(self, bi, unwind=False):
        t = self.blocks[bi]['term']
        k = t['k']
        out = []
        if k == 'goto':
            out = [t['t']]
        elif k == 'switch':
            out = [x[1] for x in t['ts']] + [t['else']]
        elif k in ('drop', 'assert'):
            out = [t['t']]
            if unwind and isinstance(t.get('u'), int):
                out.append(t['u'])
        elif k == 'call':
            if t['t'] is not None:
                out = [t['t']]
            if unwind and isinstance(t.get('u'), int):
                out.append(t['u'])
        # return, resume, terminate, unreachable, tailcall: none
        res = []
        for o in out:
            if o not in res:
                res.append(o)
        return res

    def normal_succs(self):
        if self._succ is None:
            self._succ = {}
            self._pred = defaultdict(list)
            for b in self.blocks:
                if b['cleanup']:
                    continue
                s = [x for x in self.succs(b['i']) if not self.blocks[x]['cleanup']]
                self._succ[b['i']] = s
                for x in s:
                    self._pred[x].append(b['i'])
        return self._succ

    def normal_preds(self):
        self.normal_succs()
        return self._pred

    def reachable_blocks(self):
        succ = self.normal_succs()
        seen = {0}
        dq = deque([0])
        while dq:
            x = dq.popleft()
            for y in succ.get(x, []):
                if y not in seen:
                    seen.add(y)
                    dq.append(y)
        return seen

    def dominators(self):
        """block-level immediate-dominator based dominance sets (iterative dataflow; bodies are small)."""
        if self._dom is None:
            succ = self.normal_succs()
            pred = self.normal_preds()
            nodes = sorted(self.reachable_blocks())
            allset = set(nodes)
            dom = {n: set(allset) for n in nodes}
            dom[0] = {0}
            changed = True
            # reverse postorder
            order = self._rpo(0, succ)
            while changed:
                changed = False
                for n in order:
                    if n == 0:
                        continue
                    ps = [p for p in pred[n] if p in dom]
                    if not ps:
                        continue
                    new = set.intersection(*[dom[p] for p in ps]) | {n}
                    if new != dom[n]:
                        dom[n] = new
                        changed = True
            self._dom = dom
        return self._dom

    def _rpo(self, start, succ):
        seen = set()
        order = []
        stack = [(start, iter(succ.get(start, [])))]
        seen.add(start)
        while stack:
            n, it = stack[-1]
            adv = False
            for y in it:
                if y not in seen:
                    seen.add(y)
                    stack.append((y, iter(succ.get(y, []))))
                    adv = True
                    break
            if not adv:
                order.append(n)
                stack.pop()
        order.reverse()
        return order

    def exit_blocks(self):
        return [b['i'] for b in self.blocks if not b['cleanup'] and b['term']['k'] in ('return', 'tailcall')]

    def pos_dominates(self, a, b):
        """position a dominates position b (every path entry->b passes a)."""
        if a[0] == b[0]:
            return a[1] <= b[1]
        dom = self.dominators()
        if b[0] in dom and a[0] in dom[b[0]]:
            return True
        if getattr(self, 'inlined_ids', None) and not self.blocks[b[0]]['cleanup']:
            # a body with an inlined helper has infeasible paths (the helper's `Err(..)` return followed by the Ok edge of the caller's
            # `?`): a dominates b if b is not reached from the entry once a is removed, on the variant-sensitive walk
            key = ('pd', a, b)
            c = self.__dict__.setdefault('_pd_cache', {})
            if key not in c:
                c[key] = b not in self.precise_walk((0, 0), stops=frozenset([a]), include_start=True)
            return c[key]
        return False

    # ---- position-level reachability ---------------------------------------------------
    def nstmts(self, bi):
        return len(self.blocks[bi]['stmts'])

    def reach_from(self, start, avoid=frozenset(), include_start=False, unwind=False):
        """set of positions reachable from `start` position by >=1 step (or 0 if include_start),
        never stepping THROUGH a position in avoid (avoid positions are reachable but not expanded)."""
        if getattr(self, 'inlined_ids', None) and not unwind:
            return self.precise_walk(start, stops=frozenset(avoid), include_start=include_start)
        seen = set()
        dq = deque()

        def push(p):
            if p not in seen:
                seen.add(p)
                if p not in avoid:
                    dq.append(p)
        if include_start:
            push(start)
        else:
            for n in self._pos_succs(start, unwind):
                push(n)
        while dq:
            p = dq.popleft()
            for n in self._pos_succs(p, unwind):
                push(n)
        return seen

    # ---- variant-sensitive walk (used for bodies that contain inlined code) ----------------------------------
    _VIDX = {'None': 0, 'Some': 1, 'Ok': 0, 'Err': 1, 'Continue': 0, 'Break': 1, 'Less': -1, 'Equal': 0, 'Greater': 1}

    def _relevant_locals(self):
        """locals whose tracked value (variant / bool constant) can decide a branch of precise_walk: tested by a switch, read by a
        discriminant / Not, passed to Try::branch - or copied into such a local"""
        r = getattr(self, '_rel_cache', None)
        if r is not None:
            return r
        r = set()
        copies = []
        for blk in self.blocks:
            for st in blk['stmts']:
                if st['k'] != 'assign' or st['dst']['p']:
                    continue
                rv = st['rv']
                if rv['k'] == 'discr' and not rv['pl']['p']:
                    copies.append((st['dst']['l'], rv['pl']['l']))
                elif rv['k'] == 'discr' and rv['pl']['p'] == ['*']:
                    copies.append((st['dst']['l'], rv['pl']['l']))          # `match &opt { Some(x) => .. }`
                elif rv['k'] == 'ref' and not rv.get('mut') and not rv['pl']['p']:
                    copies.append((st['dst']['l'], rv['pl']['l']))          # the reference that is matched on
                elif rv['k'] == 'use' and 'l' in rv['o'] and not rv['o']['p']:
                    copies.append((st['dst']['l'], rv['o']['l']))
                elif rv['k'] == 'un' and rv.get('op') == 'Not' and 'l' in rv['o'] and not rv['o']['p']:
                    copies.append((st['dst']['l'], rv['o']['l']))
            t = blk['term']
            if t['k'] == 'switch' and 'l' in t['d'] and not t['d']['p']:
                r.add(t['d']['l'])
            elif t['k'] == 'call':
                fn = (t['f'].get('fn') or '') if isinstance(t['f'], dict) else ''
                if re.search(r'Option::<T>::(ok_or|ok_or_else|is_some|is_none)$|Result::<T, E>::(ok|is_ok|is_err)$|<impl bool>::then_some$', fn) and t['args'] and 'l' in t['args'][0] and not t['args'][0]['p'] and not t['dst']['p']:
                    copies.append((t['dst']['l'], t['args'][0]['l']))
                if fn.endswith('Try::branch') and t['args'] and 'l' in t['args'][0] and not t['args'][0]['p']:
                    r.add(t['args'][0]['l'])
                    if not t['dst']['p']:
                        copies.append((t['args'][0]['l'], t['dst']['l']))      # keep both ends
                        r.add(t['dst']['l'])
                elif fn.endswith('FromResidual::from_residual') and not t['dst']['p']:
                    r.add(t['dst']['l'])
        grew = True
        while grew:
            grew = False
            for d, src in copies:
                if d in r and src not in r:
                    r.add(src); grew = True
        self._rel_cache = r
        return r

    def precise_walk(self, start, stops=frozenset(), include_start=False, skip_edges=frozenset()):
        """positions reached from `start`; positions in `stops` are reached but not expanded; branches that contradict what is known
        about a local on the path are not taken: the variant of a Result / Option / ControlFlow local assigned by an aggregate
        (`_0 = Ok(..)` of an inlined callee followed by the caller's `?`), and boolean locals assigned constants."""
        rel = self._relevant_locals()

        def step_stmt(st, facts):
            if st['k'] != 'assign':
                return facts
            d = st['dst']
            l = d['l']
            rv = st['rv']
            if l not in rel and not (rv['k'] == 'ref' and rv.get('mut')):
                # nothing the walk models ever reads this local: no fact is kept for it (keeps the number of distinct fact sets small)
                return frozenset((k, v) for k, v in facts if k != l) if any(k == l for k, v in facts) else facts
            if d['p']:
                return frozenset((k, v) for k, v in facts if k != l) if any(k == l for k, v in facts) else facts
            new = None
            if rv['k'] == 'agg' and rv.get('var') in self._VIDX and rv.get('adt') in ('Result', 'Option', 'ControlFlow', 'Ordering'):
                new = rv['var']
            elif rv['k'] == 'use':
                o = rv['o']
                if 'l' in o and not o['p']:
                    new = dict(facts).get(o['l'])
                elif 'l' not in o and str(o.get('v', o.get('i'))) in ('true', 'false') and self.local_ty(l) == 'bool':
                    new = '#1' if str(o.get('v', o.get('i'))) == 'true' else '#0'
            elif rv['k'] == 'discr':
                pl = rv['pl']
                fd = dict(facts)
                v = None
                if not pl['p']:
                    v = fd.get(pl['l'])
                elif pl['p'] == ['*']:
                    r_ = fd.get(pl['l'])
                    if isinstance(r_, str) and r_.startswith('&'):
                        v = fd.get(int(r_[1:]))
                if v in self._VIDX:
                    new = '#%d' % self._VIDX[v]
            elif rv['k'] == 'ref' and not rv.get('mut') and not rv['pl']['p']:
                new = '&%d' % rv['pl']['l']
            elif rv['k'] == 'un' and rv.get('op') == 'Not' and 'l' in rv['o'] and not rv['o']['p']:
                v = dict(facts).get(rv['o']['l'])
                if v in ('#0', '#1'):
                    new = '#1' if v == '#0' else '#0'
            elif rv['k'] == 'ref' and rv.get('mut') and not rv['pl']['p']:
                # a mutable borrow of a tracked local: forget it
                ll = rv['pl']['l']
                facts = frozenset((k, v) for k, v in facts if k != ll)
            f2 = frozenset((k, v) for k, v in facts if k != l)
            if new is not None:
                f2 = f2 | {(l, new)}
            return f2
        seen = set()
        out = set()
        dq = deque()

        def push(p, f):
            if (p, f) not in seen:
                seen.add((p, f))
                out.add(p)
                if p not in stops:
                    dq.append((p, f))
        if include_start:
            push(start, frozenset())
        else:
            bi, i = start
            if i < self.nstmts(bi):
                push((bi, i + 1), step_stmt(self.blocks[bi]['stmts'][i], frozenset()))
            else:
                for n in self._pos_succs(start):
                    if (bi, n[0]) not in skip_edges:
                        push(n, frozenset())
        while dq:
            p, facts = dq.popleft()
            bi, i = p
            if i < self.nstmts(bi):
                push((bi, i + 1), step_stmt(self.blocks[bi]['stmts'][i], facts))
                continue
            t = self.blocks[bi]['term']
            succs = [x for x in self.succs(bi) if not self.blocks[x]['cleanup'] and (bi, x) not in skip_edges]
            f2 = facts
            if t['k'] == 'switch' and 'l' in t['d'] and not t['d']['p']:
                v = dict(facts).get(t['d']['l'])
                if v is not None and v.startswith('#'):
                    tsd = dict(t['ts'])
                    tgt = tsd.get(v[1:], tsd.get('255', t['else']) if v == '#-1' else t['else'])
                    succs = [x for x in succs if x == tgt]
            elif t['k'] == 'call':
                dl = t['dst']['l']
                f2 = frozenset((k, v) for k, v in facts if k != dl)
                fn = (t['f'].get('fn') or '') if isinstance(t['f'], dict) else ''
                if fn.endswith('Try::branch') and t['args'] and 'l' in t['args'][0] and not t['args'][0]['p'] and not t['dst']['p']:
                    v = dict(facts).get(t['args'][0]['l'])
                    if v in ('Ok', 'Some'):
                        f2 = f2 | {(dl, 'Continue')}
                    elif v in ('Err', 'None'):
                        f2 = f2 | {(dl, 'Break')}
                elif not t['dst']['p'] and t['args'] and 'l' in t['args'][0] and not t['args'][0]['p'] and re.search(r'Option::<T>::(ok_or|ok_or_else|is_some|is_none)$|Result::<T, E>::(ok|is_ok|is_err)$|<impl bool>::then_some$', fn):
                    # std adaptors with fixed semantics on a KNOWN variant: the result's variant follows (refines reachability only)
                    v = dict(facts).get(t['args'][0]['l'])
                    nm = fn.rsplit('::', 1)[-1]
                    nv = None
                    if nm in ('ok_or', 'ok_or_else'):
                        nv = {'Some': 'Ok', 'None': 'Err'}.get(v)
                    elif nm == 'ok':
                        nv = {'Ok': 'Some', 'Err': 'None'}.get(v)
                    elif nm == 'is_some':
                        nv = {'Some': '#1', 'None': '#0'}.get(v)
                    elif nm == 'is_none':
                        nv = {'Some': '#0', 'None': '#1'}.get(v)
                    elif nm == 'is_ok':
                        nv = {'Ok': '#1', 'Err': '#0'}.get(v)
                    elif nm == 'is_err':
                        nv = {'Ok': '#0', 'Err': '#1'}.get(v)
                    elif nm == 'then_some':
                        nv = {'#1': 'Some', '#0': 'None'}.get(v)
                    if nv is not None:
                        f2 = f2 | {(dl, nv)}
                elif fn.endswith('FromResidual::from_residual') and not t['dst']['p']:
                    # `?` on None / Err(e): the value built from the residual is None / Err(..)
                    ty = re.sub(r'^(std|core)::(option|result)::', '', self.local_ty(dl) or '')
                    if ty.startswith('Option<'):
                        f2 = f2 | {(dl, 'None')}
                    elif ty.startswith('Result<'):
                        f2 = f2 | {(dl, 'Err')}
                # arguments passed by mutable reference may change: handled through the `ref mut` rule above
            for x in succs:
                push((x, 0), f2)
        return out

    def _pos_succs(self, p, unwind=False):
        bi, i = p
        if i < self.nstmts(bi):
            return [(bi, i + 1)]
        out = []
        for s in self.succs(bi, unwind=unwind):
            if not unwind and self.blocks[s]['cleanup']:
                continue
            out.append((s, 0))
        return out

    def path_exists(self, a, targets, avoid=frozenset()):
        r = self.reach_from(a, avoid=avoid)
        return any(t in r for t in targets)

    # ---- iteration helpers -------------------------------------------------------------
    def iter_stmts(self, cleanup=False):
        for b in self.blocks:
            if b['cleanup'] and not cleanup:
                continue
            for i, s in enumerate(b['stmts']):
                yield (b['i'], i), s

    def iter_terms(self, cleanup=False):
        for b in self.blocks:
            if b['cleanup'] and not cleanup:
                continue
            yield (b['i'], len(b['stmts'])), b['term']

    def iter_calls(self, cleanup=False):
        for pos, t in self.iter_terms(cleanup):
            if t['k'] in ('call', 'tailcall'):
                yield pos, t

    def calls_to(self, pattern, cleanup=False):
        """calls whose generic or resolved callee path matches regex `pattern` (search)."""
        rx = re.compile(pattern)
        for pos, t in self.iter_calls(cleanup):
            f = t['f']
            if rx.search(f.get('fn', '')) or rx.search(f.get('res', '') or ''):
                yield pos, t

    def local_ty(self, l):
        return self.locals[l]['ty']

    def call_site_of(self, pos):
        """for a position inside an inlined copy: the position of the call it replaces in the caller (else pos itself)"""
        bi = pos[0]
        seen = set()
        while 'inl_site' in self.blocks[bi] and bi not in seen:
            seen.add(bi)
            bi = self.blocks[bi]['inl_site']
        if bi == pos[0]:
            return pos
        return (bi, len(self.blocks[bi]['stmts']))

    def upvar_of(self, pl):
        """name of the captured variable a place inside the closure environment refers to, or None"""
        if not isinstance(pl, dict) or pl.get('l') != 1 or not pl.get('p'):
            return None
        pp = tuple(pl['p'])
        for proj, n in self.upvars.items():
            core = tuple(x for x in proj if x != '*')
            if tuple(x for x in pp if x != '*')[:len(core)] == core:
                return n
        return None

    def local_name(self, l):
        return self.names.get(l, '_%d' % l)

    def where(self, pos):
        bi, i = pos
        b = self.blocks[bi]
        s = b['stmts'][i].get('s') if i < len(b['stmts']) else b['term'].get('s')
        if s:
            return '%s:%d' % (s['f'], s['l'])
        return '%s:%d' % (self.file, self.line)

    def natural_loops(self):
        """list of (header, body-block-set) for back edges n->h with h dominating n."""
        dom = self.dominators()
        succ = self.normal_succs()
        pred = self.normal_preds()
        loops = {}
        for n in dom:
            for h in succ.get(n, []):
                if h in dom[n]:
                    body = {h, n}
                    st = [n]
                    while st:
                        x = st.pop()
                        if x == h:
                            continue
                        for p in pred[x]:
                            if p in dom and p not in body:
                                body.add(p)
                                st.append(p)
                    loops.setdefault(h, set()).update(body)
        return sorted(loops.items())


def callee_of(t):
    f = t['f']
    return f.get('res') or f.get('fn')


def callee_generic(t):
    return t['f'].get('fn')


def place_str(p):
    return '_%d%s' % (p['l'], ''.join(p['p'])) if 'l' in p else ('const %s' % p.get('v', p.get('fn')))


def place_fields(p):
    """list of 'Adt.field' names the place projects through."""
    return [x[1:] for x in p.get('p', []) if x.startswith('.') and not x[1:2].isdigit()]


def ends_in_field(p, adtfield):
    fs = [x for x in p.get('p', []) if x.startswith('.')]
    return bool(fs) and fs[-1] == '.' + adtfield


def has_field(p, adtfield):
    return ('.' + adtfield) in p.get('p', [])


class Program:
    def __init__(self, facts_dir, crates=('autosar_data', 'autosar_data_specification')):
        self.facts_dir = facts_dir
        self.bodies = {}
        self.by_short = defaultdict(list)
        self.adts = {}
        self.meta = {}
        raws = []
        for c in crates:
            path = os.path.join(facts_dir, 'mir-%s.json' % c)
            with open(path) as f:
                d = json.load(f)
            self.meta[c] = {k: d[k] for k in ('crate', 'features', 'overflow_checks', 'debug_assertions', 'n_bodies')}
            for name, a in d['adts'].items():
                self.adts[name] = a
            for rb in d['bodies']:
                raws.append((rb, c))
        # a known function that was renamed in place or moved to another module is given its known path back (inline.reconcile_renames)
        import inline as _inl
        self.known_functions = _inl.load_known(os.path.dirname(os.path.dirname(os.path.abspath(__file__))))
        self.renamed = _inl.reconcile_renames([rb for rb, c in raws], self.known_functions, _inl.load_signatures(os.path.dirname(os.path.dirname(os.path.abspath(__file__)))))
        for rb, c in raws:
            b = Body(rb, c)
            self.bodies[b.id] = b
        for b in self.bodies.values():
            if b.kind != 'Closure':
                b.short = short_name(b.raw)
        for b in self.bodies.values():
            if b.kind == 'Closure':
                m = re.search(r'((?:::\{closure#\d+\})+)$', b.id)
                base = b.id[:len(b.id) - len(m.group(1))]
                pb = self.bodies.get(base)
                b.short = (pb.short if pb else base) + m.group(1)
                b.enclosing = base
        for b in self.bodies.values():
            self.by_short[b.short].append(b)
            b.program = self
        self._cg = None
        # functions the rules do not know (not in tables/known_functions.json) are inlined into their callers: see inline.py
        import inline
        self.inlined = inline.apply(self, self.known_functions)
        self.flat = 0
        for fid in sorted(self.inlined):
            fb = self.bodies.get(fid)
            if fb is None or not getattr(fb, 'inlined_everywhere', False):
                continue
            home = self.bodies[sorted(self.inlined[fid])[0]]
            while getattr(home, 'rehomed_to', None):
                home = self.bodies[home.rehomed_to]
            del self.bodies[fid]
            self.by_short[fb.short] = [x for x in self.by_short[fb.short] if x.id != fid]
            for c in list(self.bodies.values()):
                if c.kind == 'Closure' and c.id.startswith(fid + '::{closure#'):
                    self.by_short[c.short] = [x for x in self.by_short[c.short] if x.id != c.id]
                    c.short = home.short + '::{' + fb.short.rsplit('::', 1)[-1] + '/' + c.id[len(fid) + 3:]
                    c.enclosing = home.id
                    self.by_short[c.short].append(c)
        if os.environ.get('ASD_FLAT'):
            # closure view (second opinion run): closures placed where they run, see inline.flatten_closures
            self.flat = inline.apply_flat(self)

    def get(self, short):
        """unique body by short name; raises KeyError (fail closed) if missing or ambiguous."""
        l = self.by_short.get(short, [])
        if len(l) != 1:
            raise KeyError('anchor function %r: %d matches' % (short, len(l)))
        return l[0]

    def find(self, short):
        l = self.by_short.get(short, [])
        return l[0] if len(l) == 1 else None

    def view_inlined(self, b, rx, rounds=2):
        """a copy of body b in which the direct calls to (known) functions of these crates whose path matches rx are replaced by the
        callee's body - for rules that state a property of `b together with its helper` (e.g. the error value of optional_error may
        be built by ArxmlParser::error).  Returns b itself when there is no such call."""
        import inline, copy
        raw = None
        inl = list(getattr(b, 'inlined_ids', []))
        for _ in range(rounds):
            cur = raw if raw is not None else b.raw
            sites = [blk['i'] for blk in cur['blocks'] if blk['term']['k'] == 'call' and (callee_of(blk['term']) or '') in self.bodies
                     and re.search(rx, callee_of(blk['term'])) and callee_of(blk['term']) != b.id]
            if not sites:
                break
            if raw is None:
                raw = copy.deepcopy(b.raw)
            for bi in sites:
                cid = callee_of(raw['blocks'][bi]['term'])
                raw = inline.inline_into(raw, self.bodies[cid].raw, bi)
                if cid not in inl:
                    inl.append(cid)
        if raw is None:
            return b
        nb = Body(raw, b.crate)
        nb.short = b.short
        nb.inlined_ids = inl
        nb.program = self
        return nb

    def closures_of(self, b):
        pres = tuple(i + '::{closure#' for i in [b.id] + list(getattr(b, 'inlined_ids', [])))
        return [x for x in self.bodies.values() if x.id.startswith(pres)]

    def with_closures(self, b):
        return [b] + self.closures_of(b)

    # ---- call graph ---------------------------------------------------------------------
    def callgraph(self):
        """edges: body id -> set of callee names (local body ids where resolvable, else foreign path strings).
        Includes closure-creation edges and fn-item-as-value edges (conservative)."""
        if self._cg is None:
            cg = {}
            validators = {x.id for x in self.bodies.values() if x.crate == 'autosar_data_specification' and re.search(r'regex::validate_regex_\d+$', x.short)}
            for b in self.bodies.values():
                out = set()
                for blk in b.blocks:
                    t = blk['term']
                    if t['k'] in ('call', 'tailcall'):
                        c = callee_of(t)
                        if c:
                            out.add(c)
                        elif not callee_generic(t) and b.crate == 'autosar_data':
                            # a call through a function pointer: the only fn pointers of these crates are CharacterDataSpec::Pattern.check_fn,
                            # whose targets are the validators of the specification crate (conservative: all of them)
                            out.update(validators)
                        g = callee_generic(t)
                        if g and g != c and g in self.bodies:
                            out.add(g)
                        for a in t['args']:
                            if 'fn' in a:
                                out.add(a.get('res') or a['fn'])
                    for s in blk['stmts']:
                        if s['k'] != 'assign':
                            continue
                        rv = s['rv']
                        if rv['k'] == 'agg' and rv.get('ak') in ('closure', 'coroutine'):
                            out.add(rv['fn'])
                        for o in _rv_operands(rv):
                            if 'fn' in o:
                                out.add(o.get('res') or o['fn'])
                cg[b.id] = out
            self._cg = cg
        return self._cg

    def reachable_bodies(self, entry_ids):
        cg = self.callgraph()
        seen = set()
        st = [e for e in entry_ids]
        while st:
            x = st.pop()
            if x in seen or x not in self.bodies:
                continue
            seen.add(x)
            for y in cg[x]:
                if y in self.bodies and y not in seen:
                    st.append(y)
        return seen


def _rv_operands(rv):
    k = rv['k']
    if k in ('use', 'repeat', 'cast', 'un'):
        return [rv['o']]
    if k == 'bin':
        return [rv['a'], rv['b']]
    if k == 'agg':
        return rv['ops']
    return []


def rv_operands(rv):
    return _rv_operands(rv)

"""C09 - merging files: the bookkeeping steps without which union/attribution cannot be right (structural clauses only).
Does not decide that the merged content equals the union for every distribution, nor order independence."""
import re
from ir import Program, callee_of, callee_generic, has_field, ends_in_field
from flow import is_local_op, call_matches, must_pass, deep_sources, switch_edges_on_call_result, source_names, iter_uses, origins
import events as E
import c11
import panics as PN
from pairing import calls, guarded_by_true, iteration_start, dominated_by
from framework import Check

VEC_ADD = r'Vec::<T, A>::(push|insert|extend|append|extend_from_slice|push_within_capacity)$|Extend<.*>>::extend$|Vec<T, A> as .*Extend.*>::extend$'


def recv_local(b, t):
    rp = E.recv_place(b, t)
    return rp['l'] if rp is not None and not [p for p in rp['p'] if p != '*'] else None


def root_local(b, o, depth=10):
    """the user local a (reference) operand ultimately points to, through &/&mut/copies/moves of temporaries"""
    from flow import defs_of
    while depth > 0 and is_local_op(o):
        depth -= 1
        l = o['l']
        if l in b.names or l <= b.raw.get('argc', 0):
            return l
        ds = defs_of(b, l)
        if len(ds) != 1 or ds[0][1]['k'] != 'assign':
            return l
        rv = ds[0][1]['rv']
        if rv['k'] == 'ref':
            o = rv['pl']
        elif rv['k'] in ('use', 'cast'):
            o = rv['o']
        else:
            return l
    return o['l'] if is_local_op(o) else None


def vec_adds(b, local):
    out = []
    for pos, t in b.iter_calls():
        if re.search(VEC_ADD, callee_generic(t) or '') or re.search(VEC_ADD, callee_of(t) or ''):
            if t['args'] and is_local_op(t['args'][0]) and root_local(b, t['args'][0]) == local:
                out.append(pos)
    return out


def dev_bonly(C, P, RULE):
    """an element of the new file is merged into its counterpart or imported as a new child, never both (shared with C03)"""
    me = P.get('AutosarModel::merge_element')
    ic = calls(me, r'AutosarModel>::import_new_items$')
    ms = calls(me, r'AutosarModel>::merge_sub_elements$')
    if len(ic) != 1 or len(ms) != 1:
        C.anchor_missing(RULE, 'import_new_items / merge_sub_elements calls in merge_element')
        return None
    Lb = root_local(me, me.blocks[ic[0][0]]['term']['args'][1])
    Lm = root_local(me, me.blocks[ms[0][0]]['term']['args'][0])
    adds_b = vec_adds(me, Lb)
    anys = []
    for p in calls(me, r'Iterator>?::any$'):
        n_, c_, f_ = deep_sources(me, me.blocks[p[0]]['term']['args'][0], depth=12)
        r = [root_local(me, me.blocks[q[0]]['term']['args'][0]) for q in calls(me, r'Vec<T, A> as .*Deref>::deref$') if True]
        anys.append(p)
    # the any() must range over the merge list: its closure compares against merge_b; structurally: the iterated slice derefs Lm
    def any_over_merge(p):
        from flow import defs_of
        work = [me.blocks[p[0]]['term']['args'][0]]
        seen = set()
        while work:
            o = work.pop()
            if not is_local_op(o):
                continue
            l = o['l']
            if l == Lm:
                return True
            if l in seen:
                continue
            seen.add(l)
            for q, st in defs_of(me, l):
                if st['k'] == 'call' and st['args']:
                    work.append(st['args'][0])              # the receiver of iter() / deref() / as_slice() ...
                elif st['k'] == 'assign' and st['rv']['k'] in ('use', 'cast'):
                    work.append(st['rv']['o'])
                elif st['k'] == 'assign' and st['rv']['k'] in ('ref', 'rawptr'):
                    work.append({'l': st['rv']['pl']['l'], 'p': []})
        return False
    from flow import source_locals as _sl
    anys = [p for p in anys if any_over_merge(p) or Lm in _sl(me, me.blocks[p[0]]['term']['args'][0], depth=14)]
    for i, a in enumerate(sorted(adds_b)):
        ok = any(guarded_by_true(me, a, p, negate=True) for p in anys)
        ta = me.blocks[a[0]]['term']
        if not ok and re.search(r'extend$', callee_generic(ta) or '') and len(ta['args']) > 1 and is_local_op(ta['args'][1]):
            # `list.extend(rest_of_b.filter(|e| !elements_merge.iter().any(..)).map(..))`: the test is the predicate of a filter in the chain
            cs_ = deep_sources(me, ta['args'][1], depth=14)[1]
            ok = any((c or '').endswith('Iterator::filter') or (c or '').endswith('Iterator>::filter') for c in cs_) and any((c or '').endswith('::any') for c in cs_)
        C.check(ok, RULE, 'merge_element|import-list-add#%d|not-already-merged' % i, 'an element of the new file is queued for import without the test that it was not already paired with a model element (elements_merge.iter().any(..)): it would be merged into its counterpart AND inserted as a new child (duplicate element, two parents)',
                me.where(a), sample={'fn': 'merge_element', 'guard': '!elements_merge.iter().any(|(_, b)| b == elem_b)'} if i == 0 else None)
    C.floor(RULE + '.adds', len(adds_b), 3)
    return ic, ms


def all_names(b, o, depth=8):
    """user variable names an operand derives from, through refs / copies / deref (no calls)"""
    from flow import defs_of
    out = set(); work = [o]; seen = set()
    while work and depth > 0:
        x = work.pop()
        if not is_local_op(x) or x['l'] in seen:
            continue
        seen.add(x['l'])
        if x['l'] in b.names:
            out.add(b.names[x['l']])
        for q, st in defs_of(b, x['l']):
            if st['k'] == 'assign':
                rv = st['rv']
                if 'pl' in rv:
                    work.append(rv['pl'])
                if 'o' in rv:
                    work.append(rv['o'])
                work.extend(rv.get('ops', []))
    return out


def own_set_rule(C, P, RULE):
    """merge_sub_elements: the file set handed down for a merged element is the element's OWN set when it has one (the parent's
    set only when it inherits): model-only children are stamped with that set, so the parent's wider set would attribute them to
    files their parent element is not in (shared by C09 and C10)"""
    msub = P.get('AutosarModel::merge_sub_elements')
    rec = calls(msub, r'AutosarModel>::merge_element$')
    if len(rec) != 1:
        C.anchor_missing(RULE, 'merge_sub_elements: recursive merge_element call')
        return
    t = msub.blocks[rec[0][0]]['term']
    # all origins of the files argument (it is a phi of two clones): follow every definition
    from flow import defs_of
    fields, names = set(), set()
    work = [t['args'][1]]; seen = set()
    while work:
        o = work.pop()
        if not is_local_op(o):
            continue
        for p_ in o.get('p', []):
            if p_.startswith('.') and not p_[1:2].isdigit():
                fields.add(p_[1:])
        if o['l'] in seen:
            continue
        seen.add(o['l'])
        if o['l'] in msub.names:
            names.add(msub.names[o['l']])
        for q, st in defs_of(msub, o['l']):
            if st['k'] == 'call':
                work.extend(a for a in st['args'] if is_local_op(a))
            elif st['k'] == 'assign':
                rv = st['rv']
                if 'pl' in rv:
                    work.append(rv['pl'])
                for k in ('o', 'a', 'b'):
                    if k in rv:
                        work.append(rv[k])
                work.extend(rv.get('ops', []))
    own = 'ElementRaw.file_membership' in fields
    emp = [q for q in calls(msub, r'HashSet::<T, S, A>::is_empty$') if 'ElementRaw.file_membership' in deep_sources(msub, msub.blocks[q[0]]['term']['args'][0], depth=10)[2] and msub.pos_dominates(q, rec[0])]
    C.check(own and bool(emp), RULE, 'merge_sub_elements|recursion-gets-the-elements-own-set', 'merge_sub_elements hands the PARENT\'s file set down for an element that has its own (restricted) set: children that exist only in the model are then attributed to files their parent element is not in '
            '(after removing such a file the child stays in the model and is written to no file)', msub.where(rec[0]), sample={'fn': 'merge_sub_elements', 'files_argument': 'elem_a.file_membership if non-empty else files'})


def run(ctx):
    C = Check('C09', ctx['tier'], 'other', ctx['seed'])
    P = Program(ctx['facts'])
    C.rule('C09-DEV-bonly', 'every addition to the list of elements to import from the new file (elements_b_only) is only reachable over the false edge of "already paired with a model element" (elements_merge.iter().any(..)): an element is merged or imported, never both')
    C.rule('C09-PAIR-import', 'in import_new_items the insertion into the model parent is dominated by: attribution to the new file, re-parenting to the model parent, calc_element_insert_range with the new file\'s version whose failure leaves through InvalidFileMerge, and a position clamped into that range')
    C.rule('C09-MUST-restrict', 'merge_element: elements only in the model get the files the parent had before (clone_into under is_empty), import_new_items and merge_sub_elements are reached on every Ok path; merge_sub_elements hands the recursion the file set WITHOUT the new file and extends a local file set only after the recursion; merge_file_data adds the new file to the root only after a successful merge')
    C.rule('C09-MUST-reject', 'calc_identifiables_merge returns AOnly for an unmatched model element only over the true edge of `splitable`, the false edge is the InvalidFileMerge exit; `splitable` is splittable_in(min(version of the files already containing the parent, version of the new file)); load_buffer_internal propagates the merge error')
    C.rule('C09-FLOW-progress', 'every cycle of the pairwise walk advances one of the two iterators')
    C.assumptions = ['union / order independence of the merged content is NOT decided (run-time equality of trees built by a data-dependent positional walk)']
    me = P.get('AutosarModel::merge_element')
    imp = P.get('AutosarModel::import_new_items')
    msub = P.get('AutosarModel::merge_sub_elements')
    mfd = P.get('AutosarModel::merge_file_data')
    cim = P.get('AutosarModel::calc_identifiables_merge')
    # ---------------- DEV-bonly ----------------
    r = dev_bonly(C, P, 'C09-DEV-bonly')
    if r is None:
        return C.finish('fail closed')
    ic, ms = r
    # ---------------- PAIR-import ----------------
    ins = [o for o in E.content_ops(imp) if o['kind'] == 'insert']
    if len(ins) != 1:
        C.anchor_missing('C09-PAIR-import', 'content insert in import_new_items')
    else:
        site = ins[0]['pos']
        # attribution
        mi = []
        for pos, t in imp.iter_calls():
            if call_matches(t, r'HashSet::<T, S, A>::insert$'):
                rp = E.recv_place(imp, t)
                if rp is not None and has_field(rp, 'ElementRaw.file_membership'):
                    n_, c_, f_ = deep_sources(imp, t['args'][1], depth=8)
                    n0 = deep_sources(imp, t['args'][0], depth=12)[0]
                    mi.append((pos, 'new_file' in n_, 'new_element' in n0))
        C.check(len(mi) == 1 and mi[0][1] and mi[0][2] and imp.pos_dominates(mi[0][0], site), 'C09-PAIR-import', 'attributed-to-new-file', 'an imported element is not (only) attributed to the file it came from before it is inserted', imp.where(site),
                sample={'fn': 'import_new_items', 'before_insert': 'new_element.file_membership.insert(new_file)'})
        other_writes = [pos for pos, t in imp.iter_calls() if c11.CONTAINER_MUT.search(callee_generic(t) or '') and (lambda rp: rp is not None and has_field(rp, 'ElementRaw.file_membership'))(E.recv_place(imp, t))]
        C.check(len(other_writes) == 1, 'C09-PAIR-import', 'attributed-to-new-file-only', 'import_new_items writes file sets in %d places (expected exactly the one insert of the new file)' % len(other_writes))
        sp = calls(imp, r'impl Element>::set_parent$')
        oksp = len(sp) == 1 and imp.pos_dominates(sp[0], site)
        if oksp:
            t = imp.blocks[sp[0][0]]['term']
            n0 = deep_sources(imp, t['args'][0], depth=8)[0]
            n1, c1, f1 = deep_sources(imp, t['args'][1], depth=10)
            oksp = 'new_element' in n0 and 'parent_a' in n1 and any(c.endswith('impl Element>::downgrade') for c in c1)
        C.check(oksp, 'C09-PAIR-import', 're-parented-to-model-parent', 'an imported element is not re-parented to the model-side parent before insertion', imp.where(site))
        cr = calls(imp, r'ElementRaw>::calc_element_insert_range$')
        okcr = len(cr) == 1 and imp.pos_dominates(cr[0], site)
        if okcr:
            t = imp.blocks[cr[0][0]]['term']
            okcr = 'min_ver_b' in deep_sources(imp, t['args'][2], depth=6)[0] and 'new_element' in deep_sources(imp, t['args'][1], depth=8)[0] | {x for c in [deep_sources(imp, t['args'][1], depth=8)] for x in c[0]}
        C.check(okcr, 'C09-PAIR-import', 'insert-range-consulted', 'import_new_items inserts without consulting calc_element_insert_range(name, version of the new file)', imp.where(site))
        # failure leaves through InvalidFileMerge: the closure passed to map_err builds that variant
        okerr = False
        for cb in P.closures_of(imp):
            for pos, s in cb.iter_stmts():
                if s['k'] == 'assign' and s['rv']['k'] == 'agg' and s['rv'].get('var') == 'InvalidFileMerge':
                    okerr = True
        C.check(okerr and bool(calls(imp, r'Result::<T, E>::map_err$')) and bool(E.err_exit_positions(imp)), 'C09-PAIR-import', 'range-failure-rejects-the-merge', 'a failing insert range no longer rejects the merge with InvalidFileMerge')
        # clamped position
        n_, c_, f_ = deep_sources(imp, ins[0]['term']['args'][1], depth=10)
        src_calls = set()
        work = [ins[0]['term']['args'][1]]; seen = set()
        while work:
            o = work.pop()
            if not is_local_op(o) or o['l'] in seen:
                continue
            seen.add(o['l'])
            for org in origins(imp, o):
                if org[0] == 'place':
                    work.append({'l': org[1]['l'], 'p': []})
                elif len(org) > 1 and isinstance(org[1], dict) and org[1].get('k') == 'call':
                    src_calls.add(callee_of(org[1]) or callee_generic(org[1]) or '?')
                    work.extend(org[1]['args'])
        okcl = any(c.endswith('Ord::max') or c.endswith('cmp::max') for c in src_calls) and any(c.endswith('Ord::min') or c.endswith('cmp::min') for c in src_calls) or any(c.endswith('Ord::clamp') for c in src_calls)
        C.check(okcl, 'C09-PAIR-import', 'position-clamped-into-range', 'the insertion position of an imported element is not clamped into the legal insert range (max(first).min(last))', imp.where(site),
                sample={'fn': 'import_new_items', 'position': 'dest.max(first_pos).min(last_pos)'})
    # ---------------- MUST-restrict ----------------
    oks = E.ok_exit_positions(me)
    C.check(bool(oks) and must_pass(me, (0, 0), oks, through={ic[0]}) and must_pass(me, (0, 0), oks, through={ms[0]}) and ms[0] in me.reach_from(ic[0]), 'C09-MUST-restrict', 'merge_element|import-then-recurse-on-every-ok-path',
            'merge_element can return Ok without importing the new elements or without merging the paired sub elements', me.where(ic[0]))
    ci = [pos for pos, t in me.iter_calls() if call_matches(t, r'ToOwned>::clone_into$|Clone>::clone_from$|Clone>::clone$') and any('ElementRaw.file_membership' in deep_sources(me, a, depth=10)[2] for a in t['args'] if is_local_op(a))]
    okci = False
    for p in ci:
        t = me.blocks[p[0]]['term']
        srcn = set().union(*[deep_sources(me, a, depth=10)[0] for a in t['args'] if is_local_op(a)])
        emp = [q for q in calls(me, r'HashSet::<T, S, A>::is_empty$') if 'ElementRaw.file_membership' in deep_sources(me, me.blocks[q[0]]['term']['args'][0], depth=10)[2]]
        if 'files' in srcn and any(guarded_by_true(me, p, q) for q in emp) and me.pos_dominates(p, ic[0]) is False and ic[0] in me.reach_from(p):
            okci = True
    C.check(okci, 'C09-MUST-restrict', 'merge_element|model-only-elements-keep-old-files', 'elements that exist only in the model are not restricted to the files the parent had before the merge (membership := files when empty), before the new elements are imported', me.where(ic[0]),
            sample={'fn': 'merge_element', 'step': 'if membership.is_empty() { files.clone_into(membership) }'})
    # a_only list is filled from the a side only
    # merge_sub_elements
    rec = calls(msub, r'AutosarModel>::merge_element$')
    mins = [pos for pos, t in msub.iter_calls() if call_matches(t, r'HashSet::<T, S, A>::insert$') and (lambda rp: rp is not None and has_field(rp, 'ElementRaw.file_membership'))(E.recv_place(msub, t))]
    if len(rec) != 1 or len(mins) < 1:
        C.anchor_missing('C09-MUST-restrict', 'merge_sub_elements: recursive merge / membership insert')
    else:
        loopb = [body for h, body in msub.natural_loops() if rec[0][0] in body]
        # roles of the parameters by TYPE (not by name): the inherited file set is the HashSet<WeakArxmlFile> parameter, the file being loaded
        # the plain WeakArxmlFile parameter
        from flow import source_locals as _sl
        p_files = {l for l in range(1, msub.argc + 1) if re.search(r'HashSet<(\w+::)*WeakArxmlFile', msub.local_ty(l) or '')}
        p_new = {l for l in range(1, msub.argc + 1) if re.search(r'WeakArxmlFile', msub.local_ty(l) or '') and l not in p_files}
        def from_params(o, ps):
            return bool(_sl(msub, o, depth=14) & ps) if is_local_op(o) else False
        def wide_from(o, ps, depth=4):
            """also through clone()/deref()/as_ref() calls"""
            if not is_local_op(o) or depth == 0:
                return False
            if from_params(o, ps):
                return True
            from flow import defs_of as _do
            for l_ in _sl(msub, o, depth=14):
                for q_, d_ in _do(msub, l_):
                    if d_['k'] == 'call' and d_['args'] and call_matches(d_, r'Clone>::clone$|Deref>::deref$|::as_ref$|Borrow<.*>>::borrow$|ToOwned>::to_owned$'):
                        if wide_from(d_['args'][0], ps, depth - 1):
                            return True
            return False
        hdr = iteration_start(msub, rec[0])
        for i, m in enumerate(mins):
            after = rec[0] not in msub.reach_from(m, avoid={hdr})
            emp = [q for q in calls(msub, r'HashSet::<T, S, A>::is_empty$') if 'ElementRaw.file_membership' in deep_sources(msub, msub.blocks[q[0]]['term']['args'][0], depth=10)[2]]
            g = any(guarded_by_true(msub, m, q, negate=True) for q in emp)
            nf = wide_from(msub.blocks[m[0]]['term']['args'][1], p_new)
            C.check(after, 'C09-MUST-restrict', 'merge_sub_elements|new-file-added-after-recursion#%d' % i, 'the merged element\'s own file set gains the new file BEFORE its children are merged: children that exist only in the model inherit/are stamped with a set that contains the file being loaded, which never contained them',
                    msub.where(m), sample={'fn': 'merge_sub_elements', 'order': 'merge_element(elem_a, files_before, ..) then membership.insert(new_file)'})
            C.check(g and nf, 'C09-MUST-restrict', 'merge_sub_elements|only-local-sets-are-extended#%d' % i, 'the new file is added to an empty (inherited) file set or something else than the new file is added', msub.where(m))
        # the files argument of the recursion: the element's own set or the inherited one, never touched by new_file
        t = msub.blocks[rec[0][0]]['term']
        n_, c_, f_ = deep_sources(msub, t['args'][1], depth=12)
        # (either the inherited set parameter or the element's own local set; never derived from the file being loaded)
        own_set = 'ElementRaw.file_membership' in f_
        C.check((wide_from(t['args'][1], p_files) or own_set) and not wide_from(t['args'][1], p_new), 'C09-MUST-restrict', 'merge_sub_elements|recursion-gets-files-before-merge', 'the file set handed to the recursive merge is not the set of files the element was in before the merge', msub.where(rec[0]))
        own_set_rule(C, P, 'C09-MUST-restrict')
        C.check(bool(loopb), 'C09-MUST-restrict', 'merge_sub_elements|every-pair-is-merged', 'merge_sub_elements does not merge every pair (no loop around merge_element)')
    # merge_file_data: root gains new_file after success
    rm = calls(mfd, r'AutosarModel>::merge_element$')
    rins = [pos for pos, t in mfd.iter_calls() if call_matches(t, r'HashSet::<T, S, A>::insert$') and (lambda rp: rp is not None and has_field(rp, 'ElementRaw.file_membership'))(E.recv_place(mfd, t))]
    okr = len(rm) == 1 and len(rins) == 1
    if okr:
        sw = switch_edges_on_call_result(mfd, next(p for p in calls(mfd, r'Try>::branch$') if p in mfd.reach_from(rm[0])))
        okr = mfd.pos_dominates(rm[0], rins[0]) and 'new_file' in deep_sources(mfd, mfd.blocks[rins[0][0]]['term']['args'][1], depth=8)[0]
        if sw:
            blk, ts, els = sw
            cont = ts.get('0', els)
            okr = okr and must_pass(mfd, (0, 0), [rins[0]], through=(), avoid_edges={(blk, cont)})
        t = mfd.blocks[rm[0][0]]['term']
        okr = okr and any(c.endswith('AutosarModel>::files') for c in deep_sources(mfd, t['args'][1], depth=14)[1] | set(cc for cb in P.closures_of(mfd) for cc in [])) or okr and 'files' in deep_sources(mfd, t['args'][1], depth=14)[0]
    C.check(okr, 'C09-MUST-restrict', 'merge_file_data|root-gains-new-file-after-successful-merge', 'merge_file_data does not add the new file to the root element after (and only after) a successful merge, or does not start from the set of files of the model', '%s:%d' % (mfd.file, mfd.line))
    # ---------------- MUST-reject ----------------
    ao = [pos for pos, s in cim.iter_stmts() if s['k'] == 'assign' and s['rv']['k'] == 'agg' and s['rv'].get('var') == 'AOnly']
    sp_l = [l for l, n in cim.names.items() if n == 'splitable']
    sws = [pos for pos, t in cim.iter_terms() if t['k'] == 'switch' and is_local_op(t['d']) and 'splitable' in source_names(cim, t['d'])]
    okj = len(ao) == 1 and len(sws) == 1
    if okj:
        t = cim.blocks[sws[0][0]]['term']
        ts = dict(t['ts'])
        true_t, false_t = t['else'], ts.get('0')
        okj = must_pass(cim, (0, 0), [ao[0]], through=(), avoid_edges={(sws[0][0], true_t)})
        # false edge reaches an Err(InvalidFileMerge) exit and no Ok exit
        errs = E.err_exit_positions(cim)
        region = cim.reach_from((false_t, 0), include_start=True)
        ifm = [pos for pos, s in cim.iter_stmts() if s['k'] == 'assign' and s['rv']['k'] == 'agg' and s['rv'].get('var') == 'InvalidFileMerge']
        okj = okj and bool(ifm) and all(p in region for p in ifm) and not any(p in region for p in ao)
    C.check(okj, 'C09-MUST-reject', 'calc_identifiables_merge|unmatched-needs-splittable-parent', 'a model element without counterpart in the new file is accepted (AOnly) although the parent is not splittable, or the non-splittable case no longer fails with InvalidFileMerge',
            '%s:%d' % (cim.file, cim.line), sample={'fn': 'calc_identifiables_merge', 'guard': 'if splitable { AOnly } else { Err(InvalidFileMerge) }'})
    # splitable = splittable_in(min(min over files, version of new_file))
    si = calls(me, r'ElementType::splittable_in$')
    oksp = len(si) == 1
    if oksp:
        t = me.blocks[si[0][0]]['term']
        # collect all names/callees feeding the version argument, through all call arguments
        names, cs = set(), set()
        work = [t['args'][1]]; seen = set()
        while work:
            o = work.pop()
            if not is_local_op(o) or o['l'] in seen:
                continue
            seen.add(o['l'])
            if o['l'] in me.names:
                names.add(me.names[o['l']])
            for org in origins(me, o):
                if org[0] == 'param':
                    names.add(me.names.get(org[1], str(org[1])))
                elif org[0] == 'place':
                    work.append({'l': org[1]['l'], 'p': []})
                elif len(org) > 1 and isinstance(org[1], dict):
                    st = org[1]
                    if st.get('k') == 'call':
                        cs.add(callee_of(st) or callee_generic(st) or '?')
                        work.extend(a for a in st['args'] if is_local_op(a))
                    elif st.get('k') == 'assign':
                        rv = st['rv']
                        if rv['k'] == 'ref':
                            work.append(rv['pl'])
                        elif rv['k'] in ('use', 'cast'):
                            work.append(rv['o'])
        # (by provenance, not by variable name: the version is min(min over the versions of files, version of a file))
        oksp = any(c.endswith('cmp::min') or c.endswith('Ord::min') for c in cs) and any(c.endswith('Iterator::min') for c in cs)
        t0 = me.blocks[si[0][0]]['term']
        oksp = oksp and any(c.endswith('element_type') for c in deep_sources(me, t0['args'][0], depth=10)[1])
        C.extra['splittable_version_sources'] = {'names': sorted(names), 'callees': sorted(c.rsplit('::', 2)[-2] + '::' + c.rsplit('::', 1)[-1] for c in cs)}
    C.check(oksp, 'C09-MUST-reject', 'merge_element|split-point-judged-by-oldest-version-of-both-sides', 'whether a divergence is allowed below the model parent is not decided by splittable_in(min(versions of the files that already contain the parent, version of the new file)): the result depends on the load order for files of different versions',
            me.where(si[0]) if si else '', sample={'fn': 'merge_element', 'version': 'min(min over files, new_file.version())'})
    # calc_identifiables_merge receives that flag
    cc = calls(me, r'AutosarModel>::calc_identifiables_merge$')
    C.check(len(cc) == 1 and bool(si) and any(any(c.endswith('splittable_in') for c in deep_sources(me, a_, depth=6)[1]) for a_ in me.blocks[cc[0][0]]['term']['args'] if is_local_op(a_)),
            'C09-MUST-reject', 'merge_element|flag-reaches-the-decision', 'calc_identifiables_merge is not given the splittable_in() result of the model parent')
    # propagation of the merge error up to load_buffer
    for fn, rx in (('AutosarModel::merge_element', r'AutosarModel>::(calc_identifiables_merge|import_new_items|merge_sub_elements)$'), ('AutosarModel::merge_sub_elements', r'AutosarModel>::merge_element$'),
                   ('AutosarModel::merge_file_data', r'AutosarModel>::merge_element$'), ('AutosarModel::load_buffer_internal', r'AutosarModel>::merge_file_data$')):
        b = P.get(fn)
        for p in calls(b, rx):
            sw = switch_edges_on_call_result(b, p)
            t = b.blocks[p[0]]['term']
            # result goes into Try::branch (propagated) or is matched with an Err arm that reaches an Err exit
            d = t['dst']['l']
            uses = [(pos, role, st) for pos, role, pl, st in iter_uses(b) if is_local_op(pl) and pl['l'] == d]
            prop = any(st.get('k') == 'call' and call_matches(st, r'Try>::branch$') for pos, role, st in uses)
            if not prop:
                errs = E.err_exit_positions(b)
                prop = bool(sw) and any(e in b.reach_from(p) for e in errs)
            elif prop and fn == 'AutosarModel::merge_element' and t['dst']['l'] == 0:
                prop = True
            if t['dst']['l'] == 0 and not t['dst']['p']:
                prop = True
            C.check(prop, 'C09-MUST-reject', '%s|%s|error-propagated' % (fn, (callee_of(t) or '').rsplit('::', 1)[-1]), 'a merge error is dropped in %s' % fn, b.where(p))
    # ---------------- DEV-counterpart ----------------
    C.rule('C09-DEV-counterpart', 'when the current elements of the two sides are of different kinds, merge_element decides by specification position which side to advance ONLY after it searched the other side for a counterpart of each of the two elements '
           '(same element name and item name among the sub elements of the other parent); otherwise an element that exists on both sides at different positions is imported AND kept as model-only (two elements, one path)')
    lt = calls(me, r'PartialOrd::lt$|PartialOrd>::lt$|Ord::cmp$')
    lt = [p_ for p_ in lt if any('Vec<usize>' in (me.local_ty(a_['l']) or '') for a_ in me.blocks[p_[0]]['term']['args'] if is_local_op(a_))]
    def is_search(t):
        # a direct find over sub_elements, or a call of a closure of merge_element whose body contains one
        if call_matches(t, r'Iterator>?::(find|any|position)$'):
            return any(c.endswith('impl Element>::sub_elements') for c in deep_sources(me, t['args'][0], depth=10)[1])
        cg_ = callee_of(t) or ''
        if 'merge_element::{closure' in cg_:
            cb = P.bodies.get(cg_)
            if cb is not None:
                for q, t2 in cb.iter_calls():
                    if call_matches(t2, r'Iterator>?::(find|any|position)$') and any(c.endswith('impl Element>::sub_elements') for c in deep_sources(cb, t2['args'][0], depth=10)[1]):
                        return True
        return False
    searches = [(pos, t) for pos, t in me.iter_calls() if is_search(t)]
    okc = len(lt) == 1
    if okc:
        # a search inside an inlined helper (`find_counterpart`, which returns early for elements without a name) counts where the helper is called
        dom = [(pos, t) for pos, t in searches if me.pos_dominates(me.call_site_of(pos), lt[0])]
        sides = set()
        for pos, t in dom:
            nm = set()
            for a_ in t['args']:
                nm |= all_names(me, a_)
                if is_local_op(a_):
                    nm |= deep_sources(me, a_, depth=12)[0]
            if 'parent_b' in nm and 'elem_a' in nm:
                sides.add('a-in-b')
            if 'parent_a' in nm and 'elem_b' in nm:
                sides.add('b-in-a')
        okc = sides == {'a-in-b', 'b-in-a'}
        # and the position-based decision is only reachable when both searches failed: cut the None edges
        if okc:
            cuts = set()
            for pos, t in dom:
                sw = switch_edges_on_call_result(me, pos)
                if sw is None:
                    # is_some() on the result
                    for q in calls(me, r'Option::<T>::is_some$'):
                        if any(callee_of(o2[1]) == callee_of(t) for o2 in origins(me, me.blocks[q[0]]['term']['args'][0]) if o2[0] not in ('param', 'const', 'place') and isinstance(o2[1], dict) and o2[1].get('k') == 'call') or True:
                            sw2 = switch_edges_on_call_result(me, q)
                            if sw2 and me.pos_dominates(me.call_site_of(pos), q) and me.pos_dominates(q, lt[0]):
                                cuts.add((sw2[0], sw2[1].get('0', sw2[2])))
                else:
                    cuts.add((sw[0], sw[1].get('0', sw[2])))
            from pairing import iteration_start as _is
            okc = len(cuts) >= 2 and must_pass(me, _is(me, lt[0]), [lt[0]], through=(), avoid_edges=cuts)
    C.check(okc, 'C09-DEV-counterpart', 'merge_element|position-decides-only-without-counterparts', 'merge_element classifies two elements of different kinds by their specification position without first searching each of them on the other side: '
            'the same identifiable element at different positions in the two files ends up twice in the merged model (once imported, once model-only), attributed to one file each', me.where(lt[0]) if lt else '',
            sample={'fn': 'merge_element', 'searches_before_position_rule': ['counterpart(parent_b, elem_a)', 'counterpart(parent_a, elem_b)']})
    # calc_element_merge: non-identifiable elements of the same kind are paired positionally ONLY when their DEFINITION-REFs agree
    cem = P.get('AutosarModel::calc_element_merge')
    meq = [pos for pos, s_ in cem.iter_stmts() if s_['k'] == 'assign' and s_['rv']['k'] == 'agg' and s_['rv'].get('var') == 'MergeEqual']
    eqc = [p_ for p_ in calls(cem, r'PartialEq.*::(eq|ne)$') if any('Option<' in (cem.local_ty(a_['l']) or '') and 'String' in (cem.local_ty(a_['l']) or '') for a_ in cem.blocks[p_[0]]['term']['args'] if is_local_op(a_))]
    C.check(bool(meq) and bool(eqc) and all(any(guarded_by_true(cem, m_, q_) for q_ in eqc) for m_ in meq), 'C09-MUST-reject', 'calc_element_merge|positional-pairing-only-for-equal-definition-refs',
            'calc_element_merge returns MergeEqual (pair the two elements by position) without having compared their DEFINITION-REFs: BSW values keyed by DEFINITION-REF under other parents than the expected one are paired with the wrong counterpart (content attributed to the wrong file, or duplicated)',
            '%s:%d' % (cem.file, cem.line), sample={'fn': 'calc_element_merge', 'guard': 'defref_a == defref_b'})
    # a rejected file leaves nothing behind (shared with C10-MUST-rollback)
    C.rule('C09-MUST-rollback', 'when the merge of a loaded file fails, what was already merged is removed again through Element::remove_from_file(new file) before the error is returned: a rejected file does not change the model')
    from c10 import rollback_rule
    rollback_rule(C, P, 'C09-MUST-rollback')
    # ---------------- FLOW-progress ----------------
    nl = 0
    for h, ok, ev in PN.loop_progress(me):
        nl += 1
        C.check(ok, 'C09-FLOW-progress', 'merge_element|loop#%d' % nl, 'a cycle of the pairwise merge walk advances neither iterator (hang on load)', me.where((h, 0)), sample={'fn': 'merge_element', 'loop_exit_vars': ev} if nl == 1 else None)
    C.floor('C09-FLOW-progress.loops', nl, 1)
    # the elements that only the new file has are placed by the rules of THAT file's version (they come from a document that was valid
    # in it); the version shared with the files already loaded decides the split points, not what the new file may contain
    me_ = P.get('AutosarModel::merge_element')
    imp_ = calls(me_, r'AutosarModel>::import_new_items$')
    okv = False
    if imp_:
        t_ = me_.blocks[imp_[0][0]]['term']
        va = [a for a in t_['args'] if is_local_op(a) and 'AutosarVersion' in (me_.local_ty(a['l']) or '')]
        if va:
            from flow import source_locals as _sl9
            n_, c_, f_ = deep_sources(me_, va[0], depth=14)
            wf = {l for l in range(1, me_.argc + 1) if 'WeakArxmlFile' in (me_.local_ty(l) or '') and 'HashSet' not in (me_.local_ty(l) or '')}
            hs = {l for l in range(1, me_.argc + 1) if 'HashSet' in (me_.local_ty(l) or '')}
            sl = _sl9(me_, va[0], depth=14)
            # parameters the value depends on, through every argument of every call on the way
            from flow import defs_of as _d9
            reached, work, seen_ = set(), [va[0]], set()
            while work:
                o_ = work.pop()
                if not is_local_op(o_) or o_['l'] in seen_:
                    continue
                seen_.add(o_['l'])
                if 1 <= o_['l'] <= me_.argc:
                    reached.add(o_['l'])
                for q_, st_ in _d9(me_, o_['l']):
                    if st_['k'] == 'call':
                        work.extend(a_ for a_ in st_['args'] if is_local_op(a_))
                    elif st_['k'] == 'assign':
                        rv_ = st_['rv']
                        if 'o' in rv_:
                            work.append(rv_['o'])
                        if 'pl' in rv_:
                            work.append({'l': rv_['pl']['l'], 'p': []})
                        work.extend(x_ for x_ in rv_.get('ops', []) if is_local_op(x_))
                        for k_ in ('a', 'b'):
                            if k_ in rv_ and is_local_op(rv_[k_]):
                                work.append(rv_[k_])
            okv = any(c.endswith('::version') for c in c_) and bool(reached & wf) and not (reached & hs)
    C.rule('C09-MUST-importversion', 'merge_element hands import_new_items the version of the incoming file (derived from the new-file parameter alone, not the minimum over all files)')
    C.check(okv, 'C09-MUST-importversion', 'merge_element|import-uses-the-version-of-the-new-file', 'the elements that only the new file contains are positioned by a version other than the version of that file (e.g. the minimum over all loaded files): '
            'an element kind that exists only in the newer file\'s version is rejected (InvalidFileMerge) when the older file was loaded first, and accepted in the opposite order', me_.where(imp_[0]) if imp_ else '',
            sample={'fn': 'merge_element', 'arg': 'import_new_items(.., version of new_file)'})
    # the root element is replaced only when the model has no file yet (not: when the root happens to be empty - an earlier file may
    # consist of the root alone and would lose its attribution)
    lb_ = P.get('AutosarModel::load_buffer_internal')
    from c03 import root_replacements
    rr_ = root_replacements(lb_)
    em_ = [pos for pos, t in lb_.iter_calls() if call_matches(t, r'Vec::<T, A>::is_empty$|<impl \[T\]>::is_empty$|Vec::<T, A>::len$') and 'AutosarModelRaw.files' in deep_sources(lb_, t['args'][0], depth=10)[2]]
    from pairing import guarded_by_true as _gbt
    C.rule('C09-MUST-firstfile', 'load_buffer_internal replaces the root element only on the true edge of "the model has no files"')
    C.check(bool(rr_) and bool(em_) and all(any(_gbt(lb_, r_, e_) for e_ in em_) for r_ in rr_), 'C09-MUST-firstfile', 'load_buffer_internal|root-replaced-only-for-the-first-file', 'load_buffer_internal replaces the root element under a condition other than "the model has no files yet": '
            'a file loaded earlier (e.g. one that consists of the root element alone) stays in files() but is attributed to nothing, and the result depends on the load order', lb_.where(rr_[0]) if rr_ else '',
            sample={'fn': 'load_buffer_internal', 'guard': 'files.is_empty()'})
    # every file is written with ITS OWN version: the root element (and its schema location) is shared by all files of the model, so the
    # header is refreshed from the file's version inside serialize(), on every path - not where some file's version last changed
    C.rule('C09-MUST-header', 'ArxmlFile::serialize rewrites the schema location of the shared root element from the version of the file being written, on every path before the text is produced (shared with C17-MUST-header)')
    from c17 import header_rule
    header_rule(C, P, 'C09-MUST-header')
    return C.finish('Structural necessary conditions of a correct merge on the MIR of merge_element / import_new_items / merge_sub_elements / merge_file_data / calc_identifiables_merge: '
                    'guarded additions to the import list, dominance of the bookkeeping steps before insertion, order of the membership update relative to the recursion, provenance of the version that decides split points, '
                    'propagation of merge errors, loop progress. Union and order independence are not decided.')

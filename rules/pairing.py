"""pairing.py - PAIR / MUST query helpers shared by C03 C04 C05 C06 C09 C13 (semantics fixed in DESIGN.md §3)."""
from flow import must_pass, call_matches
from events import ok_exit_positions, loops_containing


def dominated_by(b, pos, partner_positions):
    """some partner event lies on every path entry -> pos"""
    return [p for p in partner_positions if b.pos_dominates(p, pos) and p != pos]


def followed_on_ok_paths(b, pos, partner_positions, exits=None):
    """every path pos -> Ok exit passes a partner event, or the header of a natural loop whose body contains one."""
    if exits is None:
        exits = ok_exit_positions(b)
    through = set(partner_positions) | loops_containing(b, partner_positions)
    if not exits:
        return False
    return must_pass(b, pos, exits, through, include_start=False)


def paired(b, pos, partner_positions, relation):
    if relation == 'dominated':
        return bool(dominated_by(b, pos, partner_positions))
    if relation == 'followed':
        return bool(partner_positions) and followed_on_ok_paths(b, pos, partner_positions)
    if relation == 'either':
        return bool(dominated_by(b, pos, partner_positions)) or (bool(partner_positions) and followed_on_ok_paths(b, pos, partner_positions))
    if relation == 'dominated-or-loop':
        # dominated by the event, or by the header of a loop that contains it (maintenance loop over children)
        if dominated_by(b, pos, partner_positions):
            return True
        for h in loops_containing(b, partner_positions):
            if b.pos_dominates(h, pos):
                return True
        return False
    raise ValueError(relation)


def calls(b, rx):
    return [pos for pos, t in b.iter_calls() if call_matches(t, rx)]


def always_calls(P, targets_rx, scope_crate='autosar_data', propagate_check=None):
    """least fixpoint of: f ALWAYS reaches a call matching targets_rx (or to a function already in the set) on every
    path from entry to an Ok exit.  Returns {body id: witness callee}."""
    from ir import callee_of
    import re
    rx = re.compile(targets_rx)
    S = {}
    changed = True
    while changed:
        changed = False
        for b in P.bodies.values():
            if b.crate != scope_crate or b.id in S:
                continue
            cps = []
            for pos, t in b.iter_calls():
                c = callee_of(t) or ''
                if rx.search(c) or c in S:
                    if propagate_check is None or propagate_check(b, pos, t):
                        cps.append(pos)
            if not cps:
                continue
            exits = ok_exit_positions(b)
            if exits and must_pass(b, (0, 0), exits, set(cps)):
                S[b.id] = cps
                changed = True
    return S


def iteration_start(b, pos):
    """start of the innermost loop iteration containing pos (loop header), or the function entry"""
    best = None
    for h, body in b.natural_loops():
        if pos[0] in body and (best is None or len(body) < best[1]):
            best = (h, len(body))
    return (best[0], 0) if best else (0, 0)


def guarded_by_true(b, site, call_pos, negate=False, proj=None):
    """True iff every path from the start of the loop iteration (or the function entry) to `site` takes the TRUE edge of
    the switch that tests the boolean result of the call at call_pos (FALSE edge when negate).  Sound for bool results
    tested directly (switchInt on the result or a copy); a `!` in between must be expressed through negate."""
    from flow import switch_edges_on_call_result, must_pass
    sw = switch_edges_on_call_result(b, call_pos, proj)
    if not sw:
        return False
    blk, ts, els = sw
    if set(ts.keys()) != {'0'}:
        return False
    want = ts['0'] if negate else els
    start = iteration_start(b, site)
    if start != (0, 0):
        # a guard outside the loop of the site is judged from the function entry
        inner = min((body for h, body in b.natural_loops() if site[0] in body), key=len)
        if call_pos[0] not in inner:
            start = (0, 0)
    return must_pass(b, start, [site], through=(), avoid_edges={(blk, want)})

"""C10 - file membership is consistent (structural clauses only).
Decides: the per-file views apply one membership predicate; the element tree is never modified while one of the crate's
tree iterators over it is being advanced; membership writes of the public API are guarded by the same-model test; element
deletion by the file API goes through the indexed removal path; a failed merge is rolled back through remove_from_file.
Does not decide the inheritance invariant under arbitrary histories (a run-time relation between sets)."""
import re
from ir import Program, callee_of, callee_generic, has_field, ends_in_field
from flow import is_local_op, call_matches, must_pass, deep_sources, switch_edges_on_call_result, source_names, iter_uses
import events as E
import c11
from pairing import calls, guarded_by_true, iteration_start
from locks import BodyLocks
from framework import Check

ITER_TY = re.compile(r'ElementsDfsIterator|ElementsIterator|ArxmlFileElementsDfsIterator|ElementContentIterator|IdentifiablesIterator')
ITER_RX = r'(ElementsDfsIterator|ElementsIterator|ArxmlFileElementsDfsIterator|ElementContentIterator|IdentifiablesIterator|AttributeIterator) as .*Iterator>::next$'


def true_edge(b, cp, proj=None):
    sw = switch_edges_on_call_result(b, cp, proj)
    if not sw:
        return None
    blk, ts, els = sw
    if set(ts.keys()) != {'0'}:
        return None
    return blk, els, ts['0']


def membership_tests(b):
    """calls HashSet::is_empty / HashSet::contains whose receiver is (a copy of) some element's local file_membership set."""
    emp, con = [], []
    for pos, t in b.iter_calls():
        if not call_matches(t, r'HashSet::<T, S>::(is_empty|contains)$|HashSet::<T, S, A>::(is_empty|contains)$'):
            continue
        n_, c_, f_ = deep_sources(b, t['args'][0], depth=14)
        if 'ElementRaw.file_membership' in f_ or any(c.endswith('file_membership_local') for c in c_):
            (emp if call_matches(t, r'is_empty$') else con).append(pos)
    return emp, con


def view_site(C, b, label, action_positions, file_names, allow_none):
    """the descend/yield action is reachable exactly over: is_empty()==true, or contains(file)==true (or for_file.is_none())."""
    R = 'C10-SIB-view'
    emp, con = membership_tests(b)
    for ai, A in enumerate(action_positions):
        start = iteration_start(b, A)
        lp = [body for h, body in b.natural_loops() if A[0] in body]
        inl = (lambda p: any(p[0] in body for body in lp)) if lp else (lambda p: True)
        e_here = [p for p in emp if inl(p)]
        c_here = [p for p in con if inl(p)]
        key = '%s#%d' % (label, ai)
        te = [true_edge(b, p) for p in e_here]
        tc = [true_edge(b, p) for p in c_here]
        if not e_here or not c_here or None in te or None in tc:
            C.fail(R, key + '|predicate-present', 'the per-file view no longer tests membership.is_empty() and membership.contains(file) before %s' % label, b.where(A))
            continue
        # candidates: the tests through whose TRUE edge the action is reachable within the iteration
        def reaches(tgt):
            return A in b.reach_from((tgt, 0), include_start=True, avoid={start} if start != (0, 0) else frozenset())
        te = [x for x in te if reaches(x[1])]
        tc = [x for x in tc if reaches(x[1])]
        cut = {(blk, tt) for blk, tt, ff in te + tc}
        nn = []
        if allow_none:
            for p in calls(b, r'Option::<T>::is_none$'):
                x = true_edge(b, p)
                if x and inl(p) and 'for_file' in deep_sources(b, b.blocks[p[0]]['term']['args'][0])[0] and reaches(x[1]):
                    cut.add((x[0], x[1])); nn.append(x)
        ok_nec = must_pass(b, start, [A], through=(), avoid_edges=cut)
        C.check(ok_nec, R, key + '|only-members-selected', 'in %s an element can be selected for a file although its local file set is neither empty nor contains that file (the action is reachable without the true edge of is_empty()/contains())' % b.short, b.where(A))
        # each disjunct suffices alone: from the true edge of is_empty the action is reached without consulting contains, and vice versa
        def alone(x, others):
            # without consulting the other test: its CALL is not passed (its switch may be shared: `a || b` as the tail of a helper is tested once, in the caller)
            avoid = set(c_here if others is tc else e_here) | ({start} if start != (0, 0) else set())
            return A in b.reach_from((x[1], 0), include_start=True, avoid=avoid)
        ok_e = bool(te) and any(alone(x, tc) for x in te)
        ok_c = bool(tc) and any(A in b.reach_from((x[1], 0), include_start=True, avoid={start} if start != (0, 0) else frozenset()) for x in tc)
        C.check(ok_e, R, key + '|inherited-membership-selected', 'in %s an element with an empty (inherited) file set is not selected unless it also passes another test: elements that inherit their membership would be missing from the file view' % b.short, b.where(A))
        C.check(ok_c, R, key + '|explicit-member-selected', 'in %s an element whose file set contains the file is not selected' % b.short, b.where(A))
        # the file compared against is the file of the view
        okf = True
        for p in c_here:
            t = b.blocks[p[0]]['term']
            n_, c_, f_ = deep_sources(b, t['args'][1], depth=12)
            if not (n_ & file_names or f_ & file_names):
                okf = False
        C.check(okf, R, key + '|compares-with-the-view-file', 'the membership test in %s does not compare with the file the view was requested for' % b.short, b.where(A),
                sample={'fn': b.short, 'site': label, 'predicate': 'membership.is_empty() || membership.contains(file)' + (' || for_file.is_none()' if nn else '')})
    return len(action_positions)


def content_mutators(P, scope):
    def content_mut(b):
        out = []
        for pos, t in b.iter_calls():
            if c11.CONTAINER_MUT.search(callee_generic(t) or ''):
                rp = E.recv_place(b, t)
                if rp is not None and c11.tracked_field(rp) == 'ElementRaw.content':
                    out.append(pos)
        return out
    direct = {b.id: content_mut(b) for b in scope}
    MUT = {b.id for b in scope if direct[b.id]}
    cg = P.callgraph()
    ch = True
    while ch:
        ch = False
        for b in scope:
            if b.id not in MUT and any(c in MUT for c in cg[b.id]):
                MUT.add(b.id); ch = True
    return MUT, direct


def rollback_rule(C, P, RULE):
    """a failed merge is rolled back through remove_from_file before the error is returned (shared by C10 and C09)"""
    lb = P.get('AutosarModel::load_buffer_internal')
    mf = calls(lb, r'AutosarModel>::merge_file_data$')
    if len(mf) != 1:
        C.anchor_missing(RULE, 'merge_file_data call in load_buffer_internal')
    else:
        sw = switch_edges_on_call_result(lb, mf[0])
        pushes = [pos for pos, t in lb.iter_calls() if call_matches(t, r'Vec::<T, A>::push$') and (lambda rp: rp is not None and has_field(rp, 'AutosarModelRaw.files'))(E.recv_place(lb, t))]
        ok = False
        if sw:
            blk, ts, els = sw
            err_t = ts.get('1', els)
            errs = [e for e in E.err_exit_positions(lb)]
            region = lb.reach_from((err_t, 0), include_start=True)
            err_exits = [e for e in errs if e in region]
            rb = []
            for p in calls(lb, r'impl Element>::remove_from_file$'):
                n_, c_, f_ = deep_sources(lb, lb.blocks[p[0]]['term']['args'][1], depth=10)
                n0, c0, f0 = deep_sources(lb, lb.blocks[p[0]]['term']['args'][0], depth=10)
                if 'arxml_file' in n_ and any(c.endswith('AutosarModel>::root_element') for c in c0):
                    rb.append(p)
            for p in calls(lb, r'AutosarModel>::remove_file$'):
                # only effective when the file is already in model.files
                if pushes and all(lb.pos_dominates(q, p) for q in pushes):
                    rb.append(p)
            # every path from the Err edge to a return passes a rollback call
            rets = [(bi, lb.nstmts(bi)) for bi in range(len(lb.blocks)) if lb.blocks[bi]['term']['k'] == 'return' and (bi, 0) in region]
            ok = bool(rb) and bool(rets) and must_pass(lb, (err_t, 0), rets, through=set(rb))
        C.check(ok, RULE, 'load_buffer_internal|merge-failure-removes-merged-elements', 'a failed merge leaves load_buffer_internal without Element::remove_from_file(new file) on the root: elements already imported stay in the model restricted to a file that never becomes part of it (written to no file)',
                lb.where(mf[0]), sample={'fn': 'load_buffer_internal', 'rollback': 'root_element().remove_from_file(&arxml_file)', 'files_push_after_merge': bool(pushes)})
        # the file joins model.files only after a successful merge
        C.check(len(pushes) == 1 and lb.pos_dominates(mf[0], pushes[0]) is False or (len(pushes) == 1 and mf[0] not in lb.reach_from(pushes[0])), RULE, 'load_buffer_internal|file-joins-after-merge',
                'the new file is pushed to model.files before the merge can fail', lb.where(pushes[0]) if pushes else '')


def run(ctx):
    C = Check('C10', ctx['tier'], 'other', ctx['seed'])
    P = Program(ctx['facts'])
    C.rule('C10-SIB-view', 'the serializer (Elements arm and Mixed arm), the file-scoped DFS iterator and the per-file compatibility walk select a sub element for a file exactly over the true edge of membership.is_empty() or of membership.contains(view file) '
           '(plus for_file.is_none() in the serializer): cutting these edges makes the descend/yield action unreachable, and each of the two edges alone reaches it')
    C.rule('C10-FLOW-iter', 'inside a loop that advances one of the crate\'s element-tree iterators, no function that may modify ElementRaw.content of an existing element is called (the iterators keep positions by index: a removal during the walk skips the next sibling)')
    C.rule('C10-MUST-remove', 'remove_from_file and remove_file delete elements only through Element::remove_sub_element (index cleanup, unlinking); the whole-model reset of remove_file clears both maps and unlinks every child of the root first')
    C.rule('C10-MUST-samemodel', 'add_to_file / remove_from_file write file sets only over the true edge of file.model() == self.model() and of the parent-is-splittable test; the crate-internal writers are only called with files of the same model')
    C.rule('C10-MUST-rollback', 'when merging a loaded file fails, load_buffer_internal removes what was already merged through Element::remove_from_file(new file) before returning the error (the file is not yet in model.files, so remove_file would do nothing)')
    C.rule('C10-WHO-membership', 'enumeration of all writers of ElementRaw.file_membership (evidence; the count is a floor)')
    C.assumptions = ['the inheritance invariant (child restricted only to files containing the parent) under arbitrary histories is NOT decided', 'HashSet::is_empty/contains have their std semantics']
    scope = [b for b in P.bodies.values() if b.crate == 'autosar_data']
    # ---------------- SIB-view ----------------
    n = 0
    ser = P.get('Element::serialize_internal')
    rec = [pos for pos in calls(ser, r'impl Element>::serialize_internal$')]
    if len(rec) != 2:
        C.anchor_missing('C10-SIB-view', 'two recursive serialize_internal calls (Elements arm, Mixed arm)')
    else:
        n += view_site(C, ser, 'serialize_internal', rec, {'for_file'}, True)
    it = P.get('<ArxmlFileElementsDfsIterator as Iterator>::next')
    # the yield: the assignment of Some(..) to the return place inside the loop
    ys = [pos for pos, s in it.iter_stmts() if s['k'] == 'assign' and s['dst']['l'] == 0 and not s['dst']['p'] and s['rv']['k'] == 'agg' and s['rv'].get('var') == 'Some']
    if len(ys) != 1:
        C.anchor_missing('C10-SIB-view', 'Some(..) yield in ArxmlFileElementsDfsIterator::next')
    else:
        n += view_site(C, it, 'ArxmlFileElementsDfsIterator::next', ys, {'ArxmlFileElementsDfsIterator.weak_file', 'weak_file'}, False)
        # a skipped element skips its whole subtree
        ns = calls(it, r'ElementsDfsIterator::next_sibling$')
        C.check(len(ns) == 1, 'C10-SIB-view', 'ArxmlFileElementsDfsIterator::next|skips-subtree', 'an element outside the file no longer hides its subtree in the file-scoped iterator (next_sibling)')
    cw = P.get('Element::check_version_compatibility')
    rc = [pos for pos in calls(cw, r'impl Element>::check_version_compatibility$')]
    if len(rc) != 1:
        C.anchor_missing('C10-SIB-view', 'recursive check_version_compatibility call')
    else:
        n += view_site(C, cw, 'check_version_compatibility', rc, {'file'}, False)
    C.floor('C10-SIB-view.sites', n, 4)
    # the file's own serialisation and iterator are built on these views
    fs = P.get('ArxmlFile::serialize')
    okfs = False
    for pos in calls(fs, r'impl Element>::serialize_internal$'):
        t = fs.blocks[pos[0]]['term']
        n_, c_, f_ = deep_sources(fs, t['args'][-1], depth=12)
        if any(c.endswith('ArxmlFile::downgrade') or c.endswith('ArxmlFile>::downgrade') for c in c_) or 'self' in n_:
            okfs = True
    C.check(okfs, 'C10-SIB-view', 'ArxmlFile::serialize|passes-own-file', 'ArxmlFile::serialize does not pass its own file handle as the view filter', '%s:%d' % (fs.file, fs.line))
    # ---------------- FLOW-iter ----------------
    MUT, direct = content_mutators(P, scope)
    nloops = 0
    for b in scope:
        BL = None
        for h, body in b.natural_loops():
            nx = [pos for pos, t in b.iter_calls() if pos[0] in body and call_matches(t, r'Iterator>?::next$') and t['args'] and is_local_op(t['args'][0]) and ITER_TY.search(b.local_ty(t['args'][0]['l']) or '')]
            if not nx:
                continue
            nloops += 1
            bad = []
            for pos, t in b.iter_calls():
                if pos[0] not in body:
                    continue
                c = callee_of(t); g = callee_generic(t)
                tgt = c if c in MUT else (g if g in MUT else None)
                if not tgt:
                    continue
                if BL is None:
                    BL = BodyLocks(P, b)
                owns = BL.trace_place(t['args'][0]) if t['args'] and is_local_op(t['args'][0]) else []
                if owns and all(o[0] == ('fresh',) for o in owns):
                    continue
                bad.append((pos, P.bodies[tgt].short))
            for pos in direct.get(b.id, []):
                if pos[0] in body:
                    bad.append((pos, 'direct content edit'))
            if bad:
                for pos, what in bad:
                    C.fail('C10-FLOW-iter', '%s|%s-in-tree-iterator-loop' % (b.short, what), 'the element tree is modified (%s) inside a loop that is advancing a tree iterator: the iterator addresses children by index, so the sibling after a removed element is skipped (its file set is not updated / it is not deleted)' % what, b.where(pos))
            else:
                C.ok('C10-FLOW-iter', '%s|loop@%s' % (b.short, len([1 for x in C.obligations if x['rule'] == 'C10-FLOW-iter' and x['key'].startswith(b.short + '|')])), 'no content mutation of existing elements in the loop',
                     sample={'fn': b.short, 'iterator_loop': True, 'mutating_calls_in_loop': 0} if nloops % 6 == 1 else None)
    C.floor('C10-FLOW-iter.loops', nloops, 10)
    # ---------------- MUST-remove ----------------
    rff = P.get('Element::remove_from_file')
    rf = P.get('AutosarModel::remove_file')
    C.check(not E.content_ops(rff), 'C10-MUST-remove', 'remove_from_file|no-direct-content-edit', 'remove_from_file edits a content list directly instead of calling remove_sub_element (index entries and parent links of the removed subtree are left behind)', '%s:%d' % (rff.file, rff.line))
    rs = calls(rff, r'impl Element>::remove_sub_element$')
    C.check(len(rs) >= 2, 'C10-MUST-remove', 'remove_from_file|deletes-through-remove_sub_element', 'remove_from_file no longer deletes elements that lost their last file through remove_sub_element (own element and restricted sub elements)', '%s:%d' % (rff.file, rff.line),
            sample={'fn': 'remove_from_file', 'remove_sub_element_calls': len(rs)})
    # membership.remove(file) for every restricted sub element: inside an iterator loop, under !is_empty
    rm = [pos for pos, t in rff.iter_calls() if call_matches(t, r'HashSet::<T, S.*>::remove$') and 'ElementRaw.file_membership' in deep_sources(rff, t['args'][0], depth=12)[2]]
    okrm = bool(rm) and any(any(p[0] in body for p in rm) and any(q[0] in body for q in calls(rff, ITER_RX)) for h, body in rff.natural_loops())
    C.check(okrm, 'C10-MUST-remove', 'remove_from_file|sub-elements-lose-the-file', 'remove_from_file does not remove the file from the file sets of restricted sub elements (walk over elements_dfs)', '%s:%d' % (rff.file, rff.line))
    # ... and the walk over the sub elements follows the element's own store on every Ok path (a sub element may carry its own, smaller
    # set whether or not the element's set was inherited: sets are also assigned by merging files)
    own_st = [pos for pos, s_ in rff.iter_stmts() if s_['k'] == 'assign' and ends_in_field(s_['dst'], 'ElementRaw.file_membership') and not E.loops_containing(rff, [pos])]
    walk_ = [q for q in calls(rff, ITER_RX) if E.loops_containing(rff, [q]) and any(any(p[0] in body for p in rm) and q[0] in body for h, body in rff.natural_loops())]
    okw = bool(own_st) and bool(walk_) and all(must_pass(rff, s_, E.ok_exit_positions(rff), through=set(walk_), include_start=False) for s_ in own_st)
    C.check(okw, 'C10-MUST-remove', 'remove_from_file|walk-follows-the-own-store-on-every-path', 'remove_from_file can return Ok after restricting the element itself without walking over its sub elements (an early return, e.g. when the set was inherited): '
            'a sub element that carries its own set keeps the removed file although its parent is no longer in it', rff.where(own_st[0]) if own_st else '%s:%d' % (rff.file, rff.line),
            sample={'fn': 'remove_from_file', 'after_own_store': 'loop over elements_dfs on every Ok path'})
    # set_file_membership(empty set) always resets - whatever the element's parent is (remove_file relies on it for the root element)
    sfm = P.find('Element::set_file_membership')
    if sfm is None:
        C.anchor_missing('C10-MUST-remove', 'Element::set_file_membership')
    else:
        iem = [pos for pos, t in sfm.iter_calls() if call_matches(t, r'HashSet::<T, S.*>::is_empty$') and t['args'] and 2 in __import__('flow').source_locals(sfm, t['args'][0], depth=8)]
        rets = [pos for pos, t in sfm.iter_terms() if t['k'] == 'return']
        st_ = [pos for pos, s_ in sfm.iter_stmts() if s_['k'] == 'assign' and ends_in_field(s_['dst'], 'ElementRaw.file_membership')]
        okr = bool(iem) and bool(rets) and bool(st_) and all(must_pass(sfm, (0, 0), [r_], through=set(iem)) for r_ in rets)
        if okr:
            sw_ = switch_edges_on_call_result(sfm, iem[0])
            okr = bool(sw_) and all(must_pass(sfm, (sw_[2], 0), [r_], through=set(st_)) for r_ in rets)
        C.check(okr, 'C10-MUST-remove', 'set_file_membership|empty-set-always-resets', 'set_file_membership can return without having looked at "is the new set empty" (an early return for some elements, e.g. the root): '
                'the reset of the root element\'s file set that remove_file relies on is skipped, and the next create_file attributes the whole model to a file that is gone', '%s:%d' % (sfm.file, sfm.line),
                sample={'fn': 'set_file_membership', 'is_empty_test_dominates_every_return': okr})
    # a moved element belongs to the files of its NEW parent: both move workers reset the file sets of the moved subtree on every Ok path
    # (a set assigned below the old parent can name files that do not contain the new parent - the element would be written to no
    # file - or, after a cross-model move, files of another model)
    for fn in ('ElementRaw::move_element_local', 'ElementRaw::move_element_full'):
        mb = P.get(fn)
        clr = [pos for pos, t in mb.iter_calls() if call_matches(t, r'HashSet::<T, S.*>::clear$') and (lambda rp: rp is not None and has_field(rp, 'ElementRaw.file_membership'))(E.recv_place(mb, t))]
        clr += [pos for pos, s_ in mb.iter_stmts() if s_['k'] == 'assign' and ends_in_field(s_['dst'], 'ElementRaw.file_membership')]
        walk_m = [q for q in calls(mb, ITER_RX) if clr and any(any(c_[0] in body for c_ in clr) and q[0] in body for h, body in mb.natural_loops())]
        okm = bool(clr) and bool(walk_m) and all(must_pass(mb, (0, 0), [x_], through=set(walk_m)) for x_ in E.ok_exit_positions(mb))
        C.check(okm, 'C10-MUST-remove', '%s|file-sets-of-the-moved-subtree-are-reset' % fn.split('::')[-1], '%s keeps the file sets that the moved elements had below their old parent: an element with its own set that is moved below a parent '
                'in other files is attributed to files that do not contain its parent and is written to NO file; after a move between models its set names files of the other model' % fn, '%s:%d' % (mb.file, mb.line),
                sample={'fn': fn, 'on_every_ok_path': 'for each element of the moved subtree: file_membership.clear()'})
    # an element whose set became empty is deleted: the push/remove is guarded by is_empty true edge (tested AFTER the removal)
    cops = E.content_ops(rf)
    clears = [o for o in cops if o['op'] == 'clear']
    others = [o for o in cops if o['op'] != 'clear']
    idc = [o for o in E.ident_ops(rf) if o['op'] == 'clear']
    roc = [o for o in E.reforig_ops(rf) if o['op'] == 'clear']
    rsf = calls(rf, r'impl Element>::remove_sub_element$')
    okreset = len(clears) <= 1 and not others and len(idc) == 1 and len(roc) == 1 and len(rsf) >= 1 and any(rsf[0][0] in body for h, body in rf.natural_loops())
    if clears:
        okreset = okreset and rf.pos_dominates(idc[0]['pos'], clears[0]['pos']) and rf.pos_dominates(roc[0]['pos'], clears[0]['pos']) if idc and roc else False
    C.check(okreset, 'C10-MUST-remove', 'remove_file|whole-model-reset', 'the whole-model reset in remove_file no longer clears both maps and unlinks every child of the root through remove_sub_element before emptying the root', '%s:%d' % (rf.file, rf.line),
            sample={'fn': 'remove_file', 'maps_cleared': [len(idc), len(roc)], 'unlink_loop': bool(rsf)})
    rfr = calls(rf, r'impl Element>::remove_from_file$')
    C.check(len(rfr) == 1, 'C10-MUST-remove', 'remove_file|partial-removal-through-remove_from_file', 'remove_file no longer removes the elements attributed only to that file through root.remove_from_file(file)', '%s:%d' % (rf.file, rf.line))
    # the file leaves model.files on every path that touches elements
    sw = [pos for pos, t in rf.iter_calls() if call_matches(t, r'Vec::<T, A>::(swap_remove|remove|retain)$') and (lambda rp: rp is not None and has_field(rp, 'AutosarModelRaw.files'))(E.recv_place(rf, t))]
    C.check(len(sw) == 1 and all(rf.pos_dominates(sw[0], p) for p in rfr + rsf), 'C10-MUST-remove', 'remove_file|file-leaves-the-list-first', 'remove_file touches elements on a path on which the file was not removed from model.files', '%s:%d' % (rf.file, rf.line))
    # ---------------- MUST-samemodel ----------------
    for fn in ('Element::add_to_file', 'Element::remove_from_file'):
        b = P.get(fn)
        writes = [pos for pos, s in b.iter_stmts() if s['k'] == 'assign' and ends_in_field(s['dst'], 'ElementRaw.file_membership')]
        writes += [pos for pos, t in b.iter_calls() if c11.CONTAINER_MUT.search(callee_generic(t) or '') and (lambda rp: rp is not None and has_field(rp, 'ElementRaw.file_membership'))(E.recv_place(b, t))]
        effects = writes + calls(b, r'impl Element>::(add_to_file_restricted|remove_sub_element)$')
        eqs = [p for p in calls(b, r'PartialEq for AutosarModel>::eq$')]
        spl = [p for p in calls(b, r'Option::<T>::is_none_or$')]
        if not writes or not eqs or not spl:
            C.anchor_missing('C10-MUST-samemodel', '%s: membership write / model comparison / splittable test' % fn)
            continue
        for i, w in enumerate(sorted(effects)):
            ok1 = any(guarded_by_true(b, w, p) for p in eqs)
            ok2 = any(guarded_by_true(b, w, p) for p in spl)
            C.check(ok1, 'C10-MUST-samemodel', '%s|effect#%d|same-model' % (fn, i), '%s changes file sets (or deletes elements) without having established file.model() == self.model(): an element can become restricted to a file of another model' % fn, b.where(w),
                    sample={'fn': fn, 'guard': 'file.model()? == self.model()?'} if i == 0 else None)
            C.check(ok2, 'C10-MUST-samemodel', '%s|effect#%d|parent-splittable' % (fn, i), '%s changes file sets although the parent is not splittable' % fn, b.where(w))
        # the compared models come from file.model() and self.model()
        t = b.blocks[eqs[0][0]]['term']
        srcs = [deep_sources(b, a, depth=12) for a in t['args']]
        cs = set().union(*[x[1] for x in srcs])
        C.check(any(c.endswith('ArxmlFile>::model') or c.endswith('ArxmlFile::model') for c in cs) and any(c.endswith('impl Element>::model') for c in cs), 'C10-MUST-samemodel', '%s|compares-file-model-with-element-model' % fn,
                'the same-model test of %s does not compare file.model() with self.model()' % fn, b.where(eqs[0]))
    # add_to_file: the file is one of the files of the model (a removed file still names its former model)
    atf = P.get('Element::add_to_file')
    eff = [pos for pos, s_ in atf.iter_stmts() if s_['k'] == 'assign' and ends_in_field(s_['dst'], 'ElementRaw.file_membership')] + calls(atf, r'impl Element>::add_to_file_restricted$')
    anys = []
    for x in [atf]:
        for p_ in calls(x, r'Iterator>?::any$'):
            if any(c.endswith('AutosarModel>::files') for c in deep_sources(x, x.blocks[p_[0]]['term']['args'][0], depth=10)[1]):
                anys.append(p_)
    C.check(bool(eff) and bool(anys) and all(any(guarded_by_true(atf, e_, a_) for a_ in anys) for e_ in eff), 'C10-MUST-samemodel', 'Element::add_to_file|file-is-listed-in-the-model', 'add_to_file restricts an element to a file without testing that the file is one of model.files(): a file that was removed from the model still refers to it, '
            'so elements can become attributed to a file that does not belong to the model', '%s:%d' % (atf.file, atf.line), sample={'fn': 'add_to_file', 'guard': 'model.files().any(|f| f == *file)'})
    # add_to_file: after the element's own set was extended, the chain of parents is extended too (unless there is no parent)
    stores_a = [pos for pos, s_ in atf.iter_stmts() if s_['k'] == 'assign' and ends_in_field(s_['dst'], 'ElementRaw.file_membership')]
    arc = calls(atf, r'impl Element>::add_to_file_restricted$')
    okp = len(stores_a) == 1 and len(arc) == 1
    if okp:
        oks_ = E.ok_exit_positions(atf)
        cuts = set()
        for p_ in calls(atf, r'impl Element>::parent$'):
            # the None edge of `if let Some(parent) = self.parent()?`
            for q, tt in atf.iter_terms():
                if tt['k'] == 'switch' and is_local_op(tt['d']) and q in atf.reach_from(p_) and atf.pos_dominates(stores_a[0], q):
                    n_, c_, f_ = deep_sources(atf, tt['d'], depth=8)
                    if any(c.endswith('impl Element>::parent') for c in c_):
                        # `if let Some(parent) = self.parent()?`: the edges on which there is no parent (None) or parent() failed
                        for tgt in set(dict(tt['ts']).values()) | {tt['else']}:
                            if arc[0] not in atf.reach_from((tgt, 0), include_start=True):
                                cuts.add((q[0], tgt))
        okp = bool(oks_) and must_pass(atf, stores_a[0], [o for o in oks_ if o in atf.reach_from(stores_a[0])], through={arc[0]}, avoid_edges=cuts, include_start=False)
    C.check(okp, 'C10-MUST-samemodel', 'Element::add_to_file|parents-are-extended-too', 'add_to_file extends the file set of the element but not (on every path) the sets of its parents: the element is attributed to a file that does not contain its parent and is missing from that file\'s text',
            '%s:%d' % (atf.file, atf.line), sample={'fn': 'add_to_file', 'after_store': 'parent.add_to_file_restricted(file)'})
    # a copy starts with an inherited (empty) file set: it must not carry the file set of its source to another place / model
    from c13 import value_sources
    dcp = P.get('ElementRaw::deep_copy')
    lit_ = [s_ for pos, s_ in dcp.iter_stmts() if s_['k'] == 'assign' and s_['rv']['k'] == 'agg' and s_['rv'].get('adt') == 'ElementRaw']
    okc = len(lit_) == 1
    if okc:
        lf_ = dict(zip(lit_[0]['rv']['fields'], lit_[0]['rv']['ops']))
        vs_ = value_sources(dcp, lf_['file_membership'])
        okc = bool(vs_) and all(k == 'call' and 'HashSet' in v and ('with_capacity' in v or '::new' in v or 'default' in v) for k, v in vs_)
    C.check(okc, 'C10-WHO-membership', 'deep_copy|copy-starts-with-inherited-file-set', 'a deep copy takes over the file set of its source: placed below another parent (or in another model) it is restricted to files that do not contain its parent / do not belong to the model and is written to no file',
            '%s:%d' % (dcp.file, dcp.line), sample={'fn': 'deep_copy', 'file_membership': 'HashSet::with_capacity(0)'})
    from c04 import callers_of
    ca = callers_of(P, 'Element::add_to_file_restricted')
    C.check(ca <= {'Element::add_to_file', 'Element::add_to_file_restricted', 'AutosarModel::create_file'}, 'C10-MUST-samemodel', 'add_to_file_restricted|callers', 'add_to_file_restricted (no model check of its own) has a new caller: %s' % sorted(ca))
    cs_ = callers_of(P, 'Element::set_file_membership')
    C.check(cs_ <= {'AutosarModel::remove_file'}, 'C10-MUST-samemodel', 'set_file_membership|callers', 'set_file_membership (no model check of its own) has a new caller: %s' % sorted(cs_))
    # create_file passes the file it just created for this model
    cf = P.get('AutosarModel::create_file')
    ar = calls(cf, r'impl Element>::add_to_file_restricted$')
    okcf = len(ar) == 1
    if okcf:
        n_, c_, f_ = deep_sources(cf, cf.blocks[ar[0][0]]['term']['args'][1], depth=10)
        okcf = 'new_file' in n_ or any(c.endswith('ArxmlFile::new') for c in c_)
        pushes = [pos for pos, t in cf.iter_calls() if call_matches(t, r'Vec::<T, A>::push$') and (lambda rp: rp is not None and has_field(rp, 'AutosarModelRaw.files'))(E.recv_place(cf, t))]
        okcf = okcf and len(pushes) == 1
    C.check(okcf, 'C10-MUST-samemodel', 'create_file|root-gains-the-new-file', 'create_file does not add the newly created file (and only it) to the root element / model.files', '%s:%d' % (cf.file, cf.line))
    # ---------------- MUST-localset: add_to_file_restricted extends an element's set if the parent is splittable OR the element already has its own set
    C.rule('C10-MUST-localset', 'add_to_file_restricted stores the extended file set of an element exactly over the true edge of "parent is splittable" or of the `local` flag returned by file_membership() (an element that already carries its own set must gain the file too, '
           'otherwise a child that is added to the file is attributed to a file its parent is not in); each of the two edges alone reaches the store')
    ar = P.get('Element::add_to_file_restricted')
    stores = [pos for pos, s_ in ar.iter_stmts() if s_['k'] == 'assign' and ends_in_field(s_['dst'], 'ElementRaw.file_membership')]
    fm = calls(ar, r'impl Element>::file_membership$')
    sp = calls(ar, r'Option::<T>::is_none_or$')
    if len(stores) != 1 or len(fm) != 1 or len(sp) != 1:
        C.anchor_missing('C10-MUST-localset', 'add_to_file_restricted: membership store / file_membership() / splittable test')
    else:
        S = stores[0]
        g_split = true_edge(ar, sp[0])
        # the `local` flag: a bool copied from field .0 of the (unwrapped) file_membership() result
        flag_locals = set()
        res = {ar.blocks[fm[0][0]]['term']['dst']['l']}
        for pos, t in ar.iter_calls():
            if call_matches(t, r'Result::<T, E>::(unwrap_or|unwrap_or_default|unwrap|expect|unwrap_or_else)$') and t['args'] and is_local_op(t['args'][0]) and t['args'][0]['l'] in res:
                res.add(t['dst']['l'])
        for pos, s_ in ar.iter_stmts():
            if s_['k'] == 'assign' and s_['rv']['k'] == 'use' and is_local_op(s_['rv']['o']) and s_['rv']['o']['l'] in res and s_['rv']['o']['p'] and s_['rv']['o']['p'][-1] == '.0' and (ar.local_ty(s_['dst']['l']) or '') == 'bool':
                flag_locals.add(s_['dst']['l'])
        from flow import forward_taint
        fl = forward_taint(ar, flag_locals) if flag_locals else set()
        g_local = None
        for pos, tt in ar.iter_terms():
            if tt['k'] == 'switch' and is_local_op(tt['d']) and tt['d']['l'] in fl and set(dict(tt['ts']).keys()) == {'0'}:
                g_local = (pos[0], tt['else'], dict(tt['ts'])['0'])
        ok = g_split is not None and g_local is not None
        if ok:
            r1 = S in ar.reach_from((g_split[1], 0), include_start=True)
            r2 = S in ar.reach_from((g_local[1], 0), include_start=True)
            nec = must_pass(ar, (0, 0), [S], through=(), avoid_edges={(g_split[0], g_split[1]), (g_local[0], g_local[1])})
            ok = r1 and r2 and nec
        C.check(ok, 'C10-MUST-localset', 'add_to_file_restricted|store-if-parent-splittable-or-own-set', 'add_to_file_restricted no longer extends the file set of an element that already has its own set when its parent is not splittable (the `local` flag of file_membership() is ignored): '
                'a child added to a file ends up attributed to a file its parent is not in and is missing from that file\'s text', ar.where(S), sample={'fn': 'add_to_file_restricted', 'guards': ['parent splittable', 'local flag of file_membership()']})
    # "restricted": the sub elements do not follow. Wherever the set of this element or of an ancestor grows (own store, recursive call),
    # the sub elements that inherit were pinned to the old set first - the only way round the pin loop is "this element is not splittable"
    def _is_child_set(pl):
        # the written set belongs to a sub element: the place derives from the iteration over the sub elements
        cs = deep_sources(ar, pl, depth=14)[1]
        return any(re.search(r'::sub_elements$|ElementsIterator|Iterator>?::next$', c) for c in cs)
    mw = [(pos, E.recv_place(ar, t)) for pos, t in ar.iter_calls() if call_matches(t, r'::clone_from$|::clone_into$|HashSet::<.*>::(extend|insert)$')
          and (lambda rp: rp is not None and has_field(rp, 'ElementRaw.file_membership'))(E.recv_place(ar, t))]
    mw += [(pos, s_['dst']) for pos, s_ in ar.iter_stmts() if s_['k'] == 'assign' and ends_in_field(s_['dst'], 'ElementRaw.file_membership')]
    pins = [pos for pos, pl in mw if _is_child_set(pl)]
    grows = calls(ar, r'impl Element>::add_to_file_restricted$') + [pos for pos, pl in mw if not _is_child_set(pl)]
    gate = [q for q in calls(ar, r'ElementType::splittable$') if pins and any(ar.pos_dominates(q, p_) for p_ in pins)]
    if not pins or not grows or not gate:
        C.anchor_missing('C10-MUST-localset', 'add_to_file_restricted: pin loop over the sub elements / splittable test of the element / recursive call')
    else:
        # every path to a growing step passes the test that opens the pin loop (the loop itself may find nothing to pin)
        okp = all(must_pass(ar, iteration_start(ar, g_), [g_], through={gate[-1]}) for g_ in grows)
        C.check(okp, 'C10-MUST-localset', 'add_to_file_restricted|sub-elements-pinned-before-any-set-grows', 'add_to_file_restricted can extend the file set of the element or of an ancestor without having pinned the inheriting sub elements to the previous set '
                '(the pin loop is skipped under a condition other than "this element is not splittable"): sub elements of an element without a set of its own silently follow into the new file, which "add only this element and its parents" excludes',
                ar.where(pins[0]), sample={'fn': 'add_to_file_restricted', 'pin': 'subelem.file_membership.clone_from(current set)', 'before': ['own store', 'parent.add_to_file_restricted']})
    # the SHORT-NAME of a named element is part of the element: it is never given a file set of its own by the pin loop (a file that
    # contains the element but not its SHORT-NAME does not load on its own: RequiredSubelementMissing)
    if pins:
        okn = False
        for q, t in ar.iter_calls():
            if not call_matches(t, r'cmp::PartialEq::(eq|ne)$|ElementName as .*PartialEq>::(eq|ne)$') or len(t['args']) < 2:
                continue
            if not any(is_local_op(a) and 'ElementName' in (ar.local_ty(a['l']) or '') for a in t['args']):
                continue
            # one operand is the name of the sub element that is pinned (a place ending in ElementRaw.elemname or the result of
            # element_name()), the other a constant (promoted: its value is not in the facts)
            def name_of_subelement(a):
                n_, c_, f_ = deep_sources(ar, a, depth=10)
                return 'ElementRaw.elemname' in f_ or any(c.endswith('::element_name') for c in c_)
            def constant(a, depth=5):
                from flow import defs_of
                while depth > 0 and is_local_op(a):
                    depth -= 1
                    ds = defs_of(ar, a['l'])
                    if len(ds) != 1 or ds[0][1]['k'] != 'assign':
                        return False
                    rv = ds[0][1]['rv']
                    if rv['k'] in ('ref', 'rawptr'):
                        a = {'l': rv['pl']['l'], 'p': []}
                    elif rv['k'] in ('use', 'cast'):
                        a = rv['o']
                    elif rv['k'] == 'agg' and rv.get('adt') == 'ElementName':
                        return True
                    else:
                        return False
                return not is_local_op(a)
            if not (any(name_of_subelement(a) for a in t['args']) and any(constant(a) for a in t['args'])):
                continue
            sw = switch_edges_on_call_result(ar, q)
            if not sw or set(sw[1].keys()) != {'0'}:
                continue
            is_ne = call_matches(t, r'::ne$')
            is_sn_target = sw[1]['0'] if is_ne else sw[2]        # the edge taken when the sub element IS the SHORT-NAME
            hdr = iteration_start(ar, pins[0])
            if all(p_ not in ar.reach_from((is_sn_target, 0), include_start=True, avoid={hdr}) for p_ in pins) and all(ar.pos_dominates(q, p_) for p_ in pins):
                okn = True
        C.check(okn, 'C10-MUST-localset', 'add_to_file_restricted|short-name-is-never-pinned', 'the loop that pins the inheriting sub elements to the previous file set also pins the SHORT-NAME of a named element: the element is then in the new file, its SHORT-NAME is not, '
                'and the text produced for the new file does not load on its own (RequiredSubelementMissing)', ar.where(pins[0]), sample={'fn': 'add_to_file_restricted', 'pin_loop_skips': 'ElementName::ShortName'})
    C.rule('C10-MUST-inherit', 'when a loaded file is merged, a model-side element that has its own file set hands THAT set (not the wider set of its parent) down to its children (shared with C09-MUST-restrict)')
    from c09 import own_set_rule
    own_set_rule(C, P, 'C10-MUST-inherit')
    # ---------------- MUST-rollback ----------------
    rollback_rule(C, P, 'C10-MUST-rollback')
    # ---------------- WHO-membership ----------------
    writers = {}
    for b in scope:
        k = 0
        for pos, s in b.iter_stmts():
            if s['k'] == 'assign' and ends_in_field(s['dst'], 'ElementRaw.file_membership'):
                k += 1
        for pos, t in b.iter_calls():
            if c11.CONTAINER_MUT.search(callee_generic(t) or ''):
                rp = E.recv_place(b, t)
                if rp is not None and has_field(rp, 'ElementRaw.file_membership'):
                    k += 1
        if k:
            writers[b.short] = k
    # a merged element that has its own (restricted) file set is now also in the new file: the insert reaches the FIELD (through a write guard),
    # not a clone of it - otherwise its new-file-only children are attributed to a file their parent is not in
    C.rule('C10-MUST-mergeown', 'merge_sub_elements inserts the new file into the merged element\'s own ElementRaw.file_membership (an insert whose receiver is the field reached through a write guard, not a copy)')
    ms = P.get('AutosarModel::merge_sub_elements')
    okm = []
    for x in [ms] + list(P.closures_of(ms)):
        for pos, t in x.iter_calls():
            if call_matches(t, r'HashSet::<[^>]*>::(insert|extend)$|Extend<[^>]*>>?::extend$') and t['args']:
                n_, c_, f_ = deep_sources(x, t['args'][0], depth=20)
                if 'ElementRaw.file_membership' in f_ and any(c.endswith('RwLock::<R, T>::write') or c.endswith('DerefMut>::deref_mut') for c in c_) and not any(c.endswith('Clone>::clone') or c.endswith('::clone_from') for c in c_):
                    okm.append(x.where(pos))
    C.check(bool(okm), 'C10-MUST-mergeown', 'merge_sub_elements|own-file-set-gets-the-new-file',
            'merge_sub_elements no longer inserts the new file into the merged element\'s own file set (only into a copy, or not at all): an element restricted to some files that a later file also contributes to keeps its old set, and its new children are attributed to a file that does not contain their parent',
            '%s:%d' % (ms.file, ms.line), sample={'fn': 'AutosarModel::merge_sub_elements', 'inserts_into_the_field': okm})
    C.extra['file_membership_writers'] = writers
    C.ok('C10-WHO-membership', 'enumerated', '%d writer functions, %d sites' % (len(writers), sum(writers.values())))
    C.floor('C10-WHO-membership.sites', sum(writers.values()), 10)
    import scope
    scope.closed_world(C, P, 'C10-WHO-membership')
    return C.finish('Structural necessary conditions of file-membership consistency on MIR: one membership predicate in the four per-file views (cut-set and reachability on the CFG), no tree mutation during tree iteration '
                    '(may-mutate summary over the resolved call graph + loop bodies), guarded membership writes, indexed deletion, rollback of a failed merge. '
                    'The inheritance invariant under arbitrary API histories is not decided.')

"""flow.py - def/use utilities over the MIR facts (no evaluation; purely structural)."""
import re
from ir import rv_operands, callee_of, callee_generic


def is_local_op(o):
    return isinstance(o, dict) and 'l' in o


def op_local(o):
    """local index if operand is a bare local (no projection)."""
    if is_local_op(o) and not o['p']:
        return o['l']
    return None


def mentions(o, l):
    if not is_local_op(o):
        return False
    if o['l'] == l:
        return True
    for p in o['p']:
        if p.startswith('[_') and p == '[_%d]' % l:
            return True
    return False


def iter_uses(body, cleanup=False):
    """yield (pos, role, operand_or_place, stmt_or_term) for every mention of a place.
    roles: 'def' (assign dst), 'use' (rvalue operand), 'ref'/'refmut' (borrow), 'discr', 'arg<i>', 'callee',
           'calldst', 'switch', 'drop', 'assert', 'agg:<Adt>.<Variant>.<field>'"""
    for pos, s in body.iter_stmts(cleanup):
        if s['k'] == 'assign':
            yield pos, 'def', s['dst'], s
            rv = s['rv']
            k = rv['k']
            if k in ('ref', 'rawptr'):
                yield pos, 'refmut' if rv['mut'] else 'ref', rv['pl'], s
            elif k == 'discr':
                yield pos, 'discr', rv['pl'], s
            elif k == 'agg':
                fields = rv.get('fields')
                for i, o in enumerate(rv['ops']):
                    if rv.get('ak') == 'adt':
                        role = 'agg:%s.%s.%s' % (rv['adt'], rv['var'], fields[i] if fields and i < len(fields) else i)
                    else:
                        role = 'agg:%s.%d' % (rv.get('ak'), i)
                    yield pos, role, o, s
            else:
                for o in rv_operands(rv):
                    yield pos, 'use:' + k, o, s
        elif s['k'] == 'setdiscr':
            yield pos, 'def', s['dst'], s
    for pos, t in body.iter_terms(cleanup):
        k = t['k']
        if k in ('call', 'tailcall'):
            yield pos, 'callee', t['f'], t
            for i, a in enumerate(t['args']):
                yield pos, 'arg%d' % i, a, t
            if k == 'call':
                yield pos, 'calldst', t['dst'], t
        elif k == 'switch':
            yield pos, 'switch', t['d'], t
        elif k == 'drop':
            yield pos, 'drop', t['pl'], t
        elif k == 'assert':
            yield pos, 'assert', t['cond'], t


def defs_of(body, l):
    """positions that assign the whole local l (assign dst or call dst)."""
    out = []
    for pos, role, pl, st in iter_uses(body):
        if role in ('def', 'calldst') and is_local_op(pl) and pl['l'] == l and not pl['p']:
            out.append((pos, st))
    return out


def closure_field(body, pl, depth=4):
    """a place that projects into a closure environment - `(*_e).{closure}.N..` with _e bound to a closure value created in this body (closure
    view, inline.flatten_closures) - is the N-th captured operand: returns that operand with the remaining projection, or None"""
    if depth == 0 or not is_local_op(pl) or not pl['p']:
        return None
    idx = None
    for i, pr in enumerate(pl['p']):
        m = re.match(r'^\.\{closure\}\.(\d+)$', pr) if isinstance(pr, str) else None
        if m:
            idx = (i, int(m.group(1)))
            break
    if idx is None or any(x != '*' for x in pl['p'][:idx[0]]):
        return None
    # find the closure aggregate the base local is bound to
    cur = pl['l']
    for _ in range(6):
        ds = defs_of(body, cur)
        if len(ds) != 1 or ds[0][1]['k'] != 'assign':
            return None
        rv = ds[0][1]['rv']
        if rv['k'] == 'agg' and rv.get('ak') == 'closure':
            if idx[1] >= len(rv['ops']):
                return None
            op = rv['ops'][idx[1]]
            if not is_local_op(op):
                return op
            return {'l': op['l'], 'p': list(op['p']) + list(pl['p'][idx[0] + 1:])}
        if rv['k'] == 'ref' and not rv['pl']['p']:
            cur = rv['pl']['l']
        elif rv['k'] in ('use', 'cast') and is_local_op(rv['o']) and not rv['o']['p']:
            cur = rv['o']['l']
        else:
            return None
    return None


def origins(body, o, depth=12, seen=None):
    """follow use/move/cast chains backwards from operand o; returns list of (pos, stmt_or_term) that
    produce the value (non-copy definitions), or [('param', n)] / [('const', o)]."""
    if seen is None:
        seen = set()
    if not is_local_op(o):
        return [('const', o)]
    l = o['l']
    if o['p'] and depth > 0 and getattr(body, 'inlined_ids', None):
        cf = closure_field(body, o)
        if cf is not None:
            return origins(body, cf, depth - 1, seen)
    if o['p']:
        # deref of a local that holds `&place`  ->  that place (+ remaining projection)
        if o['p'][0] == '*' and depth > 0:
            res = []
            for pos, st in defs_of(body, l):
                if st['k'] == 'assign' and st['rv']['k'] == 'ref':
                    inner = st['rv']['pl']
                    res.append(('place', {'l': inner['l'], 'p': inner['p'] + o['p'][1:]}))
            if res:
                return res
        return [('place', o)]
    if l in seen or depth == 0:
        return []
    seen.add(l)
    if 1 <= l <= body.argc:
        # parameters may also be reassigned, but that is rare; report both
        res = [('param', l)]
    else:
        res = []
    for pos, st in defs_of(body, l):
        if st['k'] == 'assign' and st['rv']['k'] in ('use',) :
            res.extend(origins(body, st['rv']['o'], depth - 1, seen))
        elif st['k'] == 'assign' and st['rv']['k'] == 'cast':
            res.extend(origins(body, st['rv']['o'], depth - 1, seen))
        else:
            res.append((pos, st))
    return res


def origins_through_try(body, o, depth=6):
    """origins(), but a value that was wrapped by an inlined helper (`Ok(v)` / `Some(v)`) and unwrapped again by the caller's `?`
    (`Try::branch` + `(cf as Continue).0`) or by a pattern (`(r as Ok).0`) is followed to the origins of v."""
    out = []

    def component(x, rest):
        # the payload is a tuple built by the helper (`Ok((model, version))`): follow the remaining `.N` projections into the aggregate
        for pr in rest:
            if not (is_local_op(x) and re.match(r'^\.\d+$', pr)):
                return None
            nx = None
            for og2 in origins(body, x):
                st2 = og2[1] if og2[0] not in ('param', 'const', 'place') else None
                if isinstance(st2, dict) and st2.get('k') == 'assign' and st2['rv']['k'] in ('agg', 'tuple') and len(st2['rv'].get('ops', [])) > int(pr[1:]):
                    nx = st2['rv']['ops'][int(pr[1:])]
            if nx is None:
                return None
            x = nx
        return x
    for og in origins(body, o):
        if og[0] == 'place' and depth > 0 and len(og[1]['p']) > 2 and og[1]['p'][0] in ('as Continue', 'as Ok', 'as Some') and all(re.match(r'^\.\d+$', x) for x in og[1]['p'][2:]):
            # a component of a tuple payload
            inner = origins_through_try(body, {'l': og[1]['l'], 'p': og[1]['p'][:2]}, depth - 1)
            done = False
            for og2 in inner:
                st2 = og2[1] if og2[0] not in ('param', 'const', 'place') else None
                if isinstance(st2, dict) and st2.get('k') == 'assign' and st2['rv']['k'] in ('agg', 'tuple'):
                    c = component({'l': st2['dst']['l'], 'p': []}, og[1]['p'][2:])
                    if c is not None:
                        out += origins_through_try(body, c, depth - 1)
                        done = True
            if not done:
                out.append(og)
            continue
        if og[0] == 'place' and depth > 0 and og[1]['p'] and all(re.match(r'^\.\d+$', x) for x in og[1]['p']):
            # `let (a, b) = helper()?;` - a component of a tuple that was moved out of the payload first
            inner = origins_through_try(body, {'l': og[1]['l'], 'p': []}, depth - 1)
            done = False
            for og2 in inner:
                st2 = og2[1] if og2[0] not in ('param', 'const', 'place') else None
                if isinstance(st2, dict) and st2.get('k') == 'assign' and st2['rv']['k'] in ('agg', 'tuple'):
                    c = component({'l': st2['dst']['l'], 'p': []}, og[1]['p'])
                    if c is not None:
                        out += origins_through_try(body, c, depth - 1)
                        done = True
            if not done:
                out.append(og)
            continue
        if og[0] == 'place' and depth > 0 and len(og[1]['p']) >= 2 and og[1]['p'][0] in ('as Continue', 'as Ok', 'as Some'):
            base = {'l': og[1]['l'], 'p': []}
            pierced = False
            for o2 in origins(body, base):
                st = o2[1] if o2[0] not in ('param', 'const', 'place') else None
                if isinstance(st, dict) and st.get('k') == 'call' and call_matches(st, r'Try>?::branch$') and st['args']:
                    for o3 in origins(body, st['args'][0]):
                        st3 = o3[1] if o3[0] not in ('param', 'const', 'place') else None
                        if isinstance(st3, dict) and st3.get('k') == 'assign' and st3['rv']['k'] == 'agg' and st3['rv'].get('var') in ('Ok', 'Some') and len(st3['rv'].get('ops', [])) == 1:
                            out += origins_through_try(body, st3['rv']['ops'][0], depth - 1)
                            pierced = True
                        elif isinstance(st3, dict) and st3.get('k') == 'call':
                            out.append(o3)        # `callee(..)?`: the value is the Ok payload of that call
                            pierced = True
                elif isinstance(st, dict) and st.get('k') == 'assign' and st['rv']['k'] == 'agg' and st['rv'].get('var') in ('Ok', 'Some', 'Continue') and len(st['rv'].get('ops', [])) == 1:
                    out += origins_through_try(body, st['rv']['ops'][0], depth - 1)
                    pierced = True
            if not pierced:
                out.append(og)
        else:
            out.append(og)
    return out


def same_value_locals(body, o, depth=24):
    """locals that hold (a borrow / a copy / an Option or Result wrapping of) the same text as operand o: followed through copies,
    borrows, pattern bindings and calls that hand their argument on unchanged (clone, deref, as_str, as_deref, to_owned, to_string,
    unwrap_or(a, b) - both alternatives); NOT through calls that compute a new value (format!, strip_prefix, ..)"""
    out, work = set(), [o]
    while work and depth > 0:
        depth -= 1
        x = work.pop()
        if not is_local_op(x) or x['l'] in out:
            continue
        out.add(x['l'])
        for q, st in defs_of(body, x['l']):
            if st['k'] == 'assign':
                rv = st['rv']
                if rv['k'] in ('use', 'cast'):
                    work.append(rv['o'])
                elif rv['k'] in ('ref', 'rawptr'):
                    work.append({'l': rv['pl']['l'], 'p': []})
                elif rv['k'] == 'agg' and rv.get('var') in ('Some', 'Ok') and len(rv.get('ops', [])) == 1:
                    work.append(rv['ops'][0])
            elif st['k'] == 'call' and st['args']:
                if call_matches(st, TRANSPARENT_CALLS + r'|Option::<T>::(as_deref|as_ref|as_mut|cloned|copied|unwrap|expect|unwrap_or_default)$'):
                    work.append(st['args'][0])
                elif call_matches(st, r'Option::<T>::(unwrap_or|or)$|Result::<T, E>::(unwrap_or|or)$'):
                    work.extend(st['args'])
    return out


def receiver_chain_locals(body, o, depth=24):
    """every local on the chain that leads back from operand o through copies, borrows and the RECEIVER (first argument) of calls:
    `guard.files.iter().any(..)` -> {.., the iterator, the slice reference, the deref result, the guard}"""
    out, work = set(), [o]
    while work and depth > 0:
        depth -= 1
        x = work.pop()
        if not is_local_op(x) or x['l'] in out:
            continue
        out.add(x['l'])
        for q, st in defs_of(body, x['l']):
            if st['k'] == 'assign':
                rv = st['rv']
                if rv['k'] in ('use', 'cast'):
                    work.append(rv['o'])
                elif rv['k'] in ('ref', 'rawptr'):
                    work.append({'l': rv['pl']['l'], 'p': []})
            elif st['k'] == 'call' and st['args']:
                work.append(st['args'][0])
    return out


def is_param_itself(body, o, n, depth=6):
    """operand o is parameter n of the body - as it is, or a (re)borrow / copy of it; nothing computed from it"""
    if not is_local_op(o):
        return False
    if o['l'] == n:
        return True
    ogs = origins(body, o)
    if not ogs:
        return False
    for org in ogs:
        if org[0] == 'param':
            if org[1] != n:
                return False
        elif org[0] == 'place':
            if not (org[1]['l'] == n or (depth > 0 and is_param_itself(body, {'l': org[1]['l'], 'p': []}, n, depth - 1))):
                return False
        elif isinstance(org[1], dict) and org[1].get('k') == 'assign' and org[1]['rv']['k'] in ('ref', 'rawptr'):
            pl = org[1]['rv']['pl']
            if not (pl['l'] == n or (depth > 0 and is_param_itself(body, {'l': pl['l'], 'p': []}, n, depth - 1))):
                return False
        else:
            return False
    return True


def forward_taint(body, seeds, through_refs=True):
    """locals that receive a (copy/move/ref/cast of a) seed local; returns set of locals."""
    t = set(seeds)
    changed = True
    while changed:
        changed = False
        for pos, s in body.iter_stmts():
            if s['k'] != 'assign':
                continue
            d = s['dst']
            if d['p']:
                continue
            rv = s['rv']
            src = None
            if rv['k'] in ('use', 'cast'):
                src = rv['o']
            elif rv['k'] in ('ref',) and through_refs:
                src = rv['pl']
            if src is not None and is_local_op(src) and src['l'] in t and d['l'] not in t:
                # only whole-local copies or derefs of refs to the local
                if not src['p'] or src['p'] == ['*']:
                    t.add(d['l'])
                    changed = True
    return t


def uses_of_locals(body, locs):
    out = []
    for pos, role, pl, st in iter_uses(body):
        if is_local_op(pl) and pl['l'] in locs:
            out.append((pos, role, pl, st))
    return out


def call_matches(t, pattern):
    f = t['f']
    if re.search(pattern, f.get('fn', '') or '') or re.search(pattern, f.get('res', '') or ''):
        return True
    if 'substs' in f:
        full = '%s::<%s>' % (f.get('fn', ''), ', '.join(f['substs']))
        return bool(re.search(pattern, full))
    return False


def const_val(o):
    if isinstance(o, dict) and 'c' in o:
        return o.get('v')
    return None


def must_pass(body, src, dsts, through, avoid_edges=frozenset(), include_start=True, precise=False):
    """True iff every path src -> any of dsts passes a position in `through` (or an edge in avoid_edges
    which is treated as 'cut', i.e. paths over such edges are considered discharged elsewhere)."""
    through = set(through)
    if getattr(body, 'inlined_ids', None) or precise:
        seen = body.precise_walk(src, stops=frozenset(through), include_start=include_start, skip_edges=frozenset(avoid_edges))
        return not [d for d in dsts if d in seen and d not in through]
    seen = set()
    from collections import deque
    dq = deque()

    def push(p):
        if p not in seen:
            seen.add(p)
            if p not in through:
                dq.append(p)
    if include_start:
        push(src)
    else:
        for n in body._pos_succs(src):
            push(n)
    while dq:
        p = dq.popleft()
        bi, i = p
        if i < body.nstmts(bi):
            push((bi, i + 1))
        else:
            for s in body.succs(bi):
                if body.blocks[s]['cleanup']:
                    continue
                if (bi, s) in avoid_edges:
                    continue
                push((s, 0))
    hit = [d for d in dsts if d in seen and d not in through]
    return not hit


def switch_edges_on_call_result(body, call_pos, proj=None):
    """for a call at call_pos returning bool/Option etc into local r, find the switch that tests r (possibly
    via `discriminant(r)` or a copy) and return (switch_block, {value: target}, else_target)."""
    t = body.blocks[call_pos[0]]['term']
    if t['k'] != 'call' or t['dst']['p']:
        return None
    r = t['dst']['l']
    locs = forward_taint(body, {r}, through_refs=True)
    if proj is not None:
        # the tested value is one field of the (tuple) result: _x = _r.<proj>
        sel = set()
        for pos, s in body.iter_stmts():
            if s['k'] == 'assign' and not s['dst']['p'] and s['rv']['k'] == 'use' and is_local_op(s['rv']['o']) and s['rv']['o']['l'] in locs and s['rv']['o']['p'] == [proj]:
                sel.add(s['dst']['l'])
        locs = forward_taint(body, sel, through_refs=True) if sel else set()
    if proj is None:
        # the value wrapped and unwrapped again: `Ok(flag)` of an inlined helper, the caller's `?`, then the payload
        wrap = set()
        grew = True
        while grew:
            grew = False
            for pos, s in body.iter_stmts():
                if s['k'] != 'assign' or s['dst']['p']:
                    continue
                rv = s['rv']
                d = s['dst']['l']
                if rv['k'] == 'agg' and rv.get('var') in ('Ok', 'Some', 'Continue') and len(rv.get('ops', [])) == 1 and is_local_op(rv['ops'][0]) and rv['ops'][0]['l'] in locs and not rv['ops'][0]['p'] and d not in wrap:
                    wrap.add(d); grew = True
                elif rv['k'] in ('use', 'cast') and is_local_op(rv['o']) and rv['o']['l'] in wrap:
                    pp = rv['o']['p']
                    if not pp and d not in wrap:
                        wrap.add(d); grew = True
                    elif len(pp) == 2 and pp[0] in ('as Ok', 'as Some', 'as Continue') and d not in locs:
                        locs.add(d); grew = True
            for pos, t2 in body.iter_calls():
                if call_matches(t2, r'Try>?::branch$') and t2['args'] and is_local_op(t2['args'][0]) and t2['args'][0]['l'] in wrap and not t2['dst']['p'] and t2['dst']['l'] not in wrap:
                    wrap.add(t2['dst']['l']); grew = True
            nl = forward_taint(body, locs, through_refs=True)
            if nl - locs:
                locs |= nl; grew = True
    # discriminant reads
    discs = set()
    for pos, s in body.iter_stmts():
        if s['k'] == 'assign' and s['rv']['k'] == 'discr' and s['rv']['pl']['l'] in locs and not s['dst']['p']:
            locs.add(s['dst']['l'])
            discs.add(s['dst']['l'])
        if s['k'] == 'assign' and s['rv']['k'] == 'un' and s['rv']['op'] == 'Not' and is_local_op(s['rv']['o']) and s['rv']['o']['l'] in locs:
            pass  # negation handled by caller (edge meaning flips); we do not follow it
    cands = [(pos, tt) for pos, tt in body.iter_terms() if tt['k'] == 'switch' and is_local_op(tt['d']) and tt['d']['l'] in locs and not tt['d']['p']]
    if proj is None and (body.local_ty(r) or '') == 'bool':
        # a bool that travels inside a wrapper first (`Ok(flag)` of an inlined helper, then `?`): the test of the FLAG is the switch on a
        # bool local, not the switch on the wrapper's discriminant
        bools = [(pos, tt) for pos, tt in cands if tt['d']['l'] not in discs and (body.local_ty(tt['d']['l']) or '') == 'bool']
        if bools:
            cands = bools
    for pos, tt in cands:
        return pos[0], {v: b for v, b in tt['ts']}, tt['else']
    return None


def fmt_pos(body, pos):
    return '%s @%s' % (body.short, body.where(pos))


def resolve_place(body, pl, depth=6):
    """rewrite a place that starts with a deref of a local holding `&place` (or the result of Index::index /
    Deref::deref on such a reference) into the underlying place."""
    if depth == 0 or not is_local_op(pl):
        return pl
    if pl['p'] and getattr(body, 'inlined_ids', None):
        cf = closure_field(body, pl)
        if cf is not None and is_local_op(cf):
            return resolve_place(body, cf, depth - 1)
    if pl['p'] and pl['p'][0] == '*':
        ds = defs_of(body, pl['l'])
        if len(ds) == 1:
            pos, st = ds[0]
            if st['k'] == 'assign' and st['rv']['k'] in ('ref', 'rawptr'):
                inner = resolve_place(body, st['rv']['pl'], depth - 1)
                return {'l': inner['l'], 'p': inner['p'] + pl['p'][1:]}
            if st['k'] == 'assign' and st['rv']['k'] == 'use' and is_local_op(st['rv']['o']):
                inner = resolve_place(body, {'l': st['rv']['o']['l'], 'p': st['rv']['o']['p'] + ['*']}, depth - 1)
                return {'l': inner['l'], 'p': inner['p'] + pl['p'][1:]}
            if st['k'] == 'call' and call_matches(st, r'Index(Mut)?<.*>::index(_mut)?$|Deref(Mut)?>::deref(_mut)?$|::as_(mut_)?slice$|::first$|::get$|::get_mut$|::iter$') and st['args'] and is_local_op(st['args'][0]):
                a = st['args'][0]
                inner = resolve_place(body, {'l': a['l'], 'p': a['p'] + ['*']}, depth - 1)
                extra = ['[?]'] if 'ndex' in (st['f'].get('fn') or '') else []
                return {'l': inner['l'], 'p': inner['p'] + extra + pl['p'][1:]}
    return pl


TRANSPARENT_CALLS = r'Clone>::clone$|Deref>::deref$|DerefMut>::deref_mut$|AsRef<.*>>::as_ref$|Borrow<.*>>::borrow$|::as_str$|ToOwned>::to_owned$|ToString>::to_string$|::as_bytes$|::as_slice$|From<.*>>::from$|Into<.*>>::into$'


def source_locals(body, o, depth=10, seen=None):
    """locals (indices) a value is derived from through copies, borrows and value-preserving conversions."""
    if seen is None:
        seen = set()
    out = set()
    if not is_local_op(o) or depth == 0:
        return out
    l = o['l']
    if l in seen:
        return out
    seen.add(l)
    out.add(l)
    for pos, st in defs_of(body, l):
        if st['k'] == 'assign':
            rv = st['rv']
            if rv['k'] in ('use', 'cast'):
                out |= source_locals(body, rv['o'], depth - 1, seen)
            elif rv['k'] in ('ref', 'rawptr'):
                out |= source_locals(body, {'l': rv['pl']['l'], 'p': []}, depth - 1, seen)
        elif st['k'] == 'call' and call_matches(st, TRANSPARENT_CALLS) and st['args']:
            out |= source_locals(body, st['args'][0], depth - 1, seen)
    return out


def source_names(body, o):
    return {body.names[l] for l in source_locals(body, o) if l in body.names}


def strict_source_roots(body, o, depth=12, seen=None):
    """like source_locals but returns the set of ROOTS of every derivation chain: ('local', name|index) for locals that are
    not themselves copies, ('const', text) for constants.  Used to require that a value derives ONLY from a given variable."""
    if seen is None:
        seen = set()
    if not is_local_op(o):
        return {('const', str(o.get('v', o.get('fn'))))}
    l = o['l']
    if l in seen or depth == 0:
        return set()
    seen.add(l)
    ds = defs_of(body, l)
    roots = set()
    if 1 <= l <= body.argc:
        roots.add(('local', body.names.get(l, l)))
    for pos, st in ds:
        if st['k'] == 'assign':
            rv = st['rv']
            if rv['k'] in ('use', 'cast'):
                roots |= strict_source_roots(body, rv['o'], depth - 1, seen)
                continue
            if rv['k'] in ('ref', 'rawptr'):
                if rv['pl']['p'] and rv['pl']['p'] != ['*']:
                    roots.add(('local', body.names.get(rv['pl']['l'], rv['pl']['l'])))
                else:
                    inner = strict_source_roots(body, {'l': rv['pl']['l'], 'p': []}, depth - 1, seen)
                    roots |= inner if inner else {('local', body.names.get(rv['pl']['l'], rv['pl']['l']))}
                continue
            roots.add(('local', body.names.get(l, l)))
        elif st['k'] == 'call' and call_matches(st, TRANSPARENT_CALLS + r'|IntoIterator>::into_iter$|::iter$|Unsize|::as_ref$') and st['args']:
            roots |= strict_source_roots(body, st['args'][0], depth - 1, seen)
        else:
            roots.add(('local', body.names.get(l, l)))
    if not ds and not roots:
        roots.add(('local', body.names.get(l, l)))
    return roots


def deep_sources(body, o, depth=8, seen=None):
    """(names, callees, fields): user variable names, callee paths and Adt.field names a value is derived from, following
    copies, borrows, aggregates' single payloads and the RECEIVER (arg0) of every call."""
    if seen is None:
        seen = set()
    names, callees, fields = set(), set(), set()
    if not is_local_op(o) or depth == 0:
        return names, callees, fields
    if o['p'] and getattr(body, 'inlined_ids', None):
        cf = closure_field(body, o)
        if cf is not None:
            return deep_sources(body, cf, depth - 1, seen)
    for p in o['p']:
        if p.startswith('.') and not p[1:2].isdigit():
            fields.add(p[1:])
    l = o['l']
    if l in body.names:
        names.add(body.names[l])
    if l in seen:
        return names, callees, fields
    seen.add(l)
    for pos, st in defs_of(body, l):
        subs = []
        if st['k'] == 'assign':
            rv = st['rv']
            if rv['k'] in ('use', 'cast'):
                subs.append(rv['o'])
            elif rv['k'] in ('ref', 'rawptr'):
                subs.append(rv['pl'])
            elif rv['k'] == 'agg' and len(rv['ops']) == 1:
                subs.append(rv['ops'][0])
            elif rv['k'] == 'discr':
                subs.append(rv['pl'])
            elif rv['k'] in ('un',):
                subs.append(rv['o'])
        elif st['k'] == 'call':
            callees.add(callee_of(st) or callee_generic(st) or '?')
            if st['args']:
                subs.append(st['args'][0])
            # a closure handed to an adaptor (`iter.filter_map(|k| ..)`, `opt.and_then(|x| ..)`, `flag.then(|| ..)`): what the closure
            # returns is part of what the value is built from - its callees and fields count, its local names do not
            P_ = getattr(body, 'program', None)
            if P_ is not None and depth > 2:
                for a_ in st['args'][1:]:
                    if not is_local_op(a_):
                        continue
                    for q_, d_ in defs_of(body, a_['l']):
                        if d_['k'] == 'assign' and d_['rv']['k'] == 'agg' and d_['rv'].get('ak') == 'closure':
                            cb_ = P_.bodies.get(d_['rv'].get('fn'))
                            if cb_ is not None and ('clo', cb_.id) not in seen:
                                seen.add(('clo', cb_.id))
                                n3, c3, f3 = deep_sources(cb_, {'l': 0, 'p': []}, depth - 2, set())
                                callees |= c3; fields |= f3
                                # captured variables: what the closure reads from its environment
                                for up in cb_.upvars.values():
                                    pass
        for sub in subs:
            n2, c2, f2 = deep_sources(body, sub, depth - 1, seen)
            names |= n2; callees |= c2; fields |= f2
    return names, callees, fields


def upvar_names(body, o, depth=4):
    """names of captured variables (closure upvars) an operand is read from"""
    out = set()
    if depth == 0 or not is_local_op(o):
        return out
    for org in origins(body, o):
        if org[0] != 'place':
            continue
        pl = org[1]
        n = body.upvar_of(pl)
        if n:
            out.add(n)
            continue
        if pl.get('p') and all(x == '*' for x in pl['p']):
            for pos, st in defs_of(body, pl['l']):
                if st['k'] == 'assign' and st['rv']['k'] in ('use', 'ref'):
                    src = st['rv'].get('o') or st['rv'].get('pl')
                    if isinstance(src, dict) and 'l' in src:
                        n2 = body.upvar_of(src)
                        if n2:
                            out.add(n2)
                        else:
                            out |= upvar_names(body, {'l': src['l'], 'p': []}, depth - 1)
    return out

"""foldinterp.py - DFA of a validator that consumes its input with ONE iteration construct (a `for` loop over the slice, or
`iter().try_fold / fold`), whatever the shape around it: a helper function that walks the table, an accumulator closure, an
early `return`, a `matches!` on the helper's result.

Nothing of the crate is executed: the syn AST of regex.rs is interpreted by the small evaluator below.
 * exploration: the validator is evaluated with a symbolic input.  At the iteration construct the loop body (or the fold closure)
   is evaluated for every reachable configuration (the values of the variables at the loop head) and every byte 0..255; this
   yields the states and the complete transition function.  A configuration determines everything that happens later, because
   the input is used nowhere else (any other use of the symbolic input is outside the fragment -> Undecided).
 * acceptance: for every state the validator is evaluated once more on the representative byte string that reaches it; the
   boolean result says whether the state accepts.
 * a panic of the evaluated code (index out of range, arithmetic overflow of u8/usize) in any configuration is reported."""
from rustexpr import Undecided

INPUT = ('<input>',)
MAX_STATES = 4000


class Ret(Exception):
    def __init__(self, v):
        self.v = v


class Panic(Exception):
    pass


class Explored(Exception):
    def __init__(self, trans, reps, panics):
        self.trans, self.reps, self.panics = trans, reps, panics


def freeze(v):
    if isinstance(v, dict):
        return tuple(sorted((k, freeze(x)) for k, x in v.items()))
    if isinstance(v, (list, tuple)):
        return tuple(freeze(x) for x in v)
    return v


class Closure:
    def __init__(self, params, body, env):
        self.params, self.body, self.env = params, body, env


class Mini:
    def __init__(self, fns, statics):
        self.fns = fns
        self.statics = {s['name']: s for s in statics}
        self.tables = {}
        self.steps = 0

    # ------------------------------------------------------------------ tables
    def table(self, name):
        if name not in self.tables:
            s = self.statics.get(name)
            if s is None:
                raise Undecided('unknown static %s' % name)
            self.tables[name] = self.lit(s['e'])
        return self.tables[name]

    def lit(self, e):
        k = e['k']
        if k == 'array':
            return tuple(self.lit(x) for x in e['es'])
        if k in ('int', 'byte'):
            return e['v']
        if k == 'bool':
            return e['v']
        if k == 'ref':
            return self.lit(e['e'])
        raise Undecided('static initialiser %s' % k)

    # ------------------------------------------------------------------ functions
    def call(self, name, args):
        f = self.fns.get(name)
        if f is None:
            raise Undecided('call of unknown function %s' % name)
        if len(f['params']) != len(args):
            raise Undecided('arity of %s' % name)
        env = {}
        for p, a in zip(f['params'], args):
            self.bind(p['pat'], a, env)
        try:
            return self.block(f['body']['stmts'], env)
        except Ret as r:
            return r.v

    def bind(self, pat, v, env):
        k = pat['k']
        if k == 'typed' or k == 'ref':
            return self.bind(pat['p'], v, env)
        if k == 'ident' and pat.get('sub') is None:
            env[pat['name']] = v
            return True
        if k == 'wild':
            return True
        if k == 'tuple' and isinstance(v, tuple) and len(v) == len(pat['ps']):
            return all(self.bind(q, x, env) for q, x in zip(pat['ps'], v))
        return self.match(pat, v, env)

    def match(self, pat, v, env):
        k = pat['k']
        if k == 'wild':
            return True
        if k == 'ident' and pat.get('sub') is None:
            if pat['name'] == 'None':
                return v is None
            env[pat['name']] = v
            return True
        if k == 'ident' and pat.get('sub') is not None:
            if self.match(pat['sub'], v, env):
                env[pat['name']] = v
                return True
            return False
        if k in ('ref', 'typed'):
            return self.match(pat['p'], v, env)
        if k == 'lit':
            return v == self.expr(pat['e'], {})
        if k == 'range':
            lo = self.expr(pat['from'], {}) if pat['from'] else None
            hi = self.expr(pat['to'], {}) if pat['to'] else None
            if not isinstance(v, int) or isinstance(v, bool):
                return False
            return (lo is None or v >= lo) and (hi is None or (v <= hi if pat['incl'] else v < hi))
        if k == 'or':
            return any(self.match(q, v, env) for q in pat['ps'])
        if k == 'tstruct' and pat['path'] == 'Some' and len(pat['ps']) == 1:
            return isinstance(v, tuple) and len(v) == 2 and v[0] == 'Some' and self.match(pat['ps'][0], v[1], env)
        if k == 'path' and pat.get('v') == 'None':
            return v is None
        if k == 'tuple' and isinstance(v, tuple) and len(v) == len(pat['ps']):
            return all(self.match(q, x, env) for q, x in zip(pat['ps'], v))
        raise Undecided('pattern %s' % k)

    # ------------------------------------------------------------------ statements
    def block(self, stmts, env):
        val = ()
        for i, st in enumerate(stmts):
            k = st['k']
            if k == 'local':
                v = self.expr(st['init'], env) if st['init'] is not None else None
                pat = st['pat']
                if st.get('else'):
                    e2 = {}
                    if self.match(pat, v, e2):
                        env.update(e2)
                    else:
                        self.block(st['else']['stmts'], env)
                        raise Undecided('let-else whose else block does not diverge')
                else:
                    self.bind(pat, v, env)
                val = ()
            elif k == 'expr':
                val = self.expr(st['e'], env)
                if st['semi']:
                    val = ()
            else:
                raise Undecided('statement %s' % k)
        return val

    def truth(self, v):
        if v is True or v is False:
            return v
        raise Undecided('condition is not a boolean')

    def expr(self, e, env):
        self.steps += 1
        k = e['k']
        if k in ('int', 'byte'):
            return e['v']
        if k == 'bool':
            return e['v']
        if k == 'path':
            n = e['v']
            if n in env:
                return env[n]
            if n == 'None':
                return None
            if n in self.statics:
                if self.statics[n]['e'].get('k') in ('int', 'byte', 'bool'):
                    return self.statics[n]['e']['v']      # a scalar constant (`const NO_TRANSITION: u8 = 255`)
                return ('table', n)
            raise Undecided('name %s' % n)
        if k == 'paren' or k == 'group':
            return self.expr(e['e'], env)
        if k == 'ref':
            return self.expr(e['e'], env)
        if k == 'unary':
            v = self.expr(e['e'], env)
            if e['op'] == '*':
                return v
            if e['op'] == '!':
                return (not v) if isinstance(v, bool) else (~v & 0xff)
            if e['op'] == '-':
                return -v
            raise Undecided('unary %s' % e['op'])
        if k == 'cast':
            v = self.expr(e['e'], env)
            if v is INPUT:
                raise Undecided('cast of the input')
            if e['ty'] == 'u8' and isinstance(v, int):
                return v & 0xff
            return v
        if k == 'index':
            base = self.expr(e['e'], env)
            if base is INPUT:
                raise Undecided('indexing the symbolic input')
            i = self.expr(e['i'], env)
            if isinstance(base, tuple) and base and base[0] == 'table':
                base = self.table(base[1])
            if isinstance(base, (tuple, bytes)) and isinstance(i, int):
                if not (0 <= i < len(base)):
                    raise Panic('index %d out of range (len %d)' % (i, len(base)))
                return base[i]
            raise Undecided('index expression')
        if k == 'bin':
            op = e['op']
            if op == '&&':
                return self.truth(self.expr(e['l'], env)) and self.truth(self.expr(e['r'], env))
            if op == '||':
                return self.truth(self.expr(e['l'], env)) or self.truth(self.expr(e['r'], env))
            l, r = self.expr(e['l'], env), self.expr(e['r'], env)
            if l is INPUT or r is INPUT:
                raise Undecided('comparison of the symbolic input')
            if op in ('==', '!='):
                return (l == r) if op == '==' else (l != r)
            if not (isinstance(l, int) and isinstance(r, int)):
                raise Undecided('arithmetic on non-integers')
            if op == '<': return l < r
            if op == '<=': return l <= r
            if op == '>': return l > r
            if op == '>=': return l >= r
            if op == '+':
                if l + r > 0xffffffffffffffff: raise Panic('overflow')
                return l + r
            if op == '-':
                if l - r < 0: raise Panic('underflow')
                return l - r
            if op == '*': return l * r
            if op == '&': return l & r
            if op == '|': return l | r
            if op == '%':
                if r == 0: raise Panic('rem by zero')
                return l % r
            raise Undecided('operator %s' % op)
        if k == 'assign':
            if e['l']['k'] != 'path' or e['l']['v'] not in env:
                raise Undecided('assignment target')
            env[e['l']['v']] = self.expr(e['r'], env)
            return ()
        if k == 'assignop':
            raise Undecided('compound assignment')
        if k == 'if':
            c = e['c']
            if c['k'] == 'let':
                e2 = {}
                if self.match(c['pat'], self.expr(c['e'], env), e2):
                    env2 = env
                    env.update(e2)
                    return self.block(e['t']['stmts'], env2)
                if e['e'] is None:
                    return ()
                return self.expr(e['e'], env)
            if self.truth(self.expr(c, env)):
                return self.block(e['t']['stmts'], env)
            if e['e'] is None:
                return ()
            return self.expr(e['e'], env)
        if k == 'block':
            return self.block(e['stmts'], env)
        if k == 'return':
            raise Ret(self.expr(e['e'], env) if e['e'] is not None else ())
        if k == 'match':
            v = self.expr(e['e'], env)
            if v is INPUT:
                raise Undecided('match on the symbolic input')
            for arm in e['arms']:
                e2 = {}
                if self.match(arm['pat'], v, e2):
                    env3 = dict(env); env3.update(e2)
                    if arm['guard'] is not None and not self.truth(self.expr(arm['guard'], env3)):
                        continue
                    r = self.expr(arm['body'], env3)
                    for n in env:
                        if n in env3 and n not in e2:
                            env[n] = env3[n]
                    return r
            raise Panic('no match arm')
        if k == 'macro' and e['name'] == 'matches' and 'matches' in e:
            m = e['matches']
            v = self.expr(m['e'], env)
            if v is INPUT:
                raise Undecided('matches! on the symbolic input')
            e2 = {}
            if not self.match(m['pat'], v, e2):
                return False
            if m['guard'] is not None:
                env3 = dict(env); env3.update(e2)
                return self.truth(self.expr(m['guard'], env3))
            return True
        if k == 'call':
            f = e['f']
            if f['k'] == 'path':
                n = f['v']
                args = [self.expr(a, env) for a in e['args']]
                if n == 'Some' and len(args) == 1:
                    return ('Some', args[0])
                if n in env and isinstance(env[n], Closure):
                    return self.apply(env[n], args)
                return self.call(n.rsplit('::', 1)[-1], args)
            raise Undecided('call expression')
        if k == 'closure':
            return Closure(e['params'], e['body'], env)
        if k == 'try':
            v = self.expr(e['e'], env)
            if v is None:
                raise Ret(None)
            if isinstance(v, tuple) and len(v) == 2 and v[0] == 'Some':
                return v[1]
            raise Undecided('? on a non-Option')
        if k == 'tuple':
            return tuple(self.expr(x, env) for x in e['es'])
        if k == 'for':
            it = self.expr(e['e'], env)
            if isinstance(it, tuple) and it and it[0] == 'iter':
                it = it[1]
            if it is INPUT:
                self.explore_for(e, env)
            if isinstance(it, bytes):
                for byte in it:
                    env2 = env
                    self.bind(e['pat'], byte, env2)
                    self.block(e['body']['stmts'], env2)
                return ()
            raise Undecided('for over a non-input value')
        if k == 'mcall':
            return self.mcall(e, env)
        raise Undecided('expression %s' % k)

    def apply(self, clo, args):
        env = dict(clo.env)
        if len(clo.params) != len(args):
            raise Undecided('closure arity')
        for p, a in zip(clo.params, args):
            self.bind(p, a, env)
        try:
            return self.expr(clo.body, env)
        except Ret as r:
            return r.v

    def mcall(self, e, env):
        m = e['m']
        recv = self.expr(e['recv'], env)
        args = [self.expr(a, env) for a in e['args']]
        if m in ('iter', 'into_iter', 'copied', 'cloned') and not args:
            if recv is INPUT or isinstance(recv, bytes):
                return ('iter', recv)
            if isinstance(recv, tuple) and recv and recv[0] == 'iter':
                return recv
        if m in ('try_fold', 'fold') and len(args) == 2 and isinstance(recv, tuple) and recv and recv[0] == 'iter' and isinstance(args[1], Closure):
            src = recv[1]
            if src is INPUT:
                self.explore_fold(m, args[0], args[1])
            acc = args[0]
            for byte in src:
                r = self.apply(args[1], [acc, byte])
                if m == 'fold':
                    acc = r
                elif r is None:
                    return None
                elif isinstance(r, tuple) and r[0] == 'Some':
                    acc = r[1]
                else:
                    raise Undecided('try_fold closure result')
            return acc if m == 'fold' else ('Some', acc)
        if recv is INPUT or (isinstance(recv, tuple) and recv and recv[0] == 'iter' and recv[1] is INPUT):
            raise Undecided('method %s on the symbolic input' % m)
        if m == 'then_some' and len(args) == 1 and isinstance(recv, bool):
            return ('Some', args[0]) if recv else None
        if m == 'then' and len(args) == 1 and isinstance(recv, bool) and isinstance(args[0], Closure):
            return ('Some', self.apply(args[0], [])) if recv else None
        if m == 'is_some' and not args:
            return recv is not None
        if m == 'is_none' and not args:
            return recv is None
        if m == 'unwrap_or' and len(args) == 1:
            return args[0] if recv is None else recv[1]
        if m in ('is_some_and', 'map_or') and isinstance(args[-1], Closure):
            if recv is None:
                return False if m == 'is_some_and' else args[0]
            return self.apply(args[-1], [recv[1]])
        if m == 'map' and len(args) == 1 and isinstance(args[0], Closure):
            return None if recv is None else ('Some', self.apply(args[0], [recv[1]]))
        if m == 'len' and isinstance(recv, (bytes, tuple)):
            return len(recv)
        if m == 'is_empty' and isinstance(recv, (bytes, tuple)):
            return len(recv) == 0
        if m == 'contains' and len(args) == 1 and isinstance(recv, tuple):
            return args[0] in recv
        from rustexpr import BYTE_CLASSES
        if m in BYTE_CLASSES and isinstance(recv, int) and not args:
            return recv in BYTE_CLASSES[m]
        raise Undecided('method %s' % m)

    # ------------------------------------------------------------------ exploration
    def explore_for(self, e, env):
        loopvars = set()
        self._pat_names(e['pat'], loopvars)

        def step(cfg_env, byte):
            env2 = dict(cfg_env)
            self.bind(e['pat'], byte, env2)
            self.block(e['body']['stmts'], env2)
            for n in loopvars:
                env2.pop(n, None)
            return env2
        self._explore(dict(env), step)

    def explore_fold(self, m, init, clo):
        def step(cfg, byte):
            r = self.apply(clo, [cfg['acc'], byte])
            if m == 'fold':
                return {'acc': r}
            if r is None:
                raise Ret(None)
            if isinstance(r, tuple) and r and r[0] == 'Some':
                return {'acc': r[1]}
            raise Undecided('try_fold closure result')
        self._explore({'acc': init}, step)

    def _pat_names(self, p, out):
        if isinstance(p, dict):
            if p.get('k') == 'ident':
                out.add(p['name'])
            for v in p.values():
                self._pat_names(v, out)
        elif isinstance(p, list):
            for v in p:
                self._pat_names(v, out)

    def _key(self, env):
        return ('cfg', freeze({k: v for k, v in env.items() if not isinstance(v, Closure) and v is not INPUT}))

    def _explore(self, env0, step):
        states = {self._key(env0): 0}
        reps = [b'']
        envs = [env0]
        trans = []
        panics = []
        queue = [0]
        while queue:
            si = queue.pop(0)
            while len(trans) <= si:
                trans.append(None)
            row = []
            for byte in range(256):
                if envs[si] is None:
                    row.append(si)
                    continue
                try:
                    e2 = step(envs[si], byte)
                    key = self._key(e2)
                except Ret as r:
                    key = ('ret', freeze(r.v)); e2 = None
                except Panic as p:
                    key = ('panic',); e2 = None
                    if len(panics) < 3:
                        panics.append((reps[si] + bytes([byte]), str(p)))
                if key not in states:
                    if len(states) >= MAX_STATES:
                        raise Undecided('more than %d configurations' % MAX_STATES)
                    states[key] = len(reps)
                    reps.append(reps[si] + bytes([byte]))
                    envs.append(e2)
                    queue.append(states[key])
                row.append(states[key])
            trans[si] = row
        raise Explored(trans, reps, panics)


def fold_validator(name, fns, statics):
    """returns (DFA, info) for a validator whose input is consumed by one loop / fold; raises Undecided otherwise."""
    from automata import DFA
    mi = Mini(fns, statics)
    f = fns[name]
    if len(f['params']) != 1:
        raise Undecided('signature')
    try:
        mi.call(name, [INPUT])
        raise Undecided('the input is not consumed by a loop over the slice')
    except Explored as ex:
        trans, reps, panics = ex.trans, ex.reps, ex.panics
    except Panic as p:
        raise Undecided('panics before the loop: %s' % p)
    acc = set()
    for i, w in enumerate(reps):
        try:
            r = mi.call(name, [w])
        except Panic:
            continue
        if r is True:
            acc.add(i)
        elif r is not False:
            raise Undecided('validator result is not a boolean')
    d = DFA.from_table(trans, 0, acc, dead=None)
    return d, {'kind': 'fold', 'states': len(reps), 'accepting': len(acc), 'problems': ['validator panics on input %r: %s' % (w, why) for w, why in panics]}

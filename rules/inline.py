"""inline.py - virtual inlining of functions the rules do not know.

The rules are written against the decomposition of the code into functions that was read and confirmed (tables/known_functions.json
lists those functions).  Moving a block of statements into a new private helper does not change what the code does, but it moves
events (writes, index maintenance calls, lock acquisitions, panic-capable operations) out of the function a rule is anchored in.
To keep such an edit from raising an alarm - and to see a NEW helper in the context of its callers, where the guards are - every
direct call to a function that is not in the table is replaced, in the caller's CFG, by a copy of the callee's body:

  caller block  bi:  ...stmts ; call new_fn(args) -> dst, target t
becomes
  bi:   ...stmts ; param_i := arg_i ; goto entry'
  callee blocks (locals and block numbers shifted), `return` -> dst := _0' ; goto t
  `resume` -> the caller's unwind block (or resume)

Known functions are never inlined, so nothing changes for the tree the rules were written for.  Recursive new functions are left
alone.  The inlined callee stays in the program as a body of its own (call graph, closures), flagged `inlined_everywhere` when every
reference to it is a direct call that was inlined."""
import copy, json, os, re

MAX_ROUNDS = 4


def _is_span(d):
    return 'f' in d and 'c' in d and 'l' in d and 'k' not in d and 'p' not in d


def _shift(o, L, B, top=True):
    """shift local numbers by L and block numbers by B in a (deep-copied) callee fragment"""
    if isinstance(o, list):
        for x in o:
            _shift(x, L, B, False)
        return
    if not isinstance(o, dict):
        return
    if _is_span(o):
        return
    if 'l' in o and isinstance(o['l'], int) and ('p' in o or o.get('k') in ('live', 'dead')):
        o['l'] += L
        if 'p' in o:
            o['p'] = [re.sub(r'^\[_(\d+)\]$', lambda m: '[_%d]' % (int(m.group(1)) + L), x) if isinstance(x, str) else x for x in o['p']]
    for k, v in o.items():
        if k in ('s', 'fs', 'f') and isinstance(v, dict) and (k != 'f' or 'fn' in v or 'c' in v):
            if k == 'f' and 'l' in v and 'p' in v:
                _shift(v, L, B, False)      # call through a local (fn pointer / closure value)
            continue
        if isinstance(v, (dict, list)):
            _shift(v, L, B, False)


def _shift_term_targets(t, B):
    k = t['k']
    if k == 'goto':
        t['t'] += B
    elif k == 'switch':
        t['ts'] = [[v, b + B] for v, b in t['ts']]
        t['else'] += B
    elif k in ('drop', 'assert', 'call'):
        if isinstance(t.get('t'), int):
            t['t'] += B
        if isinstance(t.get('u'), int):
            t['u'] += B


_TOK = re.compile(r"[A-Za-z_][A-Za-z0-9_]*")


def _instantiate_generics(cal, callee_raw, call):
    """a generic helper is inlined with the type arguments of the call: the MIR facts are pre-monomorphisation, so the copy of
    `fn parse_number<T: FromStr>` called as `parse_number::<u64>` would otherwise still say `str::parse::<T>`.  The parameter names are
    read off by aligning the callee's declared return type with the concrete one in the call's function type."""
    f = call.get('f')
    if not isinstance(f, dict) or not f.get('substs') or not f.get('c'):
        return
    tsub = [x for x in f['substs'] if not x.startswith("'")]
    if not tsub:
        return
    m = re.search(r"\)\s*->\s*(.*?)\s*\{", f['c'])
    ret_c = m.group(1) if m else None
    ret_g = callee_raw.get('ret')
    if not ret_c or not ret_g:
        return
    strip = lambda x: re.sub(r"\b(std|core|alloc)::[a-z_:]*::", '', x)
    tg, tc = _TOK.findall(strip(ret_g)), _TOK.findall(strip(ret_c))
    if len(tg) != len(tc):
        return
    mp = {}
    for a, b in zip(tg, tc):
        if a != b:
            if re.fullmatch(r'[A-Z][A-Za-z0-9]*', a) and b in tsub and mp.get(a, b) == b:
                mp[a] = b
            elif a.split('::')[-1] != b.split('::')[-1]:
                return          # the two types differ in something that is not a type parameter: leave the copy generic
    if not mp:
        return
    rx = re.compile(r'\b(%s)\b' % '|'.join(re.escape(k) for k in mp))
    sub = lambda x: rx.sub(lambda mm: mp[mm.group(1)], x) if isinstance(x, str) else x
    for l in cal['locals']:
        if 'ty' in l:
            l['ty'] = sub(l['ty'])

    def walk(o):
        if isinstance(o, dict):
            if 'fn' in o and 'substs' in o:
                o['substs'] = [sub(x) for x in o['substs']]
                if 'c' in o:
                    o['c'] = sub(o['c'])
            for k, v in o.items():
                if k in ('ty', 'c') and isinstance(v, str) and k != 'c':
                    o[k] = sub(v)
                else:
                    walk(v)
        elif isinstance(o, list):
            for v in o:
                walk(v)
    for blk in cal['blocks']:
        walk(blk['term'])
        walk(blk['stmts'])


def _expand_ok_or(cal):
    """in the copy of a helper that is being inlined, `opt.ok_or(err)` becomes the dispatch it stands for (Some(v) -> Ok(v), None ->
    Err(err)), so that the variant-sensitive walk relates the caller's `?` to the test that produced the Option"""
    for blk in list(cal['blocks']):
        t = blk['term']
        if t['k'] != 'call' or not isinstance(t.get('f'), dict) or not (t['f'].get('fn') or '').endswith('Option::<T>::ok_or'):
            continue
        if len(t['args']) != 2 or t.get('t') is None or not isinstance(t['args'][0], dict) or 'l' not in t['args'][0] or t['args'][0].get('p'):
            continue
        opt = t['args'][0]['l']
        cont = t['t']
        d = len(cal['locals'])
        cal['locals'].append({'ty': 'isize'})
        si = len(cal['blocks'])
        cal['blocks'].append({'i': si, 'cleanup': blk['cleanup'], 'stmts': [{'k': 'assign', 'dst': copy.deepcopy(t['dst']), 'rv': {'k': 'agg', 'ak': 'adt', 'adt': 'Result', 'var': 'Ok', 'fields': ['0'], 'ops': [{'l': opt, 'p': ['as Some', '.Option.0'], 'mv': True}]}, 's': t.get('s'), 'inl': 'comb'}],
                              'term': {'k': 'goto', 't': cont}})
        ni = len(cal['blocks'])
        cal['blocks'].append({'i': ni, 'cleanup': blk['cleanup'], 'stmts': [{'k': 'assign', 'dst': copy.deepcopy(t['dst']), 'rv': {'k': 'agg', 'ak': 'adt', 'adt': 'Result', 'var': 'Err', 'fields': ['0'], 'ops': [copy.deepcopy(t['args'][1])]}, 's': t.get('s'), 'inl': 'comb'}],
                              'term': {'k': 'goto', 't': cont}})
        blk['stmts'].append({'k': 'assign', 'dst': {'l': d, 'p': []}, 'rv': {'k': 'discr', 'pl': {'l': opt, 'p': []}}, 's': t.get('s'), 'inl': 'comb'})
        blk['term'] = {'k': 'switch', 'd': {'l': d, 'p': [], 'mv': True}, 'ty': 'isize', 'ts': [['0', ni]], 'else': si, 's': t.get('s')}


def _expand_then_some(cal):
    """in the copy of a helper that is being inlined, `flag.then_some(v)` becomes the branch it stands for
    (flag: dst = Some(v) / else: dst = None), so that path rules see the test of the flag (a helper that returns
    `check(..).then_some(value)` instead of `if check(..) { Some(value) } else { None }`)"""
    n0 = len(cal['blocks'])
    for blk in list(cal['blocks']):
        t = blk['term']
        if t['k'] != 'call' or not isinstance(t.get('f'), dict) or not (t['f'].get('fn') or '').endswith('<impl bool>::then_some'):
            continue
        if len(t['args']) != 2 or t.get('t') is None or not isinstance(t['args'][0], dict) or 'l' not in t['args'][0] or t['args'][0].get('p'):
            continue
        cont = t['t']
        ti = len(cal['blocks'])
        cal['blocks'].append({'i': ti, 'cleanup': blk['cleanup'], 'stmts': [{'k': 'assign', 'dst': copy.deepcopy(t['dst']), 'rv': {'k': 'agg', 'ak': 'adt', 'adt': 'Option', 'var': 'Some', 'fields': ['0'], 'ops': [copy.deepcopy(t['args'][1])]}, 's': t.get('s'), 'inl': 'comb'}],
                              'term': {'k': 'goto', 't': cont}})
        fi = len(cal['blocks'])
        cal['blocks'].append({'i': fi, 'cleanup': blk['cleanup'], 'stmts': [{'k': 'assign', 'dst': copy.deepcopy(t['dst']), 'rv': {'k': 'agg', 'ak': 'adt', 'adt': 'Option', 'var': 'None', 'fields': [], 'ops': []}, 's': t.get('s'), 'inl': 'comb'}],
                              'term': {'k': 'goto', 't': cont}})
        blk['term'] = {'k': 'switch', 'd': copy.deepcopy(t['args'][0]), 'ts': [['0', fi]], 'else': ti, 's': t.get('s')}
    return len(cal['blocks']) - n0


def inline_into(caller_raw, callee_raw, bi):
    """returns a new raw body: caller with the call in block bi replaced by the callee's blocks"""
    new = caller_raw
    call = new['blocks'][bi]['term']
    L = len(new['locals'])
    B = len(new['blocks'])
    cal = copy.deepcopy({'locals': callee_raw['locals'], 'blocks': callee_raw['blocks'], 'debug': callee_raw.get('debug', [])})
    _expand_then_some(cal)
    _expand_ok_or(cal)
    _instantiate_generics(cal, callee_raw, call)
    for blk in cal['blocks']:
        _shift(blk['stmts'], L, B)
        _shift(blk['term'], L, B)
        _shift_term_targets(blk['term'], B)
        blk['i'] += B
    for d in cal['debug']:
        _shift(d['pl'], L, B)
    span = call.get('s')
    # parameter passing
    blk = new['blocks'][bi]
    for i, a in enumerate(call['args']):
        blk['stmts'].append({'k': 'assign', 'dst': {'l': L + 1 + i, 'p': []}, 'rv': {'k': 'use', 'o': copy.deepcopy(a)}, 's': span, 'inl': 'arg'})
    blk['term'] = {'k': 'goto', 't': B, 'inl_call': callee_raw['id']}
    for cb in cal['blocks']:
        cb.setdefault('inl_site', bi)      # the caller block whose call this copy replaces (outermost for nested copies)
    cleanup = blk['cleanup']
    for cb in cal['blocks']:
        t = cb['term']
        if cleanup:
            cb['cleanup'] = True
        if t['k'] == 'return':
            cb['stmts'].append({'k': 'assign', 'dst': copy.deepcopy(call['dst']), 'rv': {'k': 'use', 'o': {'l': L, 'p': [], 'mv': True}}, 's': t.get('s') or span, 'inl': 'ret'})
            cb['term'] = {'k': 'goto', 't': call['t']} if call.get('t') is not None else {'k': 'unreachable'}
        elif t['k'] == 'resume':
            if isinstance(call.get('u'), int):
                cb['term'] = {'k': 'goto', 't': call['u']}
        elif t['k'] in ('call', 'drop', 'assert') and not isinstance(t.get('u'), int) and t.get('u') == 'continue' and isinstance(call.get('u'), int):
            # a panic inside the callee unwinds into the caller's cleanup
            t['u'] = call['u']
    # partial evaluation: a parameter that receives a literal Option / Result variant at THIS call site (`helper(name, None, v)`) decides the
    # `match param` inside the copy - the other arms are not part of this call
    VIDX = {'None': 0, 'Some': 1, 'Ok': 0, 'Err': 1}
    known = {}
    for i, a in enumerate(call['args']):
        if isinstance(a, dict) and 'l' in a and not a['p']:
            defs = [st for st in blk['stmts'] if st.get('k') == 'assign' and st['dst']['l'] == a['l'] and not st['dst']['p'] and st.get('inl') is None]
            if len(defs) == 1 and defs[0]['rv']['k'] == 'agg' and defs[0]['rv'].get('adt') in ('Option', 'Result') and defs[0]['rv'].get('var') in VIDX:
                # the local must not be assigned anywhere else in the caller
                others = [1 for b2 in new['blocks'] for st in b2['stmts'] if st.get('k') == 'assign' and st['dst']['l'] == a['l'] and st is not defs[0]]
                if not others:
                    known[L + 1 + i] = VIDX[defs[0]['rv']['var']]
    if known:
        pruned = False
        for cb in cal['blocks']:
            t = cb['term']
            if t['k'] == 'switch' and isinstance(t['d'], dict) and 'l' in t['d'] and not t['d']['p']:
                dl = t['d']['l']
                src = [st for st in cb['stmts'] if st.get('k') == 'assign' and st['dst']['l'] == dl and not st['dst']['p']]
                if len(src) == 1 and src[0]['rv']['k'] == 'discr' and not src[0]['rv']['pl']['p'] and src[0]['rv']['pl']['l'] in known:
                    # the parameter itself must not be reassigned inside the callee
                    pl_ = src[0]['rv']['pl']['l']
                    reassigned = [1 for b2 in cal['blocks'] for st in b2['stmts'] if st.get('k') == 'assign' and st['dst']['l'] == pl_ and not st['dst']['p']]
                    if not reassigned:
                        v = str(known[pl_])
                        tgt = dict(t['ts']).get(v, t['else'])
                        cb['term'] = {'k': 'goto', 't': tgt}
                        pruned = True
        if pruned:
            # blank the blocks of the copy that are no longer reachable from its entry
            idx = {cb['i']: cb for cb in cal['blocks']}
            seen_, st_ = set(), [B]
            while st_:
                x = st_.pop()
                if x in seen_ or x not in idx:
                    continue
                seen_.add(x)
                t = idx[x]['term']
                nxt = []
                if t['k'] == 'goto':
                    nxt = [t['t']]
                elif t['k'] == 'switch':
                    nxt = [y for _, y in t['ts']] + [t['else']]
                elif t['k'] in ('call', 'drop', 'assert'):
                    nxt = [y for y in (t.get('t'), t.get('u')) if isinstance(y, int)]
                st_.extend(nxt)
            for cb in cal['blocks']:
                if cb['i'] not in seen_:
                    cb['stmts'] = []
                    cb['term'] = {'k': 'unreachable'}
    new['locals'] = new['locals'] + cal['locals']
    new['blocks'] = new['blocks'] + cal['blocks']
    new['debug'] = list(new.get('debug', [])) + cal['debug']
    return new


def load_known(verif):
    p = os.path.join(verif, 'tables', 'known_functions.json')
    if not os.path.exists(p):
        return None
    return set(json.load(open(p))['functions'])


def _sig(rb):
    return (rb['kind'], rb['argc'], tuple(l['ty'] for l in rb['locals'][1:rb['argc'] + 1]), rb['ret'], rb.get('self_ty'))


def load_signatures(verif):
    p = os.path.join(verif, 'tables', 'known_functions.json')
    if not os.path.exists(p):
        return {}
    return json.load(open(p)).get('signatures', {})


def reconcile_renames(raw_bodies, known, sigs=None):
    """A known function that is gone and an unknown function that is recognisably the same one - renamed in place, moved to another impl
    block / module, possibly with a changed signature: the new path is rewritten to the known path in every body (ids, closure ids,
    callee paths), so that rules anchored on the name and callee patterns still apply.  Recognition: candidates keep the name or the
    path prefix; among them the one whose set of callees (with closures) is most similar to the recorded set of the vanished function
    (Jaccard >= 0.5, unique maximum, mutual best match); a single candidate with the same name (moved) is accepted as such.
    Returns {new id: known id}."""
    if known is None:
        return {}
    sigs = sigs or {}
    present = {rb['id'] for rb in raw_bodies if rb['kind'] != 'Closure'}
    vanished = sorted(known - present)
    new = sorted(present - known)
    if not vanished or not new:
        return {}

    def name(i):
        return i.rsplit('::', 1)[-1]

    def path(i):
        return i.rsplit('::', 1)[0]
    # callee sets of the new functions (with their closures); calls to other new/vanished functions are compared by name only
    def norm(c):
        return c
    callees = {}
    for rb in raw_bodies:
        base = rb['id'].split('::{closure#')[0]
        if base in new:
            cs = callees.setdefault(base, set())
            for blk in rb['blocks']:
                t = blk['term']
                if t['k'] == 'call' and isinstance(t['f'], dict) and t['f'].get('fn'):
                    cs.add(t['f'].get('res') or t['f']['fn'])
    ren_names = set(vanished) | set(new)

    def sim(v, n):
        a = {c for c in sigs.get(v, {}).get('callees', []) if c not in ren_names}
        b = {c for c in callees.get(n, set()) if c not in ren_names}
        if not a and not b:
            return 1.0 if name(v) == name(n) else 0.5
        return len(a & b) / float(len(a | b))
    cand = {v: [n for n in new if name(n) == name(v) or path(n) == path(v)] for v in vanished}
    score = {(v, n): sim(v, n) for v in vanished for n in cand[v]}
    mapping = {}
    for v in vanished:
        cs = sorted(cand[v], key=lambda n: -score[(v, n)])
        if not cs:
            continue
        best = cs[0]
        one_to_one = len(cs) == 1 and sum(1 for v2 in vanished if best in cand[v2]) == 1
        if score[(v, best)] < 0.5 and not (len(cs) == 1 and name(best) == name(v)) and not (one_to_one and score[(v, best)] >= 0.3):
            continue
        if len(cs) > 1 and score[(v, cs[1])] >= score[(v, best)] - 0.05:
            continue        # no clear winner
        # mutual: v is also the best vanished function for `best`
        rivals = [v2 for v2 in vanished if v2 != v and best in cand[v2] and score[(v2, best)] >= score[(v, best)] - 0.05]
        if rivals:
            continue
        mapping[best] = v
    if not mapping:
        return {}

    def fix(sv):
        if not isinstance(sv, str):
            return sv
        for n, v in mapping.items():
            if sv == n:
                return v
            if sv.startswith(n + '::{closure#'):
                return v + sv[len(n):]
        return sv

    def walk(o):
        if isinstance(o, dict):
            for k in list(o.keys()):
                if k in ('fn', 'res', 'id', 'parent') and isinstance(o[k], str):
                    o[k] = fix(o[k])
                else:
                    walk(o[k])
        elif isinstance(o, list):
            for x in o:
                walk(x)
    for rb in raw_bodies:
        rb['id'] = fix(rb['id'])
        if isinstance(rb.get('parent'), str):
            rb['parent'] = fix(rb['parent'])
        walk(rb['blocks'])
    return mapping


def apply(P, known):
    """P: ir.Program (bodies loaded, short names assigned).  Replaces callers of unknown functions by inlined copies.
    Returns {new function id: [caller ids it was inlined into]}"""
    from ir import Body, callee_of
    if known is None:
        return {}
    new_fns = {b.id for b in P.bodies.values() if b.kind != 'Closure' and b.id not in known}
    if not new_fns:
        return {}
    # recursive new functions are left alone
    def reaches_self(fid):
        seen, st = set(), [fid]
        while st:
            x = st.pop()
            for blk in P.bodies[x].raw['blocks']:
                t = blk['term']
                if t['k'] == 'call':
                    c = callee_of(t)
                    if c == fid:
                        return True
                    if c in new_fns and c not in seen:
                        seen.add(c); st.append(c)
        return False
    new_fns = {f for f in new_fns if not reaches_self(f) and not any(blk['term']['k'] == 'tailcall' for blk in P.bodies[f].raw['blocks'])}
    done = {}
    for rnd in range(MAX_ROUNDS):
        changed = False
        for b in list(P.bodies.values()):
            sites = [blk['i'] for blk in b.raw['blocks'] if blk['term']['k'] == 'call' and callee_of(blk['term']) in new_fns and callee_of(blk['term']) != b.id]
            if not sites:
                continue
            raw = copy.deepcopy(b.raw)
            inl = list(getattr(b, 'inlined_ids', []))
            for bi in sites:
                cid = callee_of(raw['blocks'][bi]['term'])
                raw = inline_into(raw, P.bodies[cid].raw, bi)
                done.setdefault(cid, []).append(b.id)
                if cid not in inl:
                    inl.append(cid)
                for x in getattr(P.bodies[cid], 'inlined_ids', []):
                    if x not in inl:
                        inl.append(x)
            nb = Body(raw, b.crate)
            nb.short = b.short
            if hasattr(b, 'enclosing'):
                nb.enclosing = b.enclosing
            nb.inlined_ids = inl
            nb.program = P
            P.bodies[b.id] = nb
            P.by_short[b.short] = [nb if x.id == b.id else x for x in P.by_short[b.short]]
            changed = True
        if not changed:
            break
    # is every reference to the new function a direct call (now inlined)?  then its own body adds nothing
    for fid in done:
        other = False
        for b in P.bodies.values():
            for blk in b.raw['blocks']:
                t = blk['term']
                if t['k'] == 'call':
                    if any(isinstance(a, dict) and (a.get('res') or a.get('fn')) == fid for a in t['args']):
                        other = True
                    if callee_of(t) == fid and b.id != fid and b.id not in new_fns:
                        other = True       # a call that was not inlined (round limit)
                for s in blk['stmts']:
                    if s['k'] == 'assign':
                        rv = s['rv']
                        for o in ([rv.get('o')] if rv.get('o') else []) + list(rv.get('ops', [])) + [x for x in (rv.get('a'), rv.get('b')) if x]:
                            if isinstance(o, dict) and (o.get('res') or o.get('fn')) == fid:
                                other = True
        fb = P.bodies[fid]
        fb.inlined_everywhere = (not other) and not fb.pub
    P._cg = None
    return done


# ------------------------------------------------------------------------------------------------------------------------------
# closure view: closures placed where they run

def _taint_raw(raw, seeds):
    t = set(seeds)
    changed = True
    while changed:
        changed = False
        for blk in raw['blocks']:
            for st in blk['stmts']:
                if st.get('k') != 'assign' or st['dst']['p']:
                    continue
                rv = st['rv']
                src = rv.get('o') if rv['k'] in ('use', 'cast') else (rv.get('pl') if rv['k'] == 'ref' else None)
                if isinstance(src, dict) and 'l' in src and src['l'] in t and (not src['p']) and st['dst']['l'] not in t:
                    t.add(st['dst']['l']); changed = True
    return t


COMBINATORS = {
    # name: (receiver kind, {variant: action})   action: ('const', v) | ('default',) | ('recv',) | ('payload',) | ('agg', Adt, Var, src) | ('run', how-result-is-used)
    'Option::<T>::is_some_and': ('Option', {'None': ('const', False), 'Some': ('run', 'ret')}),
    'Option::<T>::is_none_or': ('Option', {'None': ('const', True), 'Some': ('run', 'ret')}),
    'Option::<T>::map_or': ('Option', {'None': ('default',), 'Some': ('run', 'ret')}),
    'Option::<T>::map': ('Option', {'None': ('agg', 'Option', 'None', None), 'Some': ('run', ('agg', 'Option', 'Some'))}),
    'Option::<T>::and_then': ('Option', {'None': ('agg', 'Option', 'None', None), 'Some': ('run', 'ret')}),
    'Option::<T>::filter': ('Option', {'None': ('agg', 'Option', 'None', None), 'Some': ('run', 'filter')}),
    'Option::<T>::unwrap_or_else': ('Option', {'Some': ('payload',), 'None': ('run0', 'ret')}),
    'Option::<T>::ok_or_else': ('Option', {'Some': ('agg', 'Result', 'Ok', 'payload'), 'None': ('run0', ('agg', 'Result', 'Err'))}),
    'Option::<T>::or_else': ('Option', {'Some': ('recv',), 'None': ('run0', 'ret')}),
    'Option::<T>::inspect': ('Option', {'None': ('recv',), 'Some': ('run', 'recv')}),
    'Result::<T, E>::is_ok_and': ('Result', {'Err': ('const', False), 'Ok': ('run', 'ret')}),
    'Result::<T, E>::is_err_and': ('Result', {'Ok': ('const', False), 'Err': ('run', 'ret')}),
    'Result::<T, E>::inspect_err': ('Result', {'Ok': ('recv',), 'Err': ('run', 'recv')}),
    'Result::<T, E>::map_err': ('Result', {'Ok': ('recv',), 'Err': ('run', ('agg', 'Result', 'Err'))}),
    'Result::<T, E>::map': ('Result', {'Err': ('recv',), 'Ok': ('run', ('agg', 'Result', 'Ok'))}),
    'Result::<T, E>::unwrap_or_else': ('Result', {'Ok': ('payload',), 'Err': ('run', 'ret')}),
    '<impl bool>::then': ('bool', {'false': ('agg', 'Option', 'None', None), 'true': ('run0', ('agg', 'Option', 'Some'))}),
}
_VARIDX = {'Option': {'None': '0', 'Some': '1'}, 'Result': {'Ok': '0', 'Err': '1'}, 'bool': {'false': '0', 'true': '1'}}
_PAYLOAD = {'Some': ['as Some', '.Option.0'], 'Ok': ['as Ok', '.Result.0'], 'Err': ['as Err', '.Result.0']}


def _combinator(fnp, call, tl):
    for name, spec in COMBINATORS.items():
        if fnp.endswith(name):
            args = call['args']
            if not args or not isinstance(args[0], dict) or 'l' not in args[0]:
                return None
            ci = [i for i, a in enumerate(args) if isinstance(a, dict) and 'l' in a and a['l'] in tl and not a['p']]
            if len(ci) != 1 or ci[0] == 0:
                return None
            return (name, spec, ci[0])
    return None


def _place_combinator(new, use, call, comb, cal, crow, L, B, cl, bind, span, fid):
    """exact control flow of a std Option / Result / bool combinator with the closure's blocks in the arm that runs it"""
    name, (kind, arms), cidx = comb
    ub = new['blocks'][use]
    recv = call['args'][0]
    dst = call['dst']
    cont = call.get('t')
    nblocks = []
    base = B + len(cal['blocks'])
    extra_locals = []

    def newlocal(ty):
        extra_locals.append({'ty': ty})
        return L + len(cal['locals']) + len(extra_locals) - 1

    def blk(stmts, term):
        b_ = {'i': base + len(nblocks), 'cleanup': ub['cleanup'], 'stmts': stmts, 'term': copy.deepcopy(term), 'inl_site': use}
        nblocks.append(b_)
        return b_['i']
    done_t = {'k': 'goto', 't': cont} if cont is not None else {'k': 'unreachable'}

    def assign(d, rv):
        return {'k': 'assign', 'dst': copy.deepcopy(d), 'rv': rv, 's': span, 'inl': 'comb'}

    def value_rv(action, var):
        a = action[0]
        if a == 'const':
            return {'k': 'use', 'o': {'c': 'bool', 'i': '1' if action[1] else '0', 'v': 'true' if action[1] else 'false'}}
        if a == 'default':
            return {'k': 'use', 'o': copy.deepcopy(call['args'][1])}
        if a == 'recv':
            return {'k': 'use', 'o': {'l': recv['l'], 'p': list(recv['p'])}}
        if a == 'payload':
            return {'k': 'use', 'o': {'l': recv['l'], 'p': list(recv['p']) + _PAYLOAD[var]}}
        if a == 'agg':
            ops = []
            if action[3] == 'payload':
                ops = [{'l': recv['l'], 'p': list(recv['p']) + _PAYLOAD[var]}]
            return {'k': 'agg', 'ak': 'adt', 'adt': action[1], 'var': action[2], 'fields': ['0'] if ops else [], 'ops': ops}
        return None
    targets = {}
    ret_local = {'l': L, 'p': [], 'mv': True}
    # the arm(s) that run the closure
    run_vars = [v for v, act in arms.items() if act[0] in ('run', 'run0')]
    for v, act in arms.items():
        if act[0] in ('run', 'run0'):
            stmts = [copy.deepcopy(bind)]
            if act[0] == 'run' and crow['argc'] >= 2 and v in _PAYLOAD:
                pay = {'l': recv['l'], 'p': list(recv['p']) + _PAYLOAD[v]}
                # by-reference combinators (filter, inspect, inspect_err) hand a reference
                byref = name.endswith(('filter', 'inspect', 'inspect_err'))
                stmts.append(assign({'l': L + 2, 'p': []}, {'k': 'ref', 'mut': False, 'pl': pay} if byref else {'k': 'use', 'o': pay}))
            targets[v] = blk(stmts, {'k': 'goto', 't': B})
        else:
            targets[v] = blk([assign(dst, value_rv(act, v))], done_t)
    # after the closure returned
    act = arms[run_vars[0]]
    how = act[1]
    if how == 'ret':
        after = blk([assign(dst, {'k': 'use', 'o': ret_local})], done_t)
    elif how == 'recv':
        after = blk([assign(dst, {'k': 'use', 'o': {'l': recv['l'], 'p': list(recv['p'])}})], done_t)
    elif how == 'filter':
        keep = blk([assign(dst, {'k': 'use', 'o': {'l': recv['l'], 'p': list(recv['p'])}})], done_t)
        drop = blk([assign(dst, {'k': 'agg', 'ak': 'adt', 'adt': 'Option', 'var': 'None', 'fields': [], 'ops': []})], done_t)
        after = blk([], {'k': 'switch', 'd': {'l': L, 'p': []}, 'ty': 'bool', 'ts': [['0', drop]], 'else': keep, 's': span})
    else:
        after = blk([assign(dst, {'k': 'agg', 'ak': 'adt', 'adt': how[1], 'var': how[2], 'fields': ['0'], 'ops': [ret_local]})], done_t)
    for cb in cal['blocks']:
        t = cb['term']
        if t['k'] == 'return':
            cb['term'] = {'k': 'goto', 't': after}
        elif t['k'] == 'resume' and isinstance(call.get('u'), int):
            cb['term'] = {'k': 'goto', 't': call['u']}
    # dispatch on the receiver
    vi = _VARIDX[kind]
    if kind == 'bool':
        ub['term'] = {'k': 'switch', 'd': {'l': recv['l'], 'p': list(recv['p'])}, 'ty': 'bool', 'ts': [['0', targets['false']]], 'else': targets['true'], 's': span, 'inl_call': fid}
    else:
        d = newlocal('isize')
        ub['stmts'].append(assign({'l': d, 'p': []}, {'k': 'discr', 'pl': {'l': recv['l'], 'p': list(recv['p'])}}))
        names = list(arms.keys())
        ub['term'] = {'k': 'switch', 'd': {'l': d, 'p': [], 'mv': True}, 'ty': 'isize', 'ts': [[vi[names[0]], targets[names[0]]]], 'else': targets[names[1]], 's': span, 'inl_call': fid}
    new['locals'] = new['locals'] + cal['locals'] + extra_locals
    new['blocks'] = new['blocks'] + cal['blocks'] + nblocks


def flatten_closures(P, raw, depth=3, done=None):
    """a copy of raw body in which every closure created in it is placed at the call that receives it:
       * a direct call of the closure value (`Fn::call(&c, (a, b))`) is replaced by the closure's blocks (arguments assigned, result assigned);
       * for a closure handed to an adaptor (`iter.filter_map(c)`, `opt.is_some_and(c)`, `res.inspect_err(c)`, `v.sort_by(c)`) the closure's blocks
         are put in front of that call as a loop that runs zero or more times with unknown arguments (its result is dropped).
    The closure environment parameter is bound to the closure value, so captured variables resolve to the caller's places."""
    if depth == 0:
        return raw
    new = copy.deepcopy(raw)
    guard = 0
    handled = set()
    while guard < 60:
        guard += 1
        target = None
        for blk in new['blocks']:
            for si, st in enumerate(blk['stmts']):
                if st.get('k') == 'assign' and st['rv']['k'] == 'agg' and st['rv'].get('ak') == 'closure' and not st['dst']['p']:
                    key = (blk['i'], si)
                    fid = st['rv'].get('fn')
                    if key in handled or fid not in P.bodies or fid == raw['id']:
                        continue
                    target = (blk['i'], si, st['dst']['l'], fid)
                    break
            if target:
                break
        if not target:
            break
        handled.add((target[0], target[1]))
        bi0, si0, cl, fid = target
        tl = _taint_raw(new, {cl})
        use = None
        for blk in new['blocks']:
            t = blk['term']
            if t['k'] == 'call' and any(isinstance(a, dict) and 'l' in a and a['l'] in tl and not a['p'] for a in t['args']):
                use = blk['i']
                break
        if use is None:
            continue
        crow = flatten_closures(P, P.bodies[fid].raw, depth - 1)
        call = new['blocks'][use]['term']
        fnp = (call['f'].get('fn') or '') if isinstance(call['f'], dict) else ''
        direct = bool(re.search(r'ops::Fn(Mut|Once)?::call(_mut|_once)?$', fnp)) and isinstance(call['args'][0], dict) and call['args'][0].get('l') in tl
        L = len(new['locals'])
        B = len(new['blocks'])
        cal = copy.deepcopy({'locals': crow['locals'], 'blocks': crow['blocks'], 'debug': crow.get('debug', [])})
        for cb in cal['blocks']:
            _shift(cb['stmts'], L, B)
            _shift(cb['term'], L, B)
            _shift_term_targets(cb['term'], B)
            cb['i'] += B
            cb.setdefault('inl_site', use)
        for d in cal['debug']:
            _shift(d['pl'], L, B)
        env_ty = crow['locals'][1]['ty'] if len(crow['locals']) > 1 else ''
        span = call.get('s')
        ub = new['blocks'][use]
        bind = {'k': 'assign', 'dst': {'l': L + 1, 'p': []}, 'rv': ({'k': 'ref', 'mut': False, 'pl': {'l': cl, 'p': []}} if env_ty.startswith('&') else {'k': 'use', 'o': {'l': cl, 'p': []}}), 's': span, 'inl': 'env'}
        comb = _combinator(fnp, call, tl) if not direct else None
        if comb is not None:
            _place_combinator(new, use, call, comb, cal, crow, L, B, cl, bind, span, fid)
            new['debug'] = list(new.get('debug', [])) + cal['debug']
            continue
        if direct:
            ub['stmts'].append(bind)
            # arguments: the tuple passed as second argument
            if len(call['args']) > 1 and isinstance(call['args'][1], dict) and 'l' in call['args'][1]:
                for i in range(crow['argc'] - 1):
                    ub['stmts'].append({'k': 'assign', 'dst': {'l': L + 2 + i, 'p': []}, 'rv': {'k': 'use', 'o': {'l': call['args'][1]['l'], 'p': list(call['args'][1]['p']) + ['.%d' % i]}}, 's': span, 'inl': 'arg'})
            ub['term'] = {'k': 'goto', 't': B, 'inl_call': fid}
            for cb in cal['blocks']:
                t = cb['term']
                if t['k'] == 'return':
                    cb['stmts'].append({'k': 'assign', 'dst': copy.deepcopy(call['dst']), 'rv': {'k': 'use', 'o': {'l': L, 'p': [], 'mv': True}}, 's': t.get('s') or span, 'inl': 'ret'})
                    cb['term'] = {'k': 'goto', 't': call['t']} if call.get('t') is not None else {'k': 'unreachable'}
                elif t['k'] == 'resume' and isinstance(call.get('u'), int):
                    cb['term'] = {'k': 'goto', 't': call['u']}
            new['locals'] = new['locals'] + cal['locals']
            new['blocks'] = new['blocks'] + cal['blocks']
            # a local closure that is called at several places (`let is_taken = |c| ..; if is_taken(a) ..; loop { if is_taken(b) .. }`):
            # look for the next direct call of the same closure value
            handled.discard((target[0], target[1]))
        else:
            nd = L + len(cal['locals'])          # fresh undetermined bool
            LB = B + len(cal['blocks'])          # loop head
            KB = LB + 1                          # the original call
            ub['stmts'].append(bind)
            ub['term'] = {'k': 'goto', 't': LB, 'inl_call': fid}
            for cb in cal['blocks']:
                t = cb['term']
                if t['k'] == 'return':
                    cb['term'] = {'k': 'goto', 't': LB}
                elif t['k'] == 'resume' and isinstance(call.get('u'), int):
                    cb['term'] = {'k': 'goto', 't': call['u']}
            head = {'i': LB, 'cleanup': ub['cleanup'], 'nd_loop': True, 'stmts': [], 'term': {'k': 'switch', 'd': {'l': nd, 'p': []}, 'ty': 'bool', 'ts': [['0', KB]], 'else': B, 's': span}, 'inl_site': use}
            kblk = {'i': KB, 'cleanup': ub['cleanup'], 'stmts': [], 'term': call, 'inl_site': use}
            new['locals'] = new['locals'] + cal['locals'] + [{'ty': 'bool'}]
            new['blocks'] = new['blocks'] + cal['blocks'] + [head, kblk]
        new['debug'] = list(new.get('debug', [])) + cal['debug']
    return new


def apply_flat(P):
    """replace every non-closure body by its closure view and drop the closure bodies (the `second opinion` run of a check)"""
    from ir import Body
    flat = {}
    for b in list(P.bodies.values()):
        if b.kind == 'Closure':
            continue
        raw = flatten_closures(P, b.raw)
        if len(raw['blocks']) != len(b.raw['blocks']):
            nb = Body(raw, b.crate)
            nb.short = b.short
            nb.inlined_ids = list(getattr(b, 'inlined_ids', [])) + ['<closures>']
            nb.program = P
            flat[b.id] = nb
    for bid, nb in flat.items():
        old = P.bodies[bid]
        P.bodies[bid] = nb
        P.by_short[nb.short] = [nb if x.id == bid else x for x in P.by_short[nb.short]]
    P._cg = None
    return len(flat)

"""C11 - failed operations have no effect: validate-before-mutate as a flow property.
In every function returning Result<_, AutosarDataError> that is reachable from the public API there must be no CFG path
from a mutation of model state to an Err exit, unless the pair is reviewed (infeasible) or a known finding."""
import json, os, re
from ir import Program, callee_of, callee_generic, has_field, ends_in_field
from flow import origins, is_local_op, call_matches, iter_uses, forward_taint
import events as E
from locks import BodyLocks
from framework import Check, VERIF

TRACKED = ('ElementRaw', 'AutosarModelRaw', 'ArxmlFileRaw')
FRESH_CTOR = re.compile(r'^AutosarModel::new$|^ArxmlFile::new$|^<AutosarModel as Default>::default$|^ElementRaw::deep_copy$')
CONTAINER_MUT = re.compile(r'(SmallVec::<A>|Vec::<T, A>|HashMap::<K, V, S, A>|HashSet::<T, S, A>|IndexMap::<K, V, S>|hashbrown::.*|VecDeque::<T, A>)::(insert|insert_full|push|push_back|remove|remove_entry|swap_remove|shift_remove|clear|retain|retain_mut|drain|truncate|pop|extend|append|entry|get_mut|clone_from|sort.*|dedup.*|reserve)$|Clone>::clone_from$|ToOwned>::clone_into$')


def tracked_field(pl):
    for p in pl.get('p', []):
        if p.startswith('.') and p[1:].split('.')[0] in TRACKED:
            return p[1:]
    return None


def direct_mutations(b, BL):
    """list of (pos, descriptor) for writes to tracked model state in body b (fresh objects excluded)."""
    out = []

    def fresh(pl):
        owns = BL.trace_place({'l': pl['l'], 'p': []})
        return bool(owns) and all(o[0] == ('fresh',) for o in owns)
    for pos, s in b.iter_stmts():
        if s['k'] == 'assign':
            f = tracked_field(s['dst'])
            if f and not fresh(s['dst']):
                out.append((pos, 'store:' + f))
    for pos, t in b.iter_calls():
        if re.search(r'mem::(replace|swap|take)(::<.*>)?$', callee_generic(t) or '') and t['args'] and is_local_op(t['args'][0]):
            # mem::replace(&mut state.field, v) is a store to the field
            import flow
            for f in sorted(flow.deep_sources(b, t['args'][0], depth=8)[2]):
                if f.split('.')[0] in TRACKED:
                    out.append((pos, 'store:' + f))
                    break
            continue
        if CONTAINER_MUT.search(callee_generic(t) or ''):
            rp = E.recv_place(b, t)
            if rp is not None:
                f = tracked_field(rp)
                if f and not fresh(rp):
                    nm = (callee_generic(t) or '').rsplit('::', 1)[-1]
                    if nm in ('get_mut', 'entry', 'reserve'):
                        # get_mut/entry hand out a reference; the push through it is what mutates: count when the result is written through
                        if nm == 'reserve':
                            continue
                    out.append((pos, '%s.%s' % (f, nm)))
    return out


def compute_pairs(P, reviewed):
    """the (mutation, Err exit) pairs of every public-reachable fallible function; shared by C11 and C16"""
    scope = [b for b in P.bodies.values() if b.crate == 'autosar_data']
    BLs = {}
    direct = {}
    for b in scope:
        BLs[b.id] = BodyLocks(P, b)
        direct[b.id] = direct_mutations(b, BLs[b.id])
    # may-mutate summary
    MUT = {b.id for b in scope if direct[b.id]}
    cg = P.callgraph()
    changed = True
    while changed:
        changed = False
        for b in scope:
            if b.id in MUT:
                continue
            if any(c in MUT for c in cg[b.id]):
                MUT.add(b.id)
                changed = True
    pub_reach = P.reachable_bodies([b.id for b in P.bodies.values() if b.reachable and b.kind != 'Closure'])
    ret_err = lambda b: 'AutosarDataError>' in b.ret and b.ret.startswith('std::result::Result<')
    # fixpoint for DIRTYERR
    DIRTY = set()
    pairs_by_fn = {}
    for rnd in range(8):
        new_dirty = set()
        pairs_by_fn = {}
        for b in scope:
            if not ret_err(b) or b.id not in pub_reach:
                continue
            BL = BLs[b.id]
            muts = list(direct[b.id])
            for pos, t in b.iter_calls():
                c = callee_of(t)
                g = callee_generic(t)
                tgt = c if c in MUT else (g if g in MUT else None)
                if tgt and FRESH_CTOR.search(P.bodies[tgt].short):
                    continue
                if tgt and tgt != b.id:
                    # a call that mutates only a fresh receiver does not count
                    if t['args'] and is_local_op(t['args'][0]):
                        owns = BL.trace_place(t['args'][0])
                        if owns and all(o[0] == ('fresh',) for o in owns):
                            continue
                    muts.append((pos, 'call:' + P.bodies[tgt].short + ('!' if tgt in DIRTY else '')))
            if not muts:
                continue
            exits = [e for e in E.result_exits(b) if e['kind'] == 'err']
            pairs = {}
            for mpos, mdesc in muts:
                dirty_callee = mdesc.endswith('!')
                mdesc = mdesc.rstrip('!')
                # a callee that may fail AFTER mutating taints its failure edge too
                reach = b.reach_from(mpos) if (dirty_callee or not mdesc.startswith('call:')) else success_reach(b, mpos)
                in_loop = mpos in reach
                for e in exits:
                    if e['pos'] not in reach:
                        continue
                    src = E.residual_source(b, e)
                    if e['src'] == 'literal':
                        var = err_variant(b, e)
                        xdesc = 'Err(%s)' % var
                    elif src is not None:
                        spos, st = src
                        cs = callee_of(st) or '?'
                        cshort = P.bodies[cs].short if cs in P.bodies else re.sub(r'<[^<>]*>', '', cs).rsplit('::', 2)[-1]
                        xdesc = '?%s' % cshort
                        # the error of the mutating call itself: only if that callee may fail AFTER mutating
                        if spos == mpos:
                            if cs in DIRTY:
                                xdesc = '?%s(after-its-own-mutation)' % cshort
                            elif in_loop:
                                xdesc = '?%s(in-a-later-iteration)' % cshort
                            else:
                                continue
                    else:
                        # `helper(..)?` with the helper inlined: the residual is the helper's own `Err(variant)` literal
                        lit = residual_literal(b, e) if e.get('src') == 'residual' else None
                        xdesc = 'Err(%s)' % lit if lit else '?'
                    key = '%s|%s|%s' % (b.short, mdesc, xdesc)
                    pairs.setdefault(key, (mpos, e['pos']))
            unrev = {k: v for k, v in pairs.items() if k not in reviewed}
            pairs_by_fn[b.id] = pairs
            if unrev:
                new_dirty.add(b.id)
        if new_dirty == DIRTY:
            break
        DIRTY = new_dirty
    return scope, pairs_by_fn, MUT, pub_reach, ret_err


def run(ctx):
    C = Check('C11', ctx['tier'], 'other', ctx['seed'])
    P = Program(ctx['facts'])
    C.rule('C11-FLOW-vbm', 'for every function returning Result<_, AutosarDataError> reachable from the public API: the set of pairs (mutation of ElementRaw/AutosarModelRaw/ArxmlFileRaw state, Err exit) connected by a CFG path is empty, or each pair is reviewed as infeasible; mutations of objects created in the same function are exempt')
    C.assumptions = ['path-insensitive: a reported pair may be infeasible; reviewed pairs carry the reason', 'writing files to disk is outside the model state (excluded by the property)']
    reviewed = json.load(open(os.path.join(VERIF, 'tables', 'c11_reviewed.json')))['reviewed']
    requires = {r['key']: r.get('requires', []) for r in reviewed}
    reviewed = {r['key']: r['reason'] for r in reviewed}
    scope, pairs_by_fn, MUT, pub_reach, ret_err = compute_pairs(P, reviewed)
    n_pairs = 0
    n_fn = 0
    for b in scope:
        pairs = pairs_by_fn.get(b.id)
        if pairs is None:
            continue
        n_fn += 1
        for k, (mpos, xpos) in sorted(pairs.items()):
            n_pairs += 1
            lost = []
            for rq in requires.get(k, []):
                kind, _, rx = rq.partition(':')
                if kind == 'dom':
                    ok = any(call_matches(t, rx) and b.pos_dominates(p, mpos) for p, t in b.iter_calls())
                    if not ok:
                        # the call may sit in a closure created before the mutation (e.g. `.is_some_and(|spec| check_value(..))`)
                        for p, st in b.iter_stmts():
                            if st['k'] == 'assign' and st['rv']['k'] == 'agg' and st['rv'].get('ak') == 'closure' and b.pos_dominates(p, mpos):
                                cb = P.bodies.get(st['rv']['fn'])
                                if cb is not None and any(call_matches(t, rx) for _, t in cb.iter_calls()):
                                    ok = True
                    if not ok:
                        lost.append(rq)
            if k in reviewed and lost:
                C.fail('C11-FLOW-vbm', k + '|premise-lost', 'the reviewed reason for this pair relies on %s, which no longer dominates the mutation: %s' % (lost, reviewed[k]), b.where(mpos))
            elif k in reviewed:
                C.ok('C11-FLOW-vbm', k + '|reviewed', reviewed[k], sample={'pair': k, 'status': 'reviewed infeasible', 'reason': reviewed[k]} if n_pairs % 6 == 0 else None)
            else:
                C.fail('C11-FLOW-vbm', k, 'a path leads from a mutation of model state (%s) to an error return (%s): the call can fail after it changed the model' % (b.where(mpos), b.where(xpos)), b.where(mpos))
    # functions with mutations and error exits but no pair at all are discharged obligations
    clean = 0
    for b in scope:
        if ret_err(b) and b.id in pub_reach and b.id in MUT and not pairs_by_fn.get(b.id):
            clean += 1
            C.ok('C11-FLOW-vbm', '%s|validate-before-mutate' % b.short, 'no path from a mutation to an Err exit', sample={'fn': b.short, 'status': 'all error exits precede the first mutation'} if clean % 5 == 0 else None)
    C.floor('C11-FLOW-vbm.functions', n_fn + clean, 30)
    C.extra['functions_with_mutation_and_err_exit'] = n_fn + clean
    C.extra['may_mutate_functions'] = len(MUT)
    C.extra['pairs_total'] = n_pairs
    return C.finish('Flow property on MIR: mutation events (stores / container mutators on fields of the three raw state structs, calls of may-mutate functions from a call-graph fixpoint) '
                    'versus Err exits (Err literals and ?-propagation with their source callee); every connected pair is a finding, a reviewed infeasible path, or a violation. '
                    'Does not decide feasibility of a reported path.')


def success_reach(b, mpos):
    """positions reachable after the call at mpos RETURNED SUCCESSFULLY: if its Result is tested (?, is_ok, match) only the
    Ok continuation is followed; a Result that is ignored continues everywhere."""
    t = b.blocks[mpos[0]]['term']
    if t['k'] != 'call' or t['dst']['p'] or t['t'] is None:
        return b.reach_from(mpos)
    r = t['dst']['l']
    if 'Result<' not in b.local_ty(r):
        return b.reach_from(mpos)
    taint = forward_taint(b, {r}, through_refs=True)
    grew = True
    while grew:
        grew = False
        for pos, tt in b.iter_calls():
            if call_matches(tt, r'Result::<T, E>::(map_err|or_else|inspect_err)$') and tt['args'] and is_local_op(tt['args'][0]) and tt['args'][0]['l'] in taint and not tt['dst']['p'] and tt['dst']['l'] not in taint:
                taint |= forward_taint(b, {tt['dst']['l']}, through_refs=True)
                grew = True
    # Try::branch(r) -> ControlFlow c ; switch on discriminant(c): 0 = Continue
    for pos, tt in b.iter_calls():
        if call_matches(tt, r'Try>::branch$') and tt['args'] and is_local_op(tt['args'][0]) and tt['args'][0]['l'] in taint and mpos in _preds_closure(b, pos, mpos):
            cl = tt['dst']['l']
            for p2, s2 in b.iter_stmts():
                if s2['k'] == 'assign' and s2['rv']['k'] == 'discr' and s2['rv']['pl']['l'] == cl:
                    sw = b.blocks[p2[0]]['term']
                    if sw['k'] == 'switch':
                        cont = dict(sw['ts']).get('0')
                        if cont is not None:
                            return b.reach_from((cont, 0), include_start=True)
        if call_matches(tt, r'Result::<T, E>::is_ok$') and tt['args'] and is_local_op(tt['args'][0]) and tt['args'][0]['l'] in taint and tt['t'] is not None:
            sw = b.blocks[tt['t']]['term']
            if sw['k'] == 'switch':
                return b.reach_from((sw['else'], 0), include_start=True)
        if call_matches(tt, r'Result::<T, E>::is_err$') and tt['args'] and is_local_op(tt['args'][0]) and tt['args'][0]['l'] in taint and tt['t'] is not None:
            sw = b.blocks[tt['t']]['term']
            if sw['k'] == 'switch':
                f_t = dict(sw['ts']).get('0')
                if f_t is not None:
                    return b.reach_from((f_t, 0), include_start=True)
    for p2, s2 in b.iter_stmts():
        if s2['k'] == 'assign' and s2['rv']['k'] == 'discr' and is_local_op(s2['rv']['pl']) and s2['rv']['pl']['l'] in taint and not s2['rv']['pl']['p']:
            sw = b.blocks[p2[0]]['term']
            if sw['k'] == 'switch':
                ok_t = dict(sw['ts']).get('0', sw['else'])
                return b.reach_from((ok_t, 0), include_start=True)
    return b.reach_from(mpos)


def _preds_closure(b, pos, mpos):
    # cheap: the branch call must be reachable from the mutating call
    return {mpos} if pos in b.reach_from(mpos) else set()


def residual_literal(b, e, depth=4):
    """the AutosarDataError variant of an `Err(..)` literal that reaches this from_residual exit through Try::branch (an inlined helper
    that returns the literal, `?`-ed by the caller)"""
    def lit_of(o, d):
        for org in origins(b, o):
            if org[0] in ('param', 'const', 'place') or not isinstance(org[1], dict):
                continue
            st = org[1]
            if st.get('k') == 'assign' and st['rv']['k'] == 'agg' and st['rv'].get('adt') == 'Result' and st['rv'].get('var') == 'Err' and st['rv'].get('ops'):
                for o2 in origins(b, st['rv']['ops'][0]):
                    if o2[0] not in ('param', 'const', 'place') and isinstance(o2[1], dict) and o2[1].get('k') == 'assign' and o2[1]['rv']['k'] == 'agg' and o2[1]['rv'].get('adt') == 'AutosarDataError':
                        return o2[1]['rv']['var']
            if st.get('k') == 'call' and call_matches(st, r'FromResidual.*::from_residual$') and d > 0:
                r = res_of(st, d - 1)
                if r:
                    return r
        return None

    def res_of(t, d):
        for org in origins(b, t['args'][0]):
            if org[0] == 'place' and 'as Break' in org[1]['p']:
                cl = org[1]['l']
                for pos, tt in b.iter_calls():
                    if tt['dst']['l'] == cl and not tt['dst']['p'] and call_matches(tt, r'Try>::branch$'):
                        r = lit_of(tt['args'][0], d)
                        if r:
                            return r
        return None
    return res_of(e['term'], depth)


def err_variant(b, e):
    s = e['stmt']
    for org in origins(b, s['rv']['ops'][0]):
        if org[0] == 'place' and 'as Err' in org[1]['p']:
            for o2 in origins(b, {'l': org[1]['l'], 'p': []}):
                if o2[0] not in ('param', 'const', 'place') and o2[1].get('k') == 'call':
                    c = callee_of(o2[1]) or '?'
                    return 'propagated:' + re.sub(r'<[^<>]*>', '', c).rsplit('::', 1)[-1]
        if org[0] not in ('param', 'const', 'place') and org[1].get('k') == 'assign' and org[1]['rv']['k'] == 'agg' and org[1]['rv'].get('adt') == 'AutosarDataError':
            return org[1]['rv']['var']
    return '?'

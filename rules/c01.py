"""C01 - loading is faithful / load -> serialize -> load is the identity (structural clauses only).
Decides that reader and writer use inverse, complete escaping tables on every text path, that every text the reader stores
went through the unescaper (or was reported), that the whitespace-preserving string kind is read from the untrimmed input,
and that every field the reader stores is emitted by the writer.  Does not decide whitespace/layout/number formatting or
byte identity of a second serialisation (equalities between run-time strings)."""
import json, os, re
from ir import Program, callee_of, callee_generic, has_field, ends_in_field
from flow import is_local_op, call_matches, must_pass, deep_sources, switch_edges_on_call_result, iter_uses, origins, defs_of
import events as E
from pairing import calls, guarded_by_true
from framework import Check
from c07 import all_sources

# characters whose verbatim output does not read back as the same value: '<' and '&' anywhere, '"' inside the double-quoted
# attribute values.  ('>' and '\'' are escaped by the writer too, but writing them verbatim round-trips, so they are not demanded.)
REQUIRED = ['<', '&', '"']


def walk(e):
    if isinstance(e, dict):
        yield e
        for v in e.values():
            yield from walk(v)
    elif isinstance(e, list):
        for v in e:
            yield from walk(v)


def lits(e, kinds=('char', 'byte')):
    out = []
    for n in walk(e):
        if n.get('k') in kinds and 'v' in n:
            v = n['v']
            out.append(chr(v) if isinstance(v, int) else v)
    return out


def writer_table(fn):
    """char -> string pairs from `match c { 'x' => out.push_str("..") }` arms; returns (pairs, has_identity_arm)"""
    pairs = {}
    ident = False
    for n in walk(fn['body']):
        if n.get('k') == 'match':
            for arm in n['arms']:
                pat = arm['pat']
                body = arm['body']
                if pat.get('k') == 'lit' and pat['e'].get('k') == 'char':
                    strs = [x['v'] for x in walk(body) if x.get('k') == 'str']
                    push = [x for x in walk(body) if x.get('k') == 'mcall' and x.get('m') == 'push_str']
                    if len(strs) == 1 and push:
                        pairs[pat['e']['v']] = strs[0]
                    else:
                        pairs[pat['e']['v']] = None
                elif pat.get('k') == 'ident' and [x for x in walk(body) if x.get('k') == 'mcall' and x.get('m') == 'push']:
                    ident = True
    return pairs, ident


def first_if_cond(fn):
    for st in fn['body']['stmts']:
        e = st.get('e') or st.get('init')
        if isinstance(e, dict) and e.get('k') == 'if':
            return e['c']
    return None


def reader_chain(fn):
    """ordered list of (prefix string, pushed char or None, skip or None) from the `rem.starts_with("..")` else-if chain"""
    chain = []
    # find the outermost if whose condition is a starts_with call
    def find(e):
        for n in walk(e):
            if n.get('k') == 'if' and isinstance(n.get('c'), dict) and n['c'].get('k') == 'mcall' and n['c'].get('m') == 'starts_with':
                return n
        return None
    n = find(fn['body'])
    while n is not None and n.get('k') == 'if' and n['c'].get('k') == 'mcall' and n['c'].get('m') == 'starts_with':
        s = n['c']['args'][0].get('v')
        pushed = None
        skip = None
        for x in walk(n['t']):
            if x.get('k') == 'mcall' and x.get('m') == 'push' and x['args'] and x['args'][0].get('k') == 'char' and pushed is None:
                pushed = x['args'][0]['v']
        # rem = &rem[N..]
        for x in walk(n['t']):
            if x.get('k') == 'index':
                r = x.get('idx') or x.get('i') or x.get('index')
                rr = [y for y in walk(x) if y.get('k') == 'range']
                if rr and rr[0].get('to') is None and isinstance(rr[0].get('from'), dict) and rr[0]['from'].get('k') == 'int' and skip is None:
                    skip = rr[0]['from']['v']
        chain.append((s, pushed, skip, n['c'].get('line')))
        n = n.get('e')
        if isinstance(n, dict) and n.get('k') == 'block' and len(n.get('stmts', [])) == 1 and isinstance(n['stmts'][0].get('e'), dict) and n['stmts'][0]['e'].get('k') == 'if':
            n = n['stmts'][0]['e']
    return chain


def _str_const(b, o):
    """the &str / char constant an operand holds (through `&*const` reborrows), or None"""
    from flow import const_val, origins, is_local_op
    if not is_local_op(o):
        v = const_val(o)
        return None if v is None else str(v)
    for org in origins(b, o):
        if org[0] == 'const':
            return str(const_val(org[1]))
        if org[0] not in ('param', 'place') and org[1].get('k') == 'assign' and org[1]['rv']['k'] == 'ref':
            inner = org[1]['rv']['pl']
            for o2 in origins(b, {'l': inner['l'], 'p': []}):
                if o2[0] == 'const':
                    return str(const_val(o2[1]))
    return None


def _unq(s):
    if s is None:
        return None
    s = s.strip()
    if len(s) >= 2 and s[0] == s[-1] and s[0] in '"\'':
        s = s[1:-1]
    return s.replace("\\'", "'").replace('\\"', '"')


def _dominated(b, blk):
    dom = b.dominators()
    return {n for n in dom if blk in dom[n]}


def mir_writer_table(P):
    """(W, identity arm?, precheck set or None, where) read off the MIR of escape_text: the switch on the character, per value the
    constant string pushed in the blocks that only this arm reaches; the else arm pushes the character itself"""
    from flow import const_val, is_local_op, origins
    b = P.find('chardata::escape_text')
    if b is None:
        return None
    W, ident = {}, False
    for pos, t in b.iter_terms():
        if t['k'] == 'switch' and t.get('ty') == 'char':
            arms = [(chr(int(v)), tgt) for v, tgt in t['ts']] + [(None, t['else'])]
            for ch, tgt in arms:
                reg = _dominated(b, tgt)
                for q, c in b.iter_calls():
                    if q[0] not in reg:
                        continue
                    if call_matches(c, r'String::push_str$') and len(c['args']) > 1:
                        v = _unq(_str_const(b, c['args'][1]))
                        if ch is not None and v is not None:
                            W[ch] = v
                    if call_matches(c, r'String::push$') and len(c['args']) > 1 and ch is None and is_local_op(c['args'][1]):
                        ident = True
                if ch is not None and W.get(ch) is None:
                    # table form: the arm only selects the replacement (`'<' => Some("&lt;")`), which is pushed after the match
                    cands = set()
                    for q, st in b.iter_stmts():
                        if q[0] in reg and st['k'] == 'assign':
                            ops = st['rv'].get('ops', []) if st['rv']['k'] == 'agg' else ([st['rv']['o']] if st['rv']['k'] == 'use' else [])
                            for o in ops:
                                v = _unq(_str_const(b, o)) if (not is_local_op(o) and o.get('c') == '&str') or is_local_op(o) else None
                                if v is not None and v.startswith('&') and v.endswith(';'):
                                    cands.add(v)
                    W[ch] = cands.pop() if len(cands) == 1 else None
                if ch is None and not ident:
                    # the else arm yields None and the character itself is pushed after the match
                    ident = any(call_matches(c, r'String::push$') and len(c['args']) > 1 and is_local_op(c['args'][1]) for q, c in b.iter_calls())
    pre = None
    for pos, c in b.iter_calls():
        if call_matches(c, r'<impl str>::contains$|str>::contains$') and len(c['args']) > 1:
            for org in origins(b, c['args'][1]):
                if org[0] not in ('param', 'const', 'place') and org[1].get('k') == 'assign' and org[1]['rv']['k'] == 'agg' and org[1]['rv'].get('ak') == 'array':
                    pre = {_unq(str(const_val(o))) for o in org[1]['rv']['ops'] if not is_local_op(o)}
            v = _str_const(b, c['args'][1])
            if pre is None and v is not None:
                pre = (pre or set()) | {_unq(v)}
    if pre is None:
        # `input.bytes().any(|b| matches!(b, b'&' | b'<' | b'>'))` / `chars().any(|c| ..)`: the values the predicate switches on
        P_ = getattr(b, 'program', None)
        for pos, c in b.iter_calls():
            if call_matches(c, r'Iterator>?::any$') and len(c['args']) > 1 and P_ is not None:
                for org in origins(b, c['args'][1]):
                    if org[0] not in ('param', 'const', 'place') and org[1].get('k') == 'assign' and org[1]['rv']['k'] == 'agg' and org[1]['rv'].get('ak') == 'closure':
                        cb = P_.bodies.get(org[1]['rv'].get('fn'))
                        vals = set()
                        for q, t in (cb.iter_terms() if cb is not None else []):
                            if t['k'] == 'switch' and t.get('ty') in ('u8', 'char'):
                                vals |= {chr(int(v)) for v, tb in t['ts']}
                        for q, st in (cb.iter_stmts() if cb is not None else []):
                            if st['k'] == 'assign' and st['rv']['k'] == 'bin' and st['rv']['op'] == 'Eq':
                                for o in (st['rv']['a'], st['rv']['b']):
                                    if not is_local_op(o) and o.get('c') in ('u8', 'char'):
                                        vals.add(chr(int(o['i'])))
                        if vals:
                            pre = vals
        # a chain of `input.contains('<') || input.contains('&')`
    return W, ident, pre, '%s:%d' % (b.file, b.line)


def mir_reader_chain(P):
    """[(prefix, pushed char or None, skipped bytes or None, position)] read off the MIR of unescape_string (helpers inlined): every
    `starts_with(<const>)`; in the blocks that only its true edge reaches, the character constant that is pushed (or put into a tuple
    that is pushed later) and the constant number of bytes skipped (`&rem[k..]` or a tuple component)"""
    from flow import const_val, is_local_op, origins, switch_edges_on_call_result
    b = P.find('ArxmlParser::unescape_string')
    if b is None:
        return None, None
    tests = []
    for pos, t in b.iter_calls():
        if call_matches(t, r'<impl str>::starts_with$|str>::starts_with$') and len(t['args']) > 1:
            v = _unq(_str_const(b, t['args'][1]))
            if v is not None and v.startswith('&'):
                sw = switch_edges_on_call_result(b, pos)
                if sw:
                    tests.append((pos, v, sw[2]))
    chain = []
    true_targets = {tt for _, _, tt in tests}
    for pos, pre, tt in tests:
        reg = _dominated(b, tt)
        for pos2, pre2, tt2 in tests:
            if tt2 != tt and tt2 in reg:
                reg -= _dominated(b, tt2)
        chars, skips = set(), set()
        for q, c in b.iter_calls():
            if q[0] in reg and call_matches(c, r'String::push$') and len(c['args']) > 1 and not is_local_op(c['args'][1]):
                chars.add(_unq(str(const_val(c['args'][1]))))
        for q, st in b.iter_stmts():
            if q[0] not in reg or st['k'] != 'assign' or st['rv']['k'] != 'agg':
                continue
            rv = st['rv']
            if rv.get('adt') == 'RangeFrom' and rv['ops'] and not is_local_op(rv['ops'][0]):
                skips.add(int(rv['ops'][0]['i']))
            if rv.get('ak') == 'tuple':
                for o in rv['ops']:
                    if not is_local_op(o) and o.get('c') == 'char':
                        chars.add(_unq(str(const_val(o))))
                    if not is_local_op(o) and o.get('c') == 'usize':
                        skips.add(int(o['i']))
        chain.append((pre, chars.pop() if len(chars) == 1 else None, skips.pop() if len(skips) == 1 else None, pos))
    return chain, b


def escape_rules(C, P, syn, RULE):
    """writer / reader escaping tables are inverse and complete (shared by C01 and C07); both tables are read off the MIR"""
    wt = mir_writer_table(P)
    chain, un = mir_reader_chain(P)
    if wt is None or chain is None:
        C.anchor_missing(RULE, 'escape_text / unescape_string')
        return False
    W, ident, Pre, where_w = wt
    R = {s_: (c, k) for s_, c, k, pos in chain}
    order = [s_ for s_, c, k, pos in chain]
    posn = {s_: pos for s_, c, k, pos in chain}
    where_r = '%s:%d' % (un.file, un.line)
    C.extra['writer_table'] = W
    C.extra['writer_precheck'] = sorted(Pre) if Pre is not None else None
    C.extra['reader_chain'] = [[s_, c, k] for s_, c, k, pos in chain]
    for c in REQUIRED:
        C.check(W.get(c) is not None, RULE, 'writer-escapes|%r' % c, 'escape_text does not replace %r (text or attribute values containing it produce ill-formed XML / a different value after reloading)' % c, where_w,
                sample={'char': c, 'written_as': W.get(c)} if c == '<' else None)
    C.check(ident, RULE, 'writer-identity-arm', 'escape_text has no arm that copies all other characters unchanged', where_w)
    if Pre is None:
        C.ok(RULE, 'writer-precheck|none', 'no fast path')
    else:
        for c in sorted(c_ for c_ in W if c_ in REQUIRED):
            C.check(c in Pre, RULE, 'writer-precheck-covers|%r' % c, 'the fast-path test of escape_text does not look for %r although the loop escapes it: a value containing %r but none of the tested characters is written verbatim (an attribute value with a double quote ends the attribute early)' % (c, c), where_w,
                    sample={'precheck': sorted(Pre)} if c == '&' else None)
    for c, s in sorted(W.items()):
        if s is None:
            continue
        C.check(s.startswith('&') and s.endswith(';') and len(s) > 2, RULE, 'writer-form|%r' % c, 'the replacement %r for %r is not of the form &name;' % (s, c), where_w)
        got = R.get(s)
        C.check(got is not None and got[0] == c, RULE, 'reader-inverts|%s' % s, 'the reader does not map %r back to %r (it maps it to %r): a value written by the serializer is read back differently' % (s, c, got[0] if got else None), where_r,
                sample={'entity': s, 'reader_pushes': got[0] if got else None, 'skip': got[1] if got else None} if c == '&' else None)
        C.check(got is not None and got[1] == len(s), RULE, 'reader-skips-whole-entity|%s' % s, 'after decoding %r the reader skips %s bytes instead of %d' % (s, got[1] if got else None, len(s)), where_r)
    # order: a named entity is tested before the numeric prefixes, "&#x" before "&#" (the shorter prefix would shadow the longer one):
    # the earlier test dominates the later one
    named = [x for x in order if x.endswith(';')]
    num = [x for x in order if not x.endswith(';')]
    ok_order = all(un.pos_dominates(posn[n_], posn[m]) for n_ in named for m in num) and ('&#x' in posn and '&#' in posn and un.pos_dominates(posn['&#x'], posn['&#']))
    C.check(ok_order, RULE, 'reader-order', 'the starts_with chain of unescape_string tests a numeric-reference prefix before a named entity, or "&#" before "&#x" (the shorter prefix shadows the longer one)', where_r, sample={'order': order})
    C.floor(RULE + '.reader-arms', len(chain), 7)
    # numeric references decode through char::from_u32 with radix 16 and 10 (the radix may be a parameter of a shared helper)
    from flow import const_val, is_local_op, source_locals
    rad = set()
    for x_ in P.with_closures(un):
      for q, t in x_.iter_calls():
        if call_matches(t, r'FromStr>?::from_str$'):
            rad.add(10)
        if call_matches(t, r'from_str_radix$') and len(t['args']) > 1:
            o = t['args'][1]
            if not is_local_op(o):
                rad.add(int(o['i']))
            else:
                want = source_locals(x_, o)
                for q2, st in x_.iter_stmts():
                    if st['k'] == 'assign' and st['dst']['l'] in want:
                        for o2 in ([st['rv']['o']] if st['rv']['k'] == 'use' else st['rv'].get('ops', [])):
                            if isinstance(o2, dict) and not is_local_op(o2) and o2.get('c') == 'u32':
                                rad.add(int(o2['i']))
    C.check({10, 16} <= rad and sum(len(calls(x_, r'char::from_u32$|char::methods::<impl char>::from_u32$|<impl char>::from_u32$')) for x_ in P.with_closures(un)) >= 1, RULE, 'reader-numeric-references', 'unescape_string no longer decodes both hexadecimal and decimal character references through char::from_u32 (radices found: %s)' % sorted(rad), where_r)
    return True


def run(ctx):
    C = Check('C01', ctx['tier'], 'other', ctx['seed'])
    P = Program(ctx['facts'])
    syn = json.load(open(os.path.join(ctx['facts'], 'syn.json')))['files']
    C.rule('C01-SIB-escape', 'writer table (escape_text) and reader table (unescape_string) are inverse and complete: the writer escapes each of < & " (the characters that do not read back verbatim); its fast-path pre-check mentions each of them; for every writer pair (c, s) the reader has an arm starts_with(s) -> push(c) that skips len(s); '
           'named entities are tested before the numeric forms and &#x before &#')
    C.rule('C01-MUST-writer', 'CharacterData::serialize_internal emits a String payload only through escape_text; Element::serialize_internal and serialize_attributes emit character data only through CharacterData::serialize_internal; attributes are quoted with the double quote that escape_text escapes')
    C.rule('C01-SIB-reader', 'in parse_character_data every CharacterData::String built from input passes through unescape_string, or the path reported a (Utf8) error; the whitespace-preserving string kind converts the UNtrimmed input; attribute values and element text use the same parse_character_data')
    C.rule('C01-MUST-onetext', 'an element whose content is character data only stores ONE text item: in parse_element a further character-data piece (the text continues after a comment or processing instruction) is only pushed after the content mode / the emptiness of the content was tested, and the other edge reports it - the serializer writes the first item only')
    C.rule('C01-SIB-fields', 'every ElementRaw field the parser stores (elemname, attributes, content, comment) is read by the serializer; xml_standalone is stored by load and read by ArxmlFile::serialize; every field of the CharacterDataSpec variants is read in parse_character_data')
    C.assumptions = ['whitespace trimming, indentation, number formatting and byte identity of the second serialisation are NOT decided', 'str::starts_with / String::push_str have their std semantics']
    # ---------------- SIB-escape ----------------
    if not escape_rules(C, P, syn, 'C01-SIB-escape'):
        return C.finish('fail closed')
    # ---------------- MUST-onetext ----------------
    pe_ = P.get('ArxmlParser::parse_element')
    cd_push = [o['pos'] for o in E.content_ops(pe_) if o['op'] == 'push' and o['item'] == 'CharacterData']
    if not cd_push:
        C.anchor_missing('C01-MUST-onetext', 'parse_element: push of character data')
    else:
        tests_ = [pos for pos, t in pe_.iter_calls() if call_matches(t, r'ElementType::content_mode$') or (call_matches(t, r'SmallVec::<A>::(is_empty|len)$|Iterator>?::any$') and 'ElementRaw.content' in deep_sources(pe_, t['args'][0], depth=8)[2])]
        # the test may sit in the predicate of an Option / iterator adaptor (`chardata_spec().filter(|_| .. content.is_empty())`): the
        # call that runs the closure stands for it
        for x_ in P.closures_of(pe_):
            if any(call_matches(t, r'ElementType::content_mode$|SmallVec::<A>::(is_empty|len)$') for _, t in x_.iter_calls()):
                for pos, st in pe_.iter_stmts():
                    if st['k'] == 'assign' and st['rv']['k'] == 'agg' and st['rv'].get('ak') == 'closure' and st['rv'].get('fn') == x_.id:
                        cl_ = st['dst']['l']
                        tests_ += [q for q, t in pe_.iter_calls() if any(is_local_op(a) and a['l'] == cl_ for a in t['args'])]
        from pairing import iteration_start as _its
        for i_, cp in enumerate(cd_push):
            okc = any(pe_.pos_dominates(tp, cp) and tp in pe_.reach_from(_its(pe_, cp)) for tp in tests_)
            C.check(okc, 'C01-MUST-onetext', 'parse_element|character-data-push#%d|second-piece-tested' % i_, 'parse_element stores every character-data piece of an element: when a comment splits the text of a character-data element (<SHORT-NAME>Pk<!--c-->g</SHORT-NAME>) two items are stored and the serializer writes only the first - the value is silently truncated on load -> serialize',
                    pe_.where(cp), sample={'fn': 'parse_element', 'guard': 'content_mode() == Characters && !content.is_empty() -> reported'})
    # ---------------- MUST-writer ----------------
    si = P.get('CharacterData::serialize_internal')
    pushes = calls(si, r'String::push_str$')
    kinds = {}
    for p in pushes:
        names, cs, _ = all_sources(si, si.blocks[p[0]]['term']['args'][1])
        k = 'escape_text' if any(c.endswith('escape_text') for c in cs) else 'to_str' if any(c.endswith('EnumItem::to_str') for c in cs) else 'to_string' if any(c.endswith('to_string') for c in cs) else 'other'
        kinds[k] = kinds.get(k, 0) + 1
        C.check(k != 'other', 'C01-MUST-writer', 'CharacterData::serialize_internal|push#%d|%s' % (len(kinds), k), 'CharacterData::serialize_internal writes a value that went neither through escape_text nor through a number/enum formatter (raw text reaches the file)', si.where(p))
    et = calls(si, r'escape_text$')
    # the String payload is written through escape_text: `out.push_str(&escape_text(payload))`, or escape_text(out, payload) appending by itself
    et_payload = []
    for q in et:
        tq = si.blocks[q[0]]['term']
        flds = set()
        for a_ in tq['args']:
            if is_local_op(a_):
                flds |= set(deep_sources(si, a_, depth=10)[2])
        if any('CharacterData.0' in f or 'String' in f for f in flds):
            et_payload.append(q)
    direct_append = any(len(si.blocks[q[0]]['term']['args']) >= 2 and 'String' in (si.local_ty(si.blocks[q[0]]['term']['args'][0]['l']) or '') and '&mut' in (si.local_ty(si.blocks[q[0]]['term']['args'][0]['l']) or '') for q in et_payload if is_local_op(si.blocks[q[0]]['term']['args'][0]))
    C.check(len(et) == 1 and (kinds.get('escape_text', 0) == 1 or direct_append), 'C01-MUST-writer', 'CharacterData::serialize_internal|string-through-escape_text', 'the String arm of CharacterData::serialize_internal does not write its payload through escape_text', '%s:%d' % (si.file, si.line),
            sample={'fn': 'CharacterData::serialize_internal', 'push_str_sources': kinds})
    # numbers are formatted from the stored value itself: nothing (rounding, re-parsing) sits between the payload and to_string
    for p_ in calls(si, r'ToString>::to_string$|::to_string$'):
        n_, c_, f_ = deep_sources(si, si.blocks[p_[0]]['term']['args'][0], depth=10)
        C.check(not c_, 'C01-MUST-writer', 'CharacterData::serialize_internal|number-formatted-from-the-stored-value|%s' % ('+'.join(sorted(x.rsplit('::', 1)[-1] for x in c_)) or 'direct'),
                'a numeric value is transformed (%s) before it is formatted: the text written is not the stored value (e.g. rounded to fewer digits), so load -> serialize -> load changes it' % sorted(x.rsplit('::', 1)[-1] for x in c_), si.where(p_))
    # escape_text receives the String payload
    C.check(len(et) == 1 and len(et_payload) == 1, 'C01-MUST-writer', 'CharacterData::serialize_internal|escape_text-gets-the-payload', 'escape_text is not applied to the String payload')
    ser = P.get('Element::serialize_internal')
    sa = P.get('Element::serialize_attributes')
    for b, want in ((ser, 2), (sa, 1)):
        cs_ = calls(b, r'impl CharacterData>::serialize_internal$')
        C.check(len(cs_) >= want, 'C01-MUST-writer', '%s|values-through-CharacterData::serialize_internal' % b.short, '%s no longer writes values through CharacterData::serialize_internal (%d sites, expected >= %d)' % (b.short, len(cs_), want), '%s:%d' % (b.file, b.line),
                sample={'fn': b.short, 'sites': len(cs_)})
        # no push/push_str whose argument derives from character data / attribute content
        for p in calls(b, r'String::(push_str|push|insert_str|extend)$|fmt::Write>::write_(str|fmt)$'):
            t = b.blocks[p[0]]['term']
            n_, c_, f_ = deep_sources(b, t['args'][1], depth=12) if len(t['args']) > 1 else (set(), set(), set())
            bad = [f for f in f_ if f in ('Attribute.content', 'ElementContent.0', 'CharacterData.0')]
            C.check(not bad, 'C01-MUST-writer', '%s|no-raw-value-write' % b.short, '%s writes a character-data value directly (%s) instead of through CharacterData::serialize_internal/escape_text' % (b.short, bad), b.where(p))
    # every stored part of an element is written on EVERY path (not only for some layout mode): the comment test, the
    # attribute writer and the element name are passed on all paths from the entry to the return
    rets = [(bi, ser.nstmts(bi)) for bi in range(len(ser.blocks)) if ser.blocks[bi]['term']['k'] == 'return']
    ctest = [pos for pos, tt in ser.iter_terms() if tt['k'] == 'switch' and is_local_op(tt['d']) and 'ElementRaw.comment' in deep_sources(ser, tt['d'], depth=8)[2]]
    cpush = [p_ for p_ in calls(ser, r'String::push_str$') if 'ElementRaw.comment' in deep_sources(ser, ser.blocks[p_[0]]['term']['args'][1], depth=10)[2]]
    okc = bool(ctest) and bool(cpush) and bool(rets) and must_pass(ser, (0, 0), rets, through=set(ctest))
    if okc:
        # on the Some edge the comment text is always pushed
        tt = ser.blocks[ctest[0][0]]['term']
        some_t = dict(tt['ts']).get('1', tt['else'])
        okc = must_pass(ser, (some_t, 0), rets, through=set(cpush))
    C.check(okc, 'C01-MUST-writer', 'Element::serialize_internal|comment-written-on-every-path', 'the comment of an element is only written on some paths of Element::serialize_internal (e.g. not for inline children of mixed content): a loaded comment is silently dropped by load -> serialize -> load',
            '%s:%d' % (ser.file, ser.line), sample={'fn': 'serialize_internal', 'comment_test_on_every_path': True})
    sac = calls(ser, r'impl Element>::serialize_attributes$')
    C.check(bool(sac) and must_pass(ser, (0, 0), rets, through=set(sac)), 'C01-MUST-writer', 'Element::serialize_internal|attributes-written-on-every-path', 'the attributes of an element are not written on every path of Element::serialize_internal', '%s:%d' % (ser.file, ser.line))
    # attributes: name, =" value "
    qs = []
    for p in calls(sa, r'String::(push_str|push)$'):
        a = sa.blocks[p[0]]['term']['args'][1]
        if isinstance(a, dict) and 'c' in a:
            qs.append(str(a.get('v')))
        else:
            qs.extend(str(k.get('v')) for k in all_sources(sa, a)[2])
    C.check(any('="' in q.replace('\\', '') for q in qs) and any(q in ('"', "'\"'", '34') or q.endswith('"') and len(q) <= 3 for q in qs), 'C01-MUST-writer', 'serialize_attributes|double-quoted', 'attribute values are no longer enclosed in double quotes (the character escape_text escapes)', '%s:%d' % (sa.file, sa.line),
            sample={'fn': 'serialize_attributes', 'constants': qs})
    C.check(bool(calls(sa, r'AttributeName::to_str$')), 'C01-MUST-writer', 'serialize_attributes|name-written', 'attribute names are not written through AttributeName::to_str')
    # every attribute is written: loop over ElementRaw.attributes
    C.check(any('ElementRaw.attributes' in deep_sources(sa, sa.blocks[p[0]]['term']['args'][0], depth=10)[2] for p in calls(sa, r'IntoIterator>::into_iter$|::iter$')), 'C01-MUST-writer', 'serialize_attributes|all-attributes', 'serialize_attributes does not iterate over all attributes of the element')
    # ---------------- SIB-reader ----------------
    pc = P.get('ArxmlParser::parse_character_data')
    aggs = [(pos, s) for pos, s in pc.iter_stmts() if s['k'] == 'assign' and s['rv']['k'] == 'agg' and s['rv'].get('adt') == 'CharacterData' and s['rv'].get('var') == 'String']
    oe = calls(pc, r'ArxmlParser.*::optional_error$')
    n_s = 0
    for pos, s in aggs:
        n_s += 1
        names, cs, _ = all_sources(pc, s['rv']['ops'][0])
        une_ok = any(c.endswith('unescape_string') for c in cs)
        reported = any(pc.pos_dominates(q, pos) and 'Utf8Error' in json.dumps([x for x in [st for p2, st in pc.iter_stmts() if p2[0] == q[0] or True][:0]]) or pc.pos_dominates(q, pos) for q in oe if q[0] != pos[0] or True) if not une_ok else True
        # stricter: for the not-unescaped case require a dominating optional_error AND a from_utf8_lossy source
        if not une_ok:
            reported = any(pc.pos_dominates(q, pos) for q in oe) and any(c.endswith('from_utf8_lossy') for c in cs)
        C.check(une_ok or reported, 'C01-SIB-reader', 'parse_character_data|String#%d|unescaped-or-reported' % n_s, 'parse_character_data stores text that was not passed through unescape_string (and no error was reported on that path): entities stay encoded in the model and are escaped again on output (&amp; grows to &amp;amp; on every load/save cycle)',
                pc.where(pos), sample={'site': pc.where(pos), 'through_unescape_string': une_ok, 'reported_fallback': (not une_ok) and reported})
        # ... and it is the decoded text as it is: nothing is cut off AFTER decoding (the input is trimmed as bytes, by
        # trim_byte_string, before it is decoded; a str::trim on the decoded text also removes U+00A0 / U+3000 and white space that
        # the document wrote as a character reference)
        cut = sorted(c.rsplit('::', 1)[-1] for c in cs if re.search(r'<impl str>::(trim\w*|strip_\w+|split\w*|get|get_unchecked)$|String::(truncate|pop|drain|remove|retain)$|Index<.*Range', c))
        C.check(not cut, 'C01-SIB-reader', 'parse_character_data|String#%d|decoded-text-stored-uncut' % n_s, 'parse_character_data shortens the decoded text before storing it (%s): characters of the value that the document contains '
                '(white space written as a character reference, U+00A0) are lost on load although only insignificant white space may be removed' % ', '.join(cut), pc.where(pos))
    C.floor('C01-SIB-reader.string-sites', n_s, 3)
    # whitespace-preserving kind: the text that is converted in the String arm can be the untrimmed input
    pw = [pos for pos, tt in pc.iter_terms() if tt['k'] == 'switch' and is_local_op(tt['d']) and 'CharacterDataSpec.preserve_whitespace' in '|'.join(deep_sources(pc, tt['d'], depth=8)[2]) or (tt['k'] == 'switch' and is_local_op(tt['d']) and any('preserve_whitespace' in f for f in deep_sources(pc, tt['d'], depth=8)[2]))]
    C.check(len(pw) >= 1, 'C01-SIB-reader', 'parse_character_data|preserve_whitespace-is-tested', 'parse_character_data no longer branches on preserve_whitespace', '%s:%d' % (pc.file, pc.line))
    okraw = False
    raw_sites = 0
    for p in calls(pc, r'str::converts::from_utf8$|str::from_utf8$'):
        t = pc.blocks[p[0]]['term']
        # does the result flow into a String that is unescaped (the String arm), i.e. is an unescape_string call reachable from here without passing another from_utf8?
        if not any(q in pc.reach_from(p) for q in calls(pc, r'unescape_string$')):
            continue
        # origins of the argument: must include the parameter `input` itself (untrimmed) in addition to the trimmed slice
        roots = set()
        work = [t['args'][0]]; seen = set()
        while work:
            o = work.pop()
            if not is_local_op(o) or o['l'] in seen:
                continue
            seen.add(o['l'])
            if 1 <= o['l'] <= pc.argc:
                roots.add(pc.names.get(o['l'], 'arg%d' % o['l']))
                continue
            for q, st in defs_of(pc, o['l']):
                if st['k'] == 'call':
                    roots.add('call:' + (callee_of(st) or '?').rsplit('::', 1)[-1])
                elif st['k'] == 'assign' and st['rv']['k'] in ('use', 'cast'):
                    work.append(st['rv']['o'])
                elif st['k'] == 'assign' and st['rv']['k'] == 'ref':
                    work.append(st['rv']['pl'])
        if 'call:trim_byte_string' in roots:
            raw_sites += 1
            if 'input' in roots:
                okraw = True
    # only the conversion in the String arm matters: the one whose argument has two origins
    C.check(okraw, 'C01-SIB-reader', 'parse_character_data|preserved-text-is-untrimmed', 'in the String arm of parse_character_data the converted text can only be the trimmed slice: for whitespace-preserving string types leading/trailing whitespace of the document is silently dropped',
            '%s:%d' % (pc.file, pc.line), sample={'fn': 'parse_character_data', 'text_origins': ['input (preserve_whitespace)', 'trim_byte_string(input)']})
    # every attribute of the document is stored or reported: inside the attribute loop, from the point where the attribute NAME was
    # recognised, every path to the next iteration passes the push onto the result list or an error / warning funnel
    pa_ = P.get('ArxmlParser::parse_attribute_text')
    pushes_a = [pos for pos, t in pa_.iter_calls() if call_matches(t, r'SmallVec::<A>::push$')]
    fb = calls(pa_, r'AttributeName::from_bytes$')
    okattr = len(pushes_a) == 1 and len(fb) == 1
    if okattr:
        loops_ = [(h, body) for h, body in pa_.natural_loops() if pushes_a[0][0] in body and fb[0][0] in body]
        okattr = bool(loops_)
        if okattr:
            h, body = min(loops_, key=lambda x: len(x[1]))
            sw = switch_edges_on_call_result(pa_, fb[0])
            funnels = set(calls(pa_, r'ArxmlParser.*::(optional_error|error|check_version)$')) | set(pushes_a)
            # Err exits (propagated errors) also leave the loop: returns are not targets; targets = back edges into the header
            back = [(bi, pa_.nstmts(bi)) for bi in body if h in pa_.succs(bi)]
            if sw is None or not back:
                okattr = False
            else:
                ok_t = sw[1].get('0', sw[2])
                # check_version alone does not store: require push or a reporting funnel other than check_version on the Ok(name) side
                through = set(pushes_a) | set(calls(pa_, r'ArxmlParser.*::(optional_error|error)$'))
                okattr = must_pass(pa_, (ok_t, 0), back, through=through)
    C.check(okattr, 'C01-SIB-reader', 'parse_attribute_text|recognised-attribute-is-stored-or-reported', 'parse_attribute_text can go on to the next attribute without having stored the current one and without an error or warning (a data-dependent skip): attributes of the document are silently missing from the loaded model',
            '%s:%d' % (pa_.file, pa_.line), sample={'fn': 'parse_attribute_text', 'per_attribute': 'push(Attribute) or optional_error(..)'})
    # the text handed to the value parser is a slice of the input (nothing is substituted in it before it is decoded: the serializer
    # writes tab / CR / LF in attribute values literally, so a normalisation on load is not undone on save)
    for q in calls(pa_, r'ArxmlParser.*::parse_character_data$'):
        t_ = pa_.blocks[q[0]]['term']
        n_, c_, f_ = deep_sources(pa_, t_['args'][1], depth=14) if len(t_['args']) > 1 else (set(), set(), set())
        rebuilt = sorted(c.rsplit('::', 1)[-1] for c in c_ if re.search(r'Iterator>?::(map|collect|filter|flat_map|cloned|copied)$|::(to_vec|to_owned|into_owned|replace|replacen|concat|join|to_ascii_\w+|to_lowercase|to_uppercase)$|Vec::<T.*>::(push|extend\w*|from)$|FromIterator', c))
        C.check(not rebuilt, 'C01-SIB-reader', 'parse_attribute_text|value-text-is-a-slice-of-the-input', 'parse_attribute_text hands the value parser a text that was rebuilt from the input (%s) instead of a slice of it: characters of the attribute value are changed on load '
                '(e.g. tab / CR / LF -> space) and the value does not survive load -> serialize -> load' % ', '.join(rebuilt), pa_.where(q))
    # attribute values and element text both go through parse_character_data
    pa = P.get('ArxmlParser::parse_attribute_text')
    pe = P.get('ArxmlParser::parse_element')
    C.check(len(calls(pa, r'ArxmlParser.*::parse_character_data$')) >= 1 and len(calls(pe, r'ArxmlParser.*::parse_character_data$')) >= 1, 'C01-SIB-reader', 'attribute-and-element-text-share-the-value-parser', 'attribute values or element text are no longer parsed by parse_character_data')
    # ---------------- SIB-fields ----------------
    def reads(b, field):
        for x in P.with_closures(b):
            for pos, role, pl, st in iter_uses(x):
                if is_local_op(pl) and has_field(pl, field) and not role.startswith('def'):
                    return True
        return False
    ser_bodies = [ser, sa]
    for f in ('elemname', 'attributes', 'content', 'comment'):
        field = 'ElementRaw.' + f
        # written by the parser: the ElementRaw literals in the parser set it from parsed data, or a later store
        lit_ok = False
        for b in (pe, P.get('ArxmlParser::parse_arxml')):
            for pos, s in b.iter_stmts():
                if s['k'] == 'assign' and s['rv']['k'] == 'agg' and s['rv'].get('adt') == 'ElementRaw' and f in s['rv'].get('fields', []):
                    lit_ok = True
        rd = any(reads(b, field) for b in ser_bodies) or (f == 'elemname' and any(calls(b, r'ElementName::to_str$') for b in ser_bodies))
        C.check(lit_ok and rd, 'C01-SIB-fields', 'ElementRaw.%s|stored-by-parser-and-read-by-serializer' % f, 'ElementRaw.%s is %s' % (f, 'not written by the serializer' if lit_ok else 'not stored by the parser'), sample={'field': field, 'parser_stores': lit_ok, 'serializer_reads': rd})
    # the comment is emitted
    fs = P.get('ArxmlFile::serialize')
    lb = P.get('AutosarModel::load_buffer_internal')
    st_w = any(s['k'] == 'assign' and s['rv']['k'] == 'agg' and s['rv'].get('adt') == 'ArxmlFileRaw' and 'xml_standalone' in s['rv'].get('fields', []) for pos, s in lb.iter_stmts())
    st_src = False
    for pos, s in lb.iter_stmts():
        if s['k'] == 'assign' and s['rv']['k'] == 'agg' and s['rv'].get('adt') == 'ArxmlFileRaw':
            lf = dict(zip(s['rv']['fields'], s['rv']['ops']))
            st_src = any(c.endswith('get_standalone') for c in all_sources(lb, lf['xml_standalone'])[1])
    acc = P.find('ArxmlFile::xml_standalone')
    rd_sa = reads(fs, 'ArxmlFileRaw.xml_standalone') or (bool(calls(fs, r'ArxmlFile>::xml_standalone$')) and acc is not None and reads(acc if not isinstance(acc, list) else acc[0], 'ArxmlFileRaw.xml_standalone'))
    C.check(st_w and st_src and rd_sa, 'C01-SIB-fields', 'ArxmlFileRaw.xml_standalone|stored-and-emitted', 'the standalone flag of the XML declaration is not stored by load (from the parser) or not emitted by ArxmlFile::serialize')
    C.check(reads(fs, 'ArxmlFileRaw.version'), 'C01-SIB-fields', 'ArxmlFileRaw.version|emitted', 'ArxmlFile::serialize does not derive the schema location from the file version')
    for f in ('items', 'check_fn', 'max_length', 'preserve_whitespace'):
        ok = any(f in fld.split('.')[-1] for x in P.with_closures(pc) for pos, role, pl, st in iter_uses(x) if is_local_op(pl) for fld in [p_[1:] for p_ in pl['p'] if p_.startswith('.')])
        C.check(ok, 'C01-SIB-fields', 'CharacterDataSpec.%s|read-by-the-value-parser' % f, 'parse_character_data never reads CharacterDataSpec.%s: that column of the specification is ignored while loading' % f, '%s:%d' % (pc.file, pc.line))
    # "a lenient load may omit only what it reports in a warning": whatever the parser drops it drops behind optional_error, and
    # optional_error either fails (strict) or RECORDS - there is no path to its Ok exit around the push onto the warning list
    C.rule('C01-MUST-report', 'ArxmlParser::optional_error reaches an Ok exit only through a push onto ArxmlParser.warnings (no filter, de-duplication or limit in front of the push)')
    oe = P.find('ArxmlParser::optional_error')
    if oe is None:
        C.anchor_missing('C01-MUST-report', 'ArxmlParser::optional_error')
    else:
        import events as _E
        pw = [pos for pos, t in oe.iter_calls() if call_matches(t, r'Vec::<T, A>::push$') and (lambda rp: rp is not None and has_field(rp, 'ArxmlParser.warnings'))(_E.recv_place(oe, t))]
        oks_ = _E.ok_exit_positions(oe)
        C.check(bool(pw) and bool(oks_) and all(must_pass(oe, (0, 0), [o_], through=set(pw)) for o_ in oks_), 'C01-MUST-report', 'optional_error|ok-only-after-the-warning-was-recorded',
                'optional_error can return Ok without having recorded the finding (a condition in front of warnings.push): the caller then skips the offending element / attribute / value, so a lenient load omits content that no warning mentions',
                oe.where(pw[0]) if pw else '%s:%d' % (oe.file, oe.line), sample={'fn': 'optional_error', 'ok_exits': len(oks_), 'pushes': len(pw)})
    return C.finish('Reader/writer agreement: the escaping tables are extracted from the syntax trees of escape_text and unescape_string and compared pair by pair (completeness, inverse, skip length, arm order); '
                    'MIR provenance shows that every stored string went through the unescaper or a reported fallback, that the preserved-whitespace kind converts the untrimmed input, that values are written only through the escaping writer, '
                    'and that every stored field is emitted. Layout, trimming rules, number formatting and byte identity are not decided.')

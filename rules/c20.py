"""C20 - typed values format and parse consistently (STRUCTURAL clauses only).
Decides: the radix-prefix tables of parse_integer and parse_float are the AUTOSAR table (0x/0X -> 16, 0b/0B -> 2, leading 0 -> 8,
otherwise 10 / decimal float), agree with each other, and are tested in an order in which no shorter prefix shadows a longer one
(the literal "0" before the octal arm); the boolean table is {true,1 -> true; false,0 -> false}; every value kind is formatted
with the std formatter whose inverse the value parser uses (u64/f64: to_string <-> str::parse; enum: to_str <-> from_str).
Does NOT decide exactness, rounding or overflow behaviour of the numeric conversions: these are properties of the std parsers
(u64::from_str_radix, f64::from_str, `as f64`) for all texts and are outside a static argument."""
import json, os
from ir import Program, callee_of, callee_generic
from flow import call_matches
from pairing import calls
from framework import Check
from c01 import walk

EXPECT = [('0x', 16), ('0X', 16), ('0b', 2), ('0B', 2), ('0', 8)]


def prefix_chain(fn):
    """ordered list of (prefix, radix) from the if-let strip_prefix chain; plus info about the `text == "0"` special case and the default arm"""
    chain = []
    zero_first = None
    default_radix = None
    default_parse = False
    order = []
    for n in walk(fn['body']):
        if n.get('k') == 'bin' and n.get('op') == '==' and isinstance(n.get('r'), dict) and n['r'].get('k') == 'str' and n['r'].get('v') == '0':
            order.append(('zero', n.get('line', 0)))
        if n.get('k') == 'mcall' and n.get('m') == 'strip_prefix' and n['args'] and n['args'][0].get('k') in ('str', 'char'):
            order.append(('prefix:' + str(n['args'][0]['v']), n.get('line', 0)))
    # radix of each arm: the from_str_radix call textually following the strip_prefix (same if-arm)
    def arms(e):
        # walk the else-if chain
        cur = e
        while isinstance(cur, dict) and cur.get('k') == 'if':
            yield cur
            cur = cur.get('e')
            if isinstance(cur, dict) and cur.get('k') == 'block' and len(cur.get('stmts', [])) == 1 and isinstance(cur['stmts'][0].get('e'), dict) and cur['stmts'][0]['e'].get('k') == 'if':
                cur = cur['stmts'][0]['e']
        if isinstance(cur, dict):
            yield {'k': 'else', 't': cur}
    top = None
    for n in walk(fn['body']):
        if n.get('k') == 'if' and any(x.get('k') == 'bin' and x.get('op') == '==' and isinstance(x.get('r'), dict) and x['r'].get('v') == '0' for x in walk(n.get('c'))):
            top = n
            break
    if top is None:
        return None
    pos = 0
    for arm in arms(top):
        if arm['k'] == 'else':
            rad = [x for x in walk(arm['t']) if x.get('k') == 'call' and str(x.get('f', {}).get('v', '')).endswith('from_str_radix')]
            if rad and rad[0]['args'][1].get('k') == 'int':
                default_radix = rad[0]['args'][1]['v']
            if any(x.get('k') == 'mcall' and x.get('m') == 'parse' for x in walk(arm['t'])):
                default_parse = True
            continue
        cond = arm['c']
        if any(x.get('k') == 'bin' and x.get('op') == '==' and isinstance(x.get('r'), dict) and x['r'].get('v') == '0' for x in walk(cond)):
            zero_first = pos
            pos += 1
            continue
        sp = [x for x in walk(cond) if x.get('k') == 'mcall' and x.get('m') == 'strip_prefix']
        if sp:
            pre = str(sp[0]['args'][0]['v'])
            rad = [x for x in walk(arm) if x.get('k') == 'call' and str(x.get('f', {}).get('v', '')).endswith('from_str_radix')]
            # the radix call belonging to THIS arm: in the condition (parse_float) or in the then-block (parse_integer)
            own = [x for x in walk(cond) if x.get('k') == 'call' and str(x.get('f', {}).get('v', '')).endswith('from_str_radix')] or \
                  [x for x in walk(arm['t']) if x.get('k') == 'call' and str(x.get('f', {}).get('v', '')).endswith('from_str_radix')]
            r = own[0]['args'][1]['v'] if own and own[0]['args'][1].get('k') == 'int' else None
            chain.append((pre, r, pos))
            pos += 1
    return {'chain': chain, 'zero_pos': zero_first, 'default_radix': default_radix, 'default_parse': default_parse}


def run(ctx):
    C = Check('C20', ctx['tier'], 'other', ctx['seed'])
    P = Program(ctx['facts'])
    syn = json.load(open(os.path.join(ctx['facts'], 'syn.json')))['files']
    C.rule('C20-SIB-radix', 'parse_integer and parse_float map the prefixes 0x/0X -> 16, 0b/0B -> 2, leading 0 -> 8 and nothing else; the literal "0" is handled before the octal arm and the two-character prefixes before the one-character prefix; the default arm is radix 10 (integer) / str::parse::<f64> (float); both functions have the same table')
    C.rule('C20-SIB-bool', 'parse_bool maps exactly "true"|"1" to true and "false"|"0" to false')
    C.rule('C20-SIB-format', 'each value kind is written by the std formatter whose inverse the value parser uses: UnsignedInteger u64::to_string <-> str::parse::<u64>, Float f64::to_string <-> str::parse::<f64> (std documents that Display for f64 prints a decimal that parses back to the same value), Enum EnumItem::to_str <-> EnumItem::from_str (tables: C18-DATA-names); Display delegates to the same formatters')
    C.assumptions = ['exactness / correct rounding / overflow detection of u64::from_str_radix, f64::from_str and `u64 as f64` are properties of std and are NOT decided here',
                     'the statement for ALL texts of the lexical forms is not decided; only the prefix/radix/kind tables are']
    cf = syn.get('autosar-data/src/chardata.rs')
    fns = {x['name']: x for x in (cf or {}).get('fns', [])}
    tabs = {}
    for name in ('parse_integer', 'parse_float'):
        if name not in fns:
            C.anchor_missing('C20-SIB-radix', name)
            continue
        t = prefix_chain(fns[name])
        if t is None:
            C.anchor_missing('C20-SIB-radix', name + ': prefix chain')
            continue
        tabs[name] = t
        where = 'autosar-data/src/chardata.rs:%s' % fns[name].get('line', '')
        got = {p: r for p, r, _ in t['chain']}
        for p, r in EXPECT:
            C.check(got.get(p) == r, 'C20-SIB-radix', '%s|prefix %r -> radix %d' % (name, p, r), '%s interprets the prefix %r with radix %s (AUTOSAR: %d): a value in that lexical form is read as a different number' % (name, p, got.get(p), r), where,
                    sample={'fn': name, 'prefix': p, 'radix': got.get(p)} if p == '0x' else None)
        extra = sorted(set(got) - {p for p, _ in EXPECT})
        C.check(not extra, 'C20-SIB-radix', name + '|no-other-prefix', '%s accepts additional radix prefixes %s' % (name, extra), where)
        posn = {p: i for p, r, i in t['chain']}
        ok_order = t['zero_pos'] is not None and '0' in posn and t['zero_pos'] < posn['0'] and all(posn.get(p, 99) < posn['0'] for p in ('0x', '0X', '0b', '0B'))
        C.check(ok_order, 'C20-SIB-radix', name + '|arm-order', 'in %s the one-character prefix "0" (octal) is tested before the literal "0" or before a two-character prefix: "0" would be read as an empty octal number / "0x10" as octal' % name, where,
                sample={'fn': name, 'order': ['"0"' if i == t['zero_pos'] else None for i in range(0)] + [p for p, r, i in sorted(t['chain'], key=lambda x: x[2])]})
        if name == 'parse_integer':
            C.check(t['default_radix'] == 10, 'C20-SIB-radix', name + '|default-decimal', 'the default arm of parse_integer does not parse with radix 10', where)
        else:
            C.check(t['default_parse'], 'C20-SIB-radix', name + '|default-float-parse', 'the default arm of parse_float does not use str::parse (decimal / exponent / INF / NaN forms)', where)
    # the all-digit prefix "0" must not hand a text it recognised on to the decimal arm when the conversion fails (overflow):
    # either the conversion is in the arm's body (failure = None), or the arm's condition selects by the FORM of the text
    # (a digit-class test over the remainder) before converting
    for name in tabs:
        fn_ = fns[name]
        ok_oct = False
        for n in walk(fn_['body']):
            if n.get('k') == 'if' and isinstance(n.get('c'), dict):
                cond = n['c']
                sp = [x for x in walk(cond) if x.get('k') == 'mcall' and x.get('m') == 'strip_prefix' and x['args'] and str(x['args'][0].get('v')) == '0']
                if not sp:
                    continue
                conv_in_cond = any(x.get('k') == 'call' and str(x.get('f', {}).get('v', '')).endswith('from_str_radix') for x in walk(cond))
                form_test = any(x.get('k') == 'mcall' and x.get('m') in ('all', 'any') for x in walk(cond))
                ok_oct = (not conv_in_cond) or form_test
        C.check(ok_oct, 'C20-SIB-radix', name + '|octal-arm-does-not-fall-through-to-decimal', 'in %s a text with the octal prefix whose conversion fails (more than 64 bits) falls through to the decimal arm and is returned as a DIFFERENT number (0200..0 = 2^64 read as 2e21)' % name,
                'autosar-data/src/chardata.rs:%s' % fn_.get('line', ''), sample={'fn': name, 'octal_arm': 'selected by form, conversion failure yields None'})
    if len(tabs) == 2:
        a = [(p, r) for p, r, _ in tabs['parse_integer']['chain']]
        b = [(p, r) for p, r, _ in tabs['parse_float']['chain']]
        C.check(a == b, 'C20-SIB-radix', 'parse_integer-vs-parse_float|same-table', 'parse_integer and parse_float no longer use the same prefix table: %s vs %s' % (a, b))
    # the float variant converts the integer with `as f64` of a u64 (MIR: IntToFloat cast) - evidence
    # ---- bool ----
    pb = fns.get('parse_bool')
    if not pb:
        C.anchor_missing('C20-SIB-bool', 'parse_bool')
    else:
        table = {}
        for n in walk(pb['body']):
            if n.get('k') == 'match':
                for arm in n['arms']:
                    lits_ = [x['v'] for x in walk(arm['pat']) if x.get('k') == 'str']
                    val = [x['v'] for x in walk(arm['body']) if x.get('k') == 'bool']
                    for l in lits_:
                        table[l] = val[0] if val else None
        C.check(table == {'true': True, '1': True, 'false': False, '0': False}, 'C20-SIB-bool', 'parse_bool|table', 'parse_bool maps %s' % table, 'autosar-data/src/chardata.rs:%s' % pb.get('line', ''), sample={'table': table})
    # ---- format <-> parse (MIR: resolved callees) ----
    si = P.get('CharacterData::serialize_internal')
    pa = P.get('CharacterData::parse')
    def has(b, rx):
        return any(call_matches(t, rx) for x in P.with_closures(b) for pos, t in x.iter_calls())
    def cg(b):
        return sorted({(callee_generic(t) or callee_of(t) or '') for x in P.with_closures(b) for pos, t in x.iter_calls()})
    ts = [c for c in cg(si) if 'to_string' in c or 'ToString' in c]
    C.check(has(si, r'ToString>::to_string$|::to_string$') and has(si, r'EnumItem::to_str$'), 'C20-SIB-format', 'serialize_internal|std-formatters', 'CharacterData::serialize_internal no longer formats numbers with to_string / enums with to_str', '%s:%d' % (si.file, si.line),
            sample={'fn': 'serialize_internal', 'formatters': ts[:4]})
    # both numeric kinds are formatted by the std formatter directly (f64: shortest text that parses back to the same value, sign and
    # infinities included); a hand-written number formatter in between is outside what std guarantees
    fmt_types = set()
    for x in P.with_closures(si):
        for pos, t in x.iter_calls():
            if call_matches(t, r'ToString>::to_string$|::to_string$') and t['args'] and 'l' in t['args'][0]:
                ty = (x.local_ty(t['args'][0]['l']) or '')
                for k_ in ('f64', 'u64'):
                    if k_ in ty:
                        fmt_types.add(k_)
    C.check({'f64', 'u64'} <= fmt_types, 'C20-SIB-format', 'serialize_internal|f64-and-u64-through-std-to_string', 'CharacterData::serialize_internal does not format both numeric kinds with the std to_string directly (found %s): a hand-written formatter can lose information (e.g. the sign of -INF)' % sorted(fmt_types),
            '%s:%d' % (si.file, si.line), sample={'fn': 'serialize_internal', 'std_formatted_kinds': sorted(fmt_types)})
    # typed parse: the locals that receive the parse results have types u64 / f64
    ptypes = set()
    for pos, t in pa.iter_calls():
        if call_matches(t, r'str>?::parse$|core::str::<impl str>::parse$'):
            ty = pa.local_ty(t['dst']['l']) or ''
            ptypes.add('u64' if 'u64' in ty else 'f64' if 'f64' in ty else ty)
    C.check({'u64', 'f64'} <= ptypes, 'C20-SIB-format', 'parse|typed-std-parsers', 'CharacterData::parse does not parse UnsignedInteger with str::parse::<u64> and Float with str::parse::<f64> (found %s)' % sorted(ptypes), '%s:%d' % (pa.file, pa.line),
            sample={'fn': 'CharacterData::parse', 'parsers': sorted(ptypes)})
    C.check(has(pa, r'EnumItem as .*FromStr>::from_str$'), 'C20-SIB-format', 'parse|enum-from_str', 'CharacterData::parse does not read enum values with EnumItem::from_str')
    # the loader uses the same typed parsers
    pc = P.get('ArxmlParser::parse_character_data')
    ptypes2 = set()
    for pos, t in pc.iter_calls():
        if call_matches(t, r'str>?::parse$|core::str::<impl str>::parse$'):
            ty = pc.local_ty(t['dst']['l']) or ''
            ptypes2.add('u64' if 'u64' in ty else 'f64' if 'f64' in ty else ty)
    C.check({'u64', 'f64'} <= ptypes2, 'C20-SIB-format', 'loader|typed-std-parsers', 'the loader does not parse numbers with str::parse::<u64> / <f64> (found %s)' % sorted(ptypes2), '%s:%d' % (pc.file, pc.line))
    # Display delegates to the same formatting
    dp = P.find('<CharacterData as Display>::fmt') or P.find('<CharacterData as std::fmt::Display>::fmt')
    if dp is None:
        cand = [b for b in P.bodies.values() if b.crate == 'autosar_data' and 'Display' in b.short and 'CharacterData' in b.short]
        dp = cand[0] if cand else None
    if dp is None:
        C.anchor_missing('C20-SIB-format', 'Display for CharacterData')
    else:
        C.check(has(dp, r'EnumItem::to_str$|Display>::fmt$|Formatter.*::write_str$|write_fmt$'), 'C20-SIB-format', 'Display|delegates', 'Display for CharacterData does not delegate to the std formatters', '%s:%d' % (dp.file, dp.line))
    return C.finish('Sibling-table agreement only: the prefix/radix tables are extracted from the syntax trees of parse_integer and parse_float and compared with the AUTOSAR table and with each other (values, completeness, arm order); '
                    'the boolean table likewise; MIR-resolved callees show that each kind is formatted and parsed by an inverse pair of std routines. Numeric exactness is delegated to std and not decided.')

"""C20 - typed values format and parse consistently (STRUCTURAL clauses only).
Decides: the radix-prefix tables of parse_integer and parse_float are the AUTOSAR table (0x/0X -> 16, 0b/0B -> 2, leading 0 -> 8,
otherwise 10 / decimal float), agree with each other, and are tested in an order in which no shorter prefix shadows a longer one
(the literal "0" before the octal arm); the boolean table is {true,1 -> true; false,0 -> false}; every value kind is formatted
with the std formatter whose inverse the value parser uses (u64/f64: to_string <-> str::parse; enum: to_str <-> from_str).
Does NOT decide exactness, rounding or overflow behaviour of the numeric conversions: these are properties of the std parsers
(u64::from_str_radix, f64::from_str, `as f64`) for all texts and are outside a static argument."""
import json, os, re
from ir import Program, callee_of, callee_generic
from flow import call_matches
from pairing import calls
from framework import Check
from c01 import walk

EXPECT = [('0x', 16), ('0X', 16), ('0b', 2), ('0B', 2), ('0', 8)]


def prefix_chain(fn):
    """ordered list of (prefix, radix) from the if-let strip_prefix chain; plus info about the `text == "0"` special case and the default arm"""
    chain = []
    zero_first = None
    default_radix = None
    default_parse = False
    order = []
    for n in walk(fn['body']):
        if n.get('k') == 'bin' and n.get('op') == '==' and isinstance(n.get('r'), dict) and n['r'].get('k') == 'str' and n['r'].get('v') == '0':
            order.append(('zero', n.get('line', 0)))
        if n.get('k') == 'mcall' and n.get('m') == 'strip_prefix' and n['args'] and n['args'][0].get('k') in ('str', 'char'):
            order.append(('prefix:' + str(n['args'][0]['v']), n.get('line', 0)))
    # radix of each arm: the from_str_radix call textually following the strip_prefix (same if-arm)
    def arms(e):
        # walk the else-if chain
        cur = e
        while isinstance(cur, dict) and cur.get('k') == 'if':
            yield cur
            cur = cur.get('e')
            if isinstance(cur, dict) and cur.get('k') == 'block' and len(cur.get('stmts', [])) == 1 and isinstance(cur['stmts'][0].get('e'), dict) and cur['stmts'][0]['e'].get('k') == 'if':
                cur = cur['stmts'][0]['e']
        if isinstance(cur, dict):
            yield {'k': 'else', 't': cur}
    top = None
    for n in walk(fn['body']):
        if n.get('k') == 'if' and any(x.get('k') == 'bin' and x.get('op') == '==' and isinstance(x.get('r'), dict) and x['r'].get('v') == '0' for x in walk(n.get('c'))):
            top = n
            break
    pos = 0
    for arm in (arms(top) if top is not None else []):
        if arm['k'] == 'else':
            rad = [x for x in walk(arm['t']) if x.get('k') == 'call' and str(x.get('f', {}).get('v', '')).endswith('from_str_radix')]
            if rad and rad[0]['args'][1].get('k') == 'int':
                default_radix = rad[0]['args'][1]['v']
            if any(x.get('k') == 'mcall' and x.get('m') == 'parse' for x in walk(arm['t'])):
                default_parse = True
            continue
        cond = arm['c']
        if any(x.get('k') == 'bin' and x.get('op') == '==' and isinstance(x.get('r'), dict) and x['r'].get('v') == '0' for x in walk(cond)):
            zero_first = pos
            pos += 1
            continue
        sp = [x for x in walk(cond) if x.get('k') == 'mcall' and x.get('m') == 'strip_prefix']
        if sp:
            pre = str(sp[0]['args'][0]['v'])
            rad = [x for x in walk(arm) if x.get('k') == 'call' and str(x.get('f', {}).get('v', '')).endswith('from_str_radix')]
            # the radix call belonging to THIS arm: in the condition (parse_float) or in the then-block (parse_integer)
            own = [x for x in walk(cond) if x.get('k') == 'call' and str(x.get('f', {}).get('v', '')).endswith('from_str_radix')] or \
                  [x for x in walk(arm['t']) if x.get('k') == 'call' and str(x.get('f', {}).get('v', '')).endswith('from_str_radix')]
            r = own[0]['args'][1]['v'] if own and own[0]['args'][1].get('k') == 'int' else None
            chain.append((pre, r, pos))
            pos += 1
    return {'chain': chain, 'zero_pos': zero_first, 'default_radix': default_radix, 'default_parse': default_parse, 'order': order}


def _const_of(b, o):
    from flow import const_val, is_local_op, origins
    if not is_local_op(o):
        return const_val(o)
    vals = {str(const_val(org[1])) for org in origins(b, o) if org[0] == 'const'}
    oth = [org for org in origins(b, o) if org[0] != 'const']
    return vals.pop() if len(vals) == 1 and not oth else None


def _tuple_component_of_param(x, o):
    """operand o of closure body x is component i of the closure's (tuple / reference to tuple) parameter: returns i"""
    from flow import origins, is_local_op, defs_of
    if not is_local_op(o):
        return None
    seen = set()
    work = [o]
    while work:
        cur = work.pop()
        if not is_local_op(cur) or (cur['l'], tuple(cur['p'])) in seen:
            continue
        seen.add((cur['l'], tuple(cur['p'])))
        if 2 <= cur['l'] <= x.argc:
            for pr in cur['p']:
                m = re.match(r'^\.(\d+)$', pr)
                if m:
                    return int(m.group(1))
        for q, d in defs_of(x, cur['l']):
            if d['k'] == 'assign' and d['rv']['k'] in ('use', 'cast'):
                src = d['rv']['o']
                if is_local_op(src):
                    work.append({'l': src['l'], 'p': list(src['p']) + [p_ for p_ in cur['p'] if p_ != '*']})
            elif d['k'] == 'assign' and d['rv']['k'] == 'ref':
                src = d['rv']['pl']
                work.append({'l': src['l'], 'p': list(src['p']) + [p_ for p_ in cur['p'] if p_ != '*']})
    return None


def _tuple_component_via_upvar(x, y, o):
    """operand o of the nested closure y is a captured variable of x that is a component of x's parameter"""
    from flow import upvar_names
    names = upvar_names(y, o)
    for l, n in x.names.items():
        if n in names:
            c = _tuple_component_of_param(x, {'l': l, 'p': []})
            if c is not None:
                return c
    return None


def _const_tuple_arrays(P, b):
    """literal arrays of tuples of constants in b (or promoted): list of list of tuples (str for &str/char constants, int for integers)"""
    from flow import const_val, is_local_op, defs_of
    out = []
    for x in P.with_closures(b):
        for q, st in x.iter_stmts():
            if st['k'] == 'assign' and st['rv']['k'] == 'agg' and st['rv'].get('ak') == 'array':
                arr = []
                for o in st['rv']['ops']:
                    tup = None
                    if is_local_op(o):
                        for q2, d in defs_of(x, o['l']):
                            if d['k'] == 'assign' and d['rv']['k'] == 'agg' and d['rv'].get('ak') == 'tuple':
                                tup = []
                                for e in d['rv']['ops']:
                                    c = _const_of(x, e)
                                    if c is None:
                                        tup.append(None)
                                    elif re.match(r'^\d+(_[iu]\d+|_usize)?$', c):
                                        tup.append(int(re.sub(r'_.*$', '', c)))
                                    else:
                                        tup.append(c.strip('"').strip("'"))
                    if tup is not None:
                        arr.append(tup)
                if arr:
                    out.append(arr)
    return out


def mir_radix_table(P, b):
    """{prefix: set of radix constants} from the MIR of b (with its closures): for every `text.strip_prefix(<const>)` the radix constants
    that reach a from_str_radix call on the way that starts at the Some edge of that test and ends at the next prefix test -
    (a) a from_str_radix call with a constant radix inside that region, (b) a constant stored inside that region into a local that a
    later from_str_radix call reads its radix from (`(digits, 16)` ... `from_str_radix(digits, radix)`), (c) a from_str_radix call with a
    constant radix inside a closure that is applied to the test's result (`strip_prefix(p).and_then(|d| from_str_radix(d, 16).ok())`).
    Also returns the order facts: positions of the tests and of the `== "0"` comparison."""
    from flow import const_val, is_local_op, origins, source_locals, forward_taint
    tests = []
    for pos, t in b.iter_calls():
        if call_matches(t, r'str>::strip_prefix$') and len(t['args']) > 1:
            c = _const_of(b, t['args'][1])
            if c is not None:
                tests.append((pos, t, c.strip('"').strip("'")))
    test_pos = {pos for pos, t, c in tests}
    conv = [(pos, t) for pos, t in b.iter_calls() if call_matches(t, r'from_str_radix$') and len(t['args']) > 1]
    table = {}
    alias = {}
    extra_tests = []
    for pos, t, pre in tests:
        rad = set()
        # Some edge of the test: the switch on the discriminant of the result (directly or after moves)
        tl = forward_taint(b, {t['dst']['l']}, through_refs=False)
        # Option::filter / inspect keep the payload: `strip_prefix('0').filter(|d| all digits)` is still "the text had this prefix"
        grew = True
        while grew:
            grew = False
            for q, t2 in b.iter_calls():
                if call_matches(t2, r'Option::<T>::(filter|inspect|take_if|or_else|or)$') and t2['args'] and is_local_op(t2['args'][0]) and t2['args'][0]['l'] in tl and t2['dst']['l'] not in tl:
                    tl |= forward_taint(b, {t2['dst']['l']}, through_refs=False)
                    grew = True
                    # `strip_prefix("0x").or_else(|| text.strip_prefix("0X"))`: the alternative prefix shares what follows
                    if call_matches(t2, r'or_else$') and len(t2['args']) > 1:
                        for org in origins(b, t2['args'][1]):
                            if org[0] not in ('param', 'const', 'place') and org[1].get('k') == 'assign' and org[1]['rv']['k'] == 'agg' and org[1]['rv'].get('ak') == 'closure':
                                cb = P.bodies.get(org[1]['rv'].get('fn'))
                                for q3, t3 in (cb.iter_calls() if cb is not None else []):
                                    if call_matches(t3, r'str>::strip_prefix$') and len(t3['args']) > 1 and _const_of(cb, t3['args'][1]) is not None:
                                        alias.setdefault(pre, set()).add(_const_of(cb, t3['args'][1]).strip('"').strip("'"))
        some_t = None
        for q, st in b.iter_stmts():
            if st['k'] == 'assign' and st['rv']['k'] == 'discr' and st['rv']['pl']['l'] in tl and not st['rv']['pl']['p']:
                sw = b.blocks[q[0]]['term']
                if sw['k'] == 'switch':
                    d = dict(sw['ts'])
                    some_t = d.get('1', sw['else'] if '0' in d else None)
        if some_t is not None:
            region = b.reach_from((some_t, 0), include_start=True, avoid=test_pos)
            for cp, ct in conv:
                if cp not in region:
                    continue
                c = _const_of(b, ct['args'][1])
                if c is not None:
                    rad.add(c)
                else:
                    want = source_locals(b, ct['args'][1])
                    for q, st in b.iter_stmts():
                        if q in region and st['k'] == 'assign' and st['dst']['l'] in want:
                            if st['rv']['k'] == 'use' and not is_local_op(st['rv']['o']) and 'u32' in str(const_val(st['rv']['o'])):
                                rad.add(str(const_val(st['rv']['o'])))
                            if st['rv']['k'] == 'agg':
                                for o in st['rv']['ops']:
                                    if not is_local_op(o) and 'u32' in str(const_val(o)):
                                        rad.add(str(const_val(o)))
        # (c) closures applied to the result
        for q, t2 in b.iter_calls():
            if call_matches(t2, r'Option::<T>::(and_then|map|map_or|map_or_else|is_some_and|filter)$') and t2['args'] and is_local_op(t2['args'][0]) and t2['args'][0]['l'] in tl:
                for a in t2['args'][1:]:
                    for org in origins(b, a) if is_local_op(a) else []:
                        if org[0] not in ('param', 'const', 'place') and org[1].get('k') == 'assign' and org[1]['rv']['k'] == 'agg' and org[1]['rv'].get('ak') == 'closure':
                            cb = P.bodies.get(org[1]['rv'].get('fn'))
                            for cp, ct in (cb.iter_calls() if cb is not None else []):
                                if call_matches(ct, r'from_str_radix$') and len(ct['args']) > 1 and _const_of(cb, ct['args'][1]) is not None:
                                    rad.add(_const_of(cb, ct['args'][1]))
        table.setdefault(pre, set()).update(int(re.sub(r'_u32$', '', r)) for r in rad if re.match(r'^\d+(_u32)?$', r))
        for other in alias.get(pre, ()):
            table.setdefault(other, set()).update(table[pre])
            extra_tests.append((pos, other))
    # data-driven form: `[("0x", 16), ("0X", 16), ..].iter().find_map(|(prefix, radix)| text.strip_prefix(prefix).and_then(|d| from_str_radix(d, *radix).ok()))`
    # the table is the literal array; the closure must use component i as the prefix and component j as the radix
    for x in P.with_closures(b):
        if x.kind != 'Closure':
            continue
        for q, t in x.iter_calls():
            if call_matches(t, r'str>::strip_prefix$') and len(t['args']) > 1 and _const_of(x, t['args'][1]) is None:
                ci = _tuple_component_of_param(x, t['args'][1])
                cj = None
                for y in [x] + P.closures_of(x):
                    for q2, t2 in y.iter_calls():
                        if call_matches(t2, r'from_str_radix$') and len(t2['args']) > 1 and _const_of(y, t2['args'][1]) is None:
                            cj = _tuple_component_of_param(y, t2['args'][1]) if y is x else _tuple_component_via_upvar(x, y, t2['args'][1])
                if ci is None or cj is None:
                    continue
                for arr in _const_tuple_arrays(P, b):
                    for tup in arr:
                        if ci < len(tup) and cj < len(tup) and isinstance(tup[ci], str) and isinstance(tup[cj], int):
                            table.setdefault(tup[ci], set()).add(tup[cj])
                            # the table scan happens where the closure is applied: use the position of the adaptor call in b
                            for q3, t3 in b.iter_calls():
                                if any(is_local_op(a_) and any(o_[0] not in ('param', 'const', 'place') and o_[1].get('k') == 'assign' and o_[1]['rv']['k'] == 'agg' and o_[1]['rv'].get('fn') == x.id for o_ in origins(b, a_)) for a_ in t3['args']):
                                    extra_tests.append((q3, tup[ci]))
    # default arm: conversions reachable from the entry when every test fails = not inside any Some region
    zero_cmp = [pos for pos, t in b.iter_calls() if call_matches(t, r'PartialEq.*::eq$|::eq$') and any(_const_of(b, a) in ('"0"',) or any(org[0] == 'const' and str(const_val(org[1])) == '"0"' for org in (origins(b, a) if is_local_op(a) else [])) for a in t['args'])]
    if not zero_cmp:
        # `text == "0"` compares through references to constants: look for a promoted constant "0" among the deep origins
        for pos, t in b.iter_calls():
            if call_matches(t, r'PartialEq.*::eq$') and len(t['args']) == 2:
                for a in t['args']:
                    for org in origins(b, a) if is_local_op(a) else []:
                        if org[0] not in ('param', 'const', 'place') and org[1].get('k') == 'assign' and org[1]['rv']['k'] == 'ref':
                            for o2 in origins(b, {'l': org[1]['rv']['pl']['l'], 'p': []}):
                                if o2[0] == 'const' and str(const_val(o2[1])) == '"0"':
                                    zero_cmp.append(pos)
    allrad = set()
    for cp, ct in conv:
        c = _const_of(b, ct['args'][1])
        if c is not None:
            allrad.add(c)
        else:
            want = source_locals(b, ct['args'][1])
            for q, st in b.iter_stmts():
                if st['k'] == 'assign' and st['dst']['l'] in want:
                    for o in ([st['rv']['o']] if st['rv']['k'] == 'use' else st['rv'].get('ops', [])):
                        if not is_local_op(o) and 'u32' in str(const_val(o)):
                            allrad.add(str(const_val(o)))
    allrad = {int(re.sub(r'_u32$', '', r)) for r in allrad if re.match(r'^\d+(_u32)?$', r)}
    return {'table': table, 'tests': [(pos, pre) for pos, t, pre in tests] + extra_tests, 'zero_cmp': zero_cmp, 'conv': conv, 'all_radix': allrad}


def run(ctx):
    C = Check('C20', ctx['tier'], 'other', ctx['seed'])
    P = Program(ctx['facts'])
    syn = json.load(open(os.path.join(ctx['facts'], 'syn.json')))['files']
    C.rule('C20-SIB-radix', 'parse_integer and parse_float map the prefixes 0x/0X -> 16, 0b/0B -> 2, leading 0 -> 8 and nothing else; the literal "0" is handled before the octal arm and the two-character prefixes before the one-character prefix; the default arm is radix 10 (integer) / str::parse::<f64> (float); both functions have the same table')
    C.rule('C20-SIB-bool', 'parse_bool maps exactly "true"|"1" to true and "false"|"0" to false')
    C.rule('C20-SIB-format', 'each value kind is written by the std formatter whose inverse the value parser uses: UnsignedInteger u64::to_string <-> str::parse::<u64>, Float f64::to_string <-> str::parse::<f64> (std documents that Display for f64 prints a decimal that parses back to the same value), Enum EnumItem::to_str <-> EnumItem::from_str (tables: C18-DATA-names); Display delegates to the same formatters')
    C.assumptions = ['exactness / correct rounding / overflow detection of u64::from_str_radix, f64::from_str and `u64 as f64` are properties of std and are NOT decided here',
                     'the statement for ALL texts of the lexical forms is not decided; only the prefix/radix/kind tables are']
    cf = syn.get('autosar-data/src/chardata.rs')
    fns = {x['name']: x for x in (cf or {}).get('fns', [])}
    tabs = {}
    for name in ('parse_integer', 'parse_float'):
        if name not in fns:
            C.anchor_missing('C20-SIB-radix', name)
            continue
        t = prefix_chain(fns[name])
        if t is None:
            C.anchor_missing('C20-SIB-radix', name + ': prefix chain')
            continue
        tabs[name] = t
        where = 'autosar-data/src/chardata.rs:%s' % fns[name].get('line', '')
        mb = P.get('CharacterData::' + name)
        mt = mir_radix_table(P, mb)
        tabs[name]['mir'] = {p_: sorted(r_) for p_, r_ in mt['table'].items()}
        got = mt['table']
        for p, r in EXPECT:
            C.check(got.get(p) == {r}, 'C20-SIB-radix', '%s|prefix %r -> radix %d' % (name, p, r), '%s interprets the prefix %r with radix %s (AUTOSAR: %d): a value in that lexical form is read as a different number' % (name, p, sorted(got.get(p, [])), r), where,
                    sample={'fn': name, 'prefix': p, 'radix': sorted(got.get(p, []))} if p == '0x' else None)
        extra = sorted(set(got) - {p for p, _ in EXPECT})
        C.check(not extra, 'C20-SIB-radix', name + '|no-other-prefix', '%s accepts additional radix prefixes %s' % (name, extra), where)
        # order: every two-character prefix test dominates the test for the one-character prefix "0" (which would shadow it), and the
        # literal "0" is compared (source order) before the octal test
        tp = {pre: pos for pos, pre in mt['tests']}
        src = [k for k, ln in sorted(set((k, ln) for k, ln in t['order']), key=lambda x: x[1])]
        zero_first = 'zero' in src and 'prefix:0' in src and src.index('zero') < src.index('prefix:0')
        if not zero_first and '0' in tp:
            # the prefix tests live in a helper (inlined here): the comparison with the literal "0" dominates the octal prefix test
            from flow import origins as _og20
            def _is_zero_lit(a):
                if not isinstance(a, dict):
                    return False
                if 'l' not in a:
                    return str(a.get('v')) in ('"0"', "'0'")
                return any(og[0] == 'const' and str(og[1].get('v')) == '"0"' for og in _og20(mb, a))
            zl = [pos for pos, t_ in mb.iter_calls() if call_matches(t_, r'PartialEq.*::(eq|ne)$|cmp::PartialEq::(eq|ne)$') and any(_is_zero_lit(a) for a in t_['args'])]
            if not zl and 'zero' in src and 'prefix:0' not in src:
                # the literal is a promoted constant in the MIR; the syntax tree of this function has the comparison with "0", the prefix
                # chain is in an inlined helper: a text comparison (String / str operands) that dominates the octal prefix test
                zl = [pos for pos, t_ in mb.iter_calls() if call_matches(t_, r'PartialEq.*::(eq|ne)$|cmp::PartialEq::(eq|ne)$')
                      and all(isinstance(a, dict) and 'l' in a and re.search(r'\bstr\b|String', mb.local_ty(a['l']) or '') for a in t_['args'])]
            zero_first = any(mb.pos_dominates(z, tp['0']) for z in zl)
        ok_order = zero_first and '0' in tp and all(p in tp and mb.pos_dominates(tp[p], tp['0']) for p in ('0x', '0X', '0b', '0B'))
        C.check(ok_order, 'C20-SIB-radix', name + '|arm-order', 'in %s the one-character prefix "0" (octal) is tested before the literal "0" or before a two-character prefix: "0" would be read as an empty octal number / "0x10" as octal' % name, where,
                sample={'fn': name, 'order': src})
        if name == 'parse_integer':
            in_arms = set().union(*got.values()) if got else set()
            C.check(10 in mt['all_radix'] and 10 not in in_arms, 'C20-SIB-radix', name + '|default-decimal', 'the default arm of parse_integer does not parse with radix 10', where)
        else:
            C.check(t['default_parse'] or bool(calls(mb, r'str>::parse$|<impl str>::parse$')), 'C20-SIB-radix', name + '|default-float-parse', 'the default arm of parse_float does not use str::parse (decimal / exponent / INF / NaN forms)', where)
    # the all-digit prefix "0" must not hand a text it recognised on to the decimal arm when the conversion fails (overflow):
    # either the conversion is in the arm's body (failure = None), or the arm's condition selects by the FORM of the text
    # (a digit-class test over the remainder) before converting
    for name in tabs:
        fn_ = fns[name]
        ok_oct = False
        # the chain may live in a helper of the same file that this function calls (`let (radix, digits) = split_radix_prefix(text)`)
        bodies_ = [fn_['body']]
        for n in walk(fn_['body']):
            if n.get('k') == 'call' and isinstance(n.get('f'), dict):
                hn = str(n['f'].get('v', '')).split('::')[-1]
                if hn in fns and hn != name and fns[hn]['body'] not in bodies_:
                    bodies_.append(fns[hn]['body'])
        for n in (x for b_ in bodies_ for x in walk(b_)):
            if n.get('k') == 'if' and isinstance(n.get('c'), dict):
                cond = n['c']
                sp = [x for x in walk(cond) if x.get('k') == 'mcall' and x.get('m') == 'strip_prefix' and x['args'] and str(x['args'][0].get('v')) == '0']
                if not sp:
                    continue
                conv_in_cond = any(x.get('k') == 'call' and str(x.get('f', {}).get('v', '')).endswith('from_str_radix') for x in walk(cond))
                form_test = any(x.get('k') == 'mcall' and x.get('m') in ('all', 'any') for x in walk(cond))
                ok_oct = (not conv_in_cond) or form_test
        C.check(ok_oct, 'C20-SIB-radix', name + '|octal-arm-does-not-fall-through-to-decimal', 'in %s a text with the octal prefix whose conversion fails (more than 64 bits) falls through to the decimal arm and is returned as a DIFFERENT number (0200..0 = 2^64 read as 2e21)' % name,
                'autosar-data/src/chardata.rs:%s' % fn_.get('line', ''), sample={'fn': name, 'octal_arm': 'selected by form, conversion failure yields None'})
    if len(tabs) == 2:
        a = sorted(tabs['parse_integer'].get('mir', {}).items())
        b = sorted(tabs['parse_float'].get('mir', {}).items())
        C.check(a == b, 'C20-SIB-radix', 'parse_integer-vs-parse_float|same-table', 'parse_integer and parse_float no longer use the same prefix table: %s vs %s' % (a, b))
    # the float variant converts the integer with `as f64` of a u64 (MIR: IntToFloat cast) - evidence
    # ---- bool ----
    pb = fns.get('parse_bool')
    if not pb:
        C.anchor_missing('C20-SIB-bool', 'parse_bool')
    else:
        table = {}
        for n in walk(pb['body']):
            if n.get('k') == 'match':
                for arm in n['arms']:
                    lits_ = [x['v'] for x in walk(arm['pat']) if x.get('k') == 'str']
                    val = [x['v'] for x in walk(arm['body']) if x.get('k') == 'bool']
                    for l in lits_:
                        table[l] = val[0] if val else None
        C.check(table == {'true': True, '1': True, 'false': False, '0': False}, 'C20-SIB-bool', 'parse_bool|table', 'parse_bool maps %s' % table, 'autosar-data/src/chardata.rs:%s' % pb.get('line', ''), sample={'table': table})
    # ---- format <-> parse (MIR: resolved callees) ----
    si = P.get('CharacterData::serialize_internal')
    pa = P.get('CharacterData::parse')
    def has(b, rx):
        return any(call_matches(t, rx) for x in P.with_closures(b) for pos, t in x.iter_calls())
    def cg(b):
        return sorted({(callee_generic(t) or callee_of(t) or '') for x in P.with_closures(b) for pos, t in x.iter_calls()})
    ts = [c for c in cg(si) if 'to_string' in c or 'ToString' in c]
    C.check(has(si, r'ToString>::to_string$|::to_string$|fmt::rt::Argument::<.*>::new_display') and has(si, r'EnumItem::to_str$'), 'C20-SIB-format', 'serialize_internal|std-formatters', 'CharacterData::serialize_internal no longer formats numbers with to_string / enums with to_str', '%s:%d' % (si.file, si.line),
            sample={'fn': 'serialize_internal', 'formatters': ts[:4]})
    # both numeric kinds are formatted by the std formatter directly (f64: shortest text that parses back to the same value, sign and
    # infinities included); a hand-written number formatter in between is outside what std guarantees
    fmt_types = set()
    for x in P.with_closures(si):
        for pos, t in x.iter_calls():
            if call_matches(t, r'ToString>::to_string$|::to_string$') and t['args'] and 'l' in t['args'][0]:
                ty = (x.local_ty(t['args'][0]['l']) or '')
                for k_ in ('f64', 'u64'):
                    if k_ in ty:
                        fmt_types.add(k_)
            # `write!(out, "{v}")` / `format!("{v}")`: the same Display implementation that to_string() runs, handed over as a format argument
            if call_matches(t, r'fmt::rt::Argument::<.*>::new_display') and t['args'] and 'l' in t['args'][0]:
                ty = (x.local_ty(t['args'][0]['l']) or '').replace('&', '').strip()
                if ty in ('f64', 'u64'):
                    fmt_types.add(ty)
    # ... through Display only: `{:e}` / `{:.15e}` / `{:?}` are other formatters (an exponent format with a fixed precision rounds to fewer
    # digits than f64 needs to parse back to the same value)
    other_fmt = []
    for x in P.with_closures(si):
        for pos, t in x.iter_calls():
            if call_matches(t, r'fmt::rt::Argument::<.*>::new_(lower_exp|upper_exp|debug|lower_hex|upper_hex|octal|binary|pointer)') and t['args'] and 'l' in t['args'][0]:
                ty = (x.local_ty(t['args'][0]['l']) or '').replace('&', '').strip()
                if ty in ('f64', 'u64', 'f32', 'u32', 'i64'):
                    other_fmt.append(x.where(pos))
    C.check(not other_fmt, 'C20-SIB-format', 'serialize_internal|numbers-through-display-only', 'CharacterData::serialize_internal (or a helper of it) formats a number with a formatter other than Display (exponent / debug / radix format): '
            'the text need not parse back to the same value (a fixed-precision exponent format keeps 16 of the 17 significant digits an f64 can need)', other_fmt[0] if other_fmt else '')
    # ... and by nothing else: a literal text produced in the serializer (or in a helper it calls, which is inlined) in place of a formatted
    # number is a hand-written formatter (`if v.is_infinite() { "INF" }` loses the sign of -INF)
    lit_fmt = []
    for x in P.with_closures(si):
        for pos, t in x.iter_calls():
            if call_matches(t, r'ToString>::to_string$|::to_string$|ToOwned>::to_owned$|String as .*From<&str>>::from$') and t['args'] and 'l' in t['args'][0]:
                ty = (x.local_ty(t['args'][0]['l']) or '')
                if ty.replace('&', '').replace("'static ", '').strip() == 'str':
                    lit_fmt.append(x.where(pos))
    C.check(not lit_fmt, 'C20-SIB-format', 'serialize_internal|no-literal-number-text', 'CharacterData::serialize_internal (or a helper of it) emits a literal text where a value is formatted: a hand-written number formatter can lose information (e.g. the sign of -INF written as "INF")', lit_fmt[0] if lit_fmt else '')
    C.check({'f64', 'u64'} <= fmt_types, 'C20-SIB-format', 'serialize_internal|f64-and-u64-through-std-to_string', 'CharacterData::serialize_internal does not format both numeric kinds with the std to_string directly (found %s): a hand-written formatter can lose information (e.g. the sign of -INF)' % sorted(fmt_types),
            '%s:%d' % (si.file, si.line), sample={'fn': 'serialize_internal', 'std_formatted_kinds': sorted(fmt_types)})
    # typed parse: the locals that receive the parse results have types u64 / f64
    ptypes = set()
    for pos, t in pa.iter_calls():
        if call_matches(t, r'str>?::parse$|core::str::<impl str>::parse$'):
            ty = pa.local_ty(t['dst']['l']) or ''
            ptypes.add('u64' if 'u64' in ty else 'f64' if 'f64' in ty else ty)
    C.check({'u64', 'f64'} <= ptypes, 'C20-SIB-format', 'parse|typed-std-parsers', 'CharacterData::parse does not parse UnsignedInteger with str::parse::<u64> and Float with str::parse::<f64> (found %s)' % sorted(ptypes), '%s:%d' % (pa.file, pa.line),
            sample={'fn': 'CharacterData::parse', 'parsers': sorted(ptypes)})
    C.check(has(pa, r'EnumItem as .*FromStr>::from_str$'), 'C20-SIB-format', 'parse|enum-from_str', 'CharacterData::parse does not read enum values with EnumItem::from_str')
    # the loader uses the same typed parsers
    pc = P.get('ArxmlParser::parse_character_data')
    ptypes2 = set()
    for pos, t in pc.iter_calls():
        if call_matches(t, r'str>?::parse$|core::str::<impl str>::parse$'):
            ty = pc.local_ty(t['dst']['l']) or ''
            ptypes2.add('u64' if 'u64' in ty else 'f64' if 'f64' in ty else ty)
    C.check({'u64', 'f64'} <= ptypes2, 'C20-SIB-format', 'loader|typed-std-parsers', 'the loader does not parse numbers with str::parse::<u64> / <f64> (found %s)' % sorted(ptypes2), '%s:%d' % (pc.file, pc.line))
    # Display delegates to the same formatting
    dp = P.find('<CharacterData as Display>::fmt') or P.find('<CharacterData as std::fmt::Display>::fmt')
    if dp is None:
        cand = [b for b in P.bodies.values() if b.crate == 'autosar_data' and 'Display' in b.short and 'CharacterData' in b.short]
        dp = cand[0] if cand else None
    if dp is None:
        C.anchor_missing('C20-SIB-format', 'Display for CharacterData')
    else:
        C.check(has(dp, r'EnumItem::to_str$|Display>::fmt$|Formatter.*::write_str$|write_fmt$'), 'C20-SIB-format', 'Display|delegates', 'Display for CharacterData does not delegate to the std formatters', '%s:%d' % (dp.file, dp.line))
    # a String value is formatted by escape_text and parsed back by unescape_string: the two tables are inverse (shared with C01 / C07)
    C.rule('C20-SIB-escape', 'the text written for a String value (escape_text) is read back to the same value by the loader (unescape_string): writer and reader escaping tables are inverse and complete, and the writer\'s fast path tests every character the table escapes')
    from c01 import escape_rules
    escape_rules(C, P, json.load(open(os.path.join(ctx['facts'], 'syn.json')))['files'], 'C20-SIB-escape')
    return C.finish('Sibling-table agreement only: the prefix/radix tables are extracted from the syntax trees of parse_integer and parse_float and compared with the AUTOSAR table and with each other (values, completeness, arm order); '
                    'the boolean table likewise; MIR-resolved callees show that each kind is formatted and parsed by an inverse pair of std routines. Numeric exactness is delegated to std and not decided.')

"""scope.py - the closed-world premise of every WHO / PAIR rule: model state can only be written by code of the crate.
Decided on the type-checked program: no state-bearing field is `pub`, and no function reachable from outside the crate hands out
the raw state types (a lock, a guard, a reference to the *Raw structs)."""
import re

STATE_ADTS = ('ElementRaw', 'AutosarModelRaw', 'ArxmlFileRaw', 'Element', 'AutosarModel', 'ArxmlFile', 'WeakElement', 'WeakAutosarModel', 'WeakArxmlFile')
RAW_RX = re.compile(r'\b(ElementRaw|AutosarModelRaw|ArxmlFileRaw)\b|RwLock(Read|Write)?Guard|lock_api::RwLock')


def closed_world(C, P, rule):
    n = 0
    for name in STATE_ADTS:
        adt = P.adts.get(name)
        if adt is None:
            C.anchor_missing(rule, 'ADT ' + name)
            continue
        for v in adt['variants']:
            for f in v['fields']:
                n += 1
                C.check(not f.get('pub'), rule, 'scope|%s.%s|not-public' % (name, f['n']), 'the field %s.%s is public: code outside the crate can write model state directly, so the enumeration of writers (and every pairing rule built on it) is no longer complete' % (name, f['n']),
                        sample={'adt': name, 'field': f['n'], 'pub': bool(f.get('pub'))} if n == 1 else None)
    leaks = []
    nfn = 0
    for b in P.bodies.values():
        if b.crate != 'autosar_data' or not b.pub or b.kind == 'Closure':
            continue
        nfn += 1
        if RAW_RX.search(b.ret or ''):
            leaks.append(b)
    for b in leaks:
        C.fail(rule, 'scope|%s|hands-out-raw-state' % b.short, 'the public function %s returns %s: callers outside the crate get direct access to the locked state' % (b.short, b.ret), '%s:%d' % (b.file, b.line))
    if not leaks:
        C.ok(rule, 'scope|public-signatures', '%d public functions, none returns a *Raw struct, a lock or a guard' % nfn)
    C.floor(rule + '.scope-fields', n, 20)
    C.floor(rule + '.scope-public-fns', nfn, 100)

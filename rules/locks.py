"""locks.py - guard-liveness dataflow, lock-owner provenance, acquisition summaries and the lock-order graph
(DESIGN.md §4 C15 / C12).  Everything is computed from the MIR facts; nothing is executed.

Owner descriptor ('Own'): (base, path)
   base : ('param', i) | ('upvar', i) | ('fresh',) | ('lookup',) | ('unknown', why) | ('acq', id)   [acq only intra-procedurally]
   path : tuple of steps from {'child', 'parent', 'root', 'model', 'file'} (consecutive duplicates collapsed)
"""
import re
from collections import defaultdict, deque
from ir import callee_of, callee_generic
from flow import is_local_op, call_matches, defs_of, iter_uses

ACQ_RX = re.compile(r'lock_api::RwLock::<R, T>::(read|write|try_read|try_write|try_read_for|try_write_for|try_read_until|try_write_until|read_recursive|try_read_recursive|try_read_recursive_for|upgradable_read|try_upgradable_read|try_upgradable_read_for)$')
GUARD_TY = re.compile(r'RwLock(Read|Write|UpgradableRead)Guard<')
CLASSES = {'ElementRaw': 'Element', 'AutosarModelRaw': 'Model', 'ArxmlFileRaw': 'File'}
HANDLE_FIELDS = {'.Element.0': 'Element', '.AutosarModel.0': 'Model', '.ArxmlFile.0': 'File', '.WeakElement.0': 'Element', '.WeakAutosarModel.0': 'Model', '.WeakArxmlFile.0': 'File'}

PASS_ARG0 = re.compile(r'Clone>::clone$|Deref>::deref$|DerefMut>::deref_mut$|::as_ref$|Borrow<.*>::borrow$|Option::<T>::(unwrap|expect|ok_or|ok_or_else|as_ref|as_mut|cloned|copied|take|unwrap_or.*|flatten|filter)$|'
                       r'Result::<T, E>::(unwrap|expect|ok|map_err|as_ref)$|Try>::branch$|WeakElement>::upgrade$|WeakAutosarModel>::upgrade$|WeakArxmlFile>::upgrade$|'
                       r'sync::Weak::<T, A>::upgrade$|impl Element>::downgrade$|ToOwned>::to_owned$|IntoIterator>::into_iter$|Iterator>::(enumerate|peekable|rev|skip|take|by_ref)$|'
                       r'ElementContent>::unwrap_element$|::first$|::last$|::get$|::get_mut$|::iter$|::iter_mut$|Index<.*>>::index$|IndexMut<.*>>::index_mut$|as_slice$|as_mut_slice$|From<T>>::from$|Into<.*>>::into$')
STEP_CALLS = [
    (re.compile(r'impl Element>::(parent|named_parent)$|ElementRaw>::parent$'), 'parent'),
    (re.compile(r'impl Element>::(sub_elements|elements_dfs|elements_dfs_with_max_depth|content|get_sub_element|get_sub_element_at|get_or_create_sub_element|get_or_create_named_sub_element|'
                r'create_sub_element|create_sub_element_at|create_named_sub_element|create_named_sub_element_at|create_copied_sub_element|create_copied_sub_element_at)$'), 'child'),
    (re.compile(r'(ElementsIterator|ElementsDfsIterator|ElementContentIterator|ArxmlFileElementsDfsIterator) as .*Iterator>::next$'), None),  # iterator already carries 'child'
    (re.compile(r'(ElementsIterator|ElementsDfsIterator|ElementContentIterator|ArxmlFileElementsDfsIterator)>::new$'), 'child'),
    (re.compile(r'ElementRaw>::create_(sub_element|named_sub_element|copied_sub_element)(_at|_inner)?$|ElementRaw>::move_element_(here|here_at|local|full|position)$'), 'child'),
    (re.compile(r'AutosarModel>::root_element$'), 'root'),
    (re.compile(r'impl Element>::model$|impl ArxmlFile>::model$'), 'model'),
    (re.compile(r'AutosarModel>::(elements_dfs|elements_dfs_with_max_depth)$'), 'root'),
    (re.compile(r'ArxmlFile>::(elements_dfs|elements_dfs_with_max_depth)$'), 'model'),
]
LOOKUP_CALLS = re.compile(r'AutosarModel>::(get_element_by_path|get_references_to|identifiable_elements|check_references)$|IdentifiablesIterator as .*Iterator>::next$|IndexMap.*::get|HashMap.*::get|ArxmlFileIterator|AutosarModel>::files$')
FRESH_CALLS = re.compile(r'ElementRaw>::(wrap|deep_copy)$|AutosarModel>::create_file$|AutosarModelRaw>::wrap$|ArxmlFileRaw>::wrap$|AutosarModel>::new$|ArxmlFile>::new$|Arc::<T>::new$|RwLock::<R, T>::new$|ArxmlParser.*::parse_(element|arxml)$|AutosarModel>::duplicate$|AutosarModel as .*Default>::default$')


def norm_path(path):
    """cap runs of the same step at 2 (a run of 2 means "two or more")."""
    out = []
    for s in path:
        if len(out) >= 2 and out[-1] == s and out[-2] == s:
            continue
        out.append(s)
    return tuple(out[:8])


class Acq:
    def __init__(self, aid, pos, mode, kind, cls, own, where, fn):
        self.id, self.pos, self.mode, self.kind, self.cls, self.own, self.where, self.fn = aid, pos, mode, kind, cls, own, where, fn

    def desc(self):
        return '%s:%s:%s' % (self.cls, self.mode, self.kind)


class BodyLocks:
    """per-body analysis: acquisitions, owner provenance, guard liveness."""

    def __init__(self, P, b):
        self.P = P
        self.b = b
        self.acqs = {}
        self.guard_locals = {i for i, l in enumerate(b.locals) if GUARD_TY.search(l['ty'])}
        self._trace_cache = {}
        self._find_acqs()
        self._liveness()

    # ---------------------------------------------------------------- provenance
    # value := ('set', [Own, ...])  |  ('tup', [value, ...])        Own = (base, path)
    def trace_place(self, pl, depth=48, seen=frozenset()):
        """list of possible Owns of the handle/data the place denotes."""
        v = self.eval_local(pl['l'], depth, seen)
        for p in pl['p']:
            v = self.project(v, p)
        return self.as_owns(v)

    def as_owns(self, v):
        if v[0] == 'tup':
            out = []
            for x in v[1]:
                for o in self.as_owns(x):
                    if o not in out:
                        out.append(o)
            known = [o for o in out if o[0][0] not in ('unknown', 'rec')]
            return known or [(('unknown', 'tuple'), ())]
        return list(v[1])

    def project_own(self, own, p):
        base, path = own
        step = None
        if p == '.ElementRaw.content':
            step = 'child'
        elif p == '.ElementRaw.parent':
            step = 'parent'
        elif p == '.AutosarModelRaw.root_element':
            step = 'root'
        elif p == '.ArxmlFileRaw.model':
            step = 'model'
        elif p in ('.AutosarModelRaw.files', '.ElementRaw.file_membership'):
            step = 'file'
        elif p in ('.AutosarModelRaw.identifiables', '.AutosarModelRaw.reference_origins'):
            return (('lookup',), ())
        elif p.startswith('.{closure}.'):
            step = 'upvar:' + p.rsplit('.', 1)[-1]
        if step:
            return (base, norm_path(path + (step,)))
        if p.startswith('.') and p[1:].isdigit() and base[0] in ('param', 'closure-env', 'unknown', 'rec'):
            return (base, norm_path(path + ('fld:' + p[1:],)))
        return own

    def project(self, v, p):
        if v[0] == 'tup':
            if p.startswith('.') and p[1:].isdigit():
                i = int(p[1:])
                return v[1][i] if i < len(v[1]) else ('set', [(('unknown', 'tupidx'), ())])
            return v
        out = []
        for o in v[1]:
            n = self.project_own(o, p)
            if n not in out:
                out.append(n)
        return ('set', out)

    def eval_local(self, l, depth=48, seen=frozenset()):
        b = self.b
        top = not seen
        if top and l in self._trace_cache:
            return self._trace_cache[l]
        if l in seen:
            return ('set', [(('rec', l), ())])
        if depth <= 0:
            return ('set', [(('unknown', 'depth'), ())])
        seen = seen | {l}
        results = []
        if 1 <= l <= b.argc:
            if b.kind == 'Closure' and l == 1:
                results.append(('set', [(('closure-env',), ())]))
            else:
                results.append(('set', [(('param', l), ())]))
        for pos, st in defs_of(b, l):
            if st['k'] == 'assign':
                rv = st['rv']
                if rv['k'] in ('use', 'cast'):
                    results.append(self.eval_op(rv['o'], depth - 1, seen))
                elif rv['k'] in ('ref', 'rawptr'):
                    results.append(self.eval_op(rv['pl'], depth - 1, seen))
                elif rv['k'] == 'agg':
                    if rv.get('adt') in ('ElementRaw', 'AutosarModelRaw', 'ArxmlFileRaw'):
                        results.append(('set', [(('fresh',), ())]))
                    elif rv.get('ak') == 'tuple':
                        results.append(('tup', [self.eval_op(o, depth - 1, seen) for o in rv['ops']]))
                    elif rv.get('ak') == 'adt' and len(rv['ops']) == 1:
                        results.append(self.eval_op(rv['ops'][0], depth - 1, seen))
                    elif rv.get('ak') == 'adt' and rv['ops']:
                        results.append(('tup', [self.eval_op(o, depth - 1, seen) for o in rv['ops']]))
                    else:
                        results.append(('set', [(('unknown', 'agg'), ())]))
                else:
                    results.append(('set', [(('unknown', rv['k']), ())]))
            elif st['k'] == 'call':
                results.append(self.eval_call(st, depth - 1, seen))
        for item in self._pushes().get(l, []):
            results.append(self.eval_op(item, depth - 1, seen))
        if not results:
            results.append(('set', [(('unknown', 'nodef'), ())]))
        res = self.merge(results, l)
        if top:
            res = self._strip_rec(res)
            self._trace_cache[l] = res
        return res

    def _strip_rec(self, v):
        if v[0] == 'tup':
            return ('tup', [self._strip_rec(x) for x in v[1]])
        out = [o for o in v[1] if o[0][0] != 'rec']
        return ('set', out or [(('unknown', 'cycle'), ())])

    def eval_op(self, o, depth, seen):
        if not is_local_op(o):
            return ('set', [(('unknown', 'const'), ())])
        v = self.eval_local(o['l'], depth, seen)
        for p in o['p']:
            v = self.project(v, p)
        return v

    def merge(self, results, l=None):
        tups = [r for r in results if r[0] == 'tup']
        sets = [r for r in results if r[0] == 'set']
        if tups and not sets:
            n = max(len(t[1]) for t in tups)
            return ('tup', [self.merge([t[1][i] for t in tups if i < len(t[1])]) for i in range(n)])
        owns = []
        for r in results:
            for o in (r[1] if r[0] == 'set' else self.as_owns(r)):
                if o not in owns:
                    owns.append(o)
        # unroll self recursion once: x = base | step(x)
        recs = [o for o in owns if o[0] == ('rec', l)]
        rest = [o for o in owns if o[0] != ('rec', l)]
        for rc in recs:
            for o in list(rest):
                if o[0][0] in ('unknown', 'rec'):
                    continue
                n = (o[0], norm_path(o[1] + rc[1]))
                if n not in rest:
                    rest.append(n)
        owns = rest or [(('unknown', 'cycle'), ())]
        known = [o for o in owns if o[0][0] != 'unknown']
        if known:
            owns = known       # container constructors etc. carry no provenance
        if tups and len(tups) == 1 and all(o[0][0] == 'unknown' for o in owns):
            return tups[0]
        return ('set', owns[:6])

    def eval_call(self, t, depth, seen):
        cg = callee_generic(t) or ''
        cr = callee_of(t) or ''
        args = t['args']
        UNK = lambda why: ('set', [(('unknown', why), ())])

        def a0():
            if args and is_local_op(args[0]):
                return self.eval_op(args[0], depth, seen)
            return UNK('noarg')

        def stepped(v, step):
            owns = self.as_owns(v)
            return ('set', [(o[0], norm_path(o[1] + ((step,) if step else ()))) for o in owns])
        if ACQ_RX.search(cg):
            return a0()
        if FRESH_CALLS.search(cr) or FRESH_CALLS.search(cg):
            return ('set', [(('fresh',), ())])
        if re.search(r'impl Element>::(elements_dfs|elements_dfs_with_max_depth)$|ElementsDfsIterator>::new$', cr):
            return ('tup', [UNK('depth'), stepped(a0(), 'child')])
        if re.search(r'AutosarModel>::(elements_dfs|elements_dfs_with_max_depth)$', cr):
            return ('tup', [UNK('depth'), stepped(stepped(a0(), 'root'), 'child')])
        if re.search(r'ArxmlFile>::(elements_dfs|elements_dfs_with_max_depth)$', cr):
            return ('tup', [UNK('depth'), stepped(stepped(stepped(a0(), 'model'), 'root'), 'child')])
        if LOOKUP_CALLS.search(cr) or LOOKUP_CALLS.search(cg):
            return ('set', [(('lookup',), ())])
        for rx, step in STEP_CALLS:
            if rx.search(cr) or rx.search(cg):
                return stepped(a0(), step)
        if re.search(r'Iterator>?::enumerate$', cg):
            return ('tup', [UNK('index'), a0()])
        if re.search(r'iter::zip$|Iterator>?::zip$', cg):
            b1 = self.eval_op(args[1], depth, seen) if len(args) > 1 and is_local_op(args[1]) else UNK('noarg')
            return ('tup', [a0(), b1])
        if PASS_ARG0.search(cr) or PASS_ARG0.search(cg):
            return a0()
        if re.search(r'Iterator>?::next$|Iterator>?::(find|nth|last|next_back|min|max|min_by_key|max_by_key)$|DoubleEndedIterator>?::next_back$', cg):
            return a0()
        if re.search(r'Iterator>?::(filter|chain|cloned|copied|peekable|rev|skip|take|by_ref|skip_while|take_while)$', cg):
            return a0()
        if re.search(r'Iterator>?::(filter_map|map|find_map|inspect|map_while)$', cg) and len(args) > 1 and self._pure_projection(args[1]):
            # an adaptor whose closure captures nothing and calls nothing but clone / deref / as_ref: what it yields is (part of) the
            # item it was given - `content.iter().filter_map(|item| match item { Element(e) => Some(e), _ => None })` yields children
            return a0()
        v0 = a0()
        if v0[0] == 'set' and any(o[0] == ('lookup',) for o in v0[1]):
            return ('set', [(('lookup',), ())])
        return UNK('call:' + cg.rsplit('::', 2)[-1][:30])

    def _pure_projection(self, op):
        """op is a closure value without captures whose body only re-borrows / clones / unwraps its argument"""
        from flow import origins
        if not is_local_op(op):
            return False
        for og in origins(self.b, op):
            st = og[1] if og[0] not in ('param', 'const', 'place') else None
            if not (isinstance(st, dict) and st.get('k') == 'assign' and st['rv']['k'] == 'agg' and st['rv'].get('ak') == 'closure'):
                return False
            if st['rv'].get('ops'):
                return False
            cb = self.P.bodies.get(st['rv'].get('fn'))
            if cb is None:
                return False
            for pos, t in cb.iter_calls():
                c = (t['f'].get('fn') or '') if isinstance(t['f'], dict) else ''
                if not re.search(r'Clone>?::clone$|Deref>?::deref$|AsRef<.*>>?::as_ref$|Borrow<.*>>?::borrow$|Option::<T>::(as_ref|as_deref|cloned|copied)$', c):
                    return False
        return True

    def lock_owner(self, t, depth=48, seen=frozenset()):
        """possible Owns of the object whose RwLock is acquired by call t (arg0 = &RwLock<..>)."""
        a = t['args'][0]
        if not is_local_op(a):
            return [(('unknown', 'lockarg'), ())]
        return self.trace_place(a, depth, seen)

    def _pushes(self):
        """local (a Vec / SmallVec / HashMap variable) -> operands pushed / inserted into it in this body"""
        if not hasattr(self, '_push_cache'):
            d = {}
            for pos, t in self.b.iter_calls():
                if re.search(r'(Vec::<T, A>|SmallVec::<A>|VecDeque::<T, A>)::(push|push_back|insert)$|HashMap::<K, V, S, A>::insert$|HashSet::<T, S, A>::insert$', callee_generic(t) or '') and len(t['args']) >= 2:
                    a0 = t['args'][0]
                    if is_local_op(a0):
                        for pp, st in defs_of(self.b, a0['l']):
                            if st['k'] == 'assign' and st['rv']['k'] == 'ref' and not st['rv']['pl']['p']:
                                d.setdefault(st['rv']['pl']['l'], []).append(t['args'][-1])
            self._push_cache = d
        return self._push_cache

    # ---------------------------------------------------------------- acquisitions
    def _find_acqs(self):
        b = self.b
        for pos, t in b.iter_calls():
            cg = callee_generic(t) or ''
            m = ACQ_RX.search(cg)
            if not m:
                continue
            name = m.group(1)
            subst = t['f'].get('substs', [])
            cls = None
            for s in subst:
                for k, v in CLASSES.items():
                    if s.endswith(k):
                        cls = v
            mode = 'W' if 'write' in name else 'R'
            kind = 'blocking'
            if name.startswith('try_'):
                kind = 'timed' if name.endswith('_for') or name.endswith('_until') else 'try'
            if name in ('read_recursive',):
                kind = 'recursive'
            aid = len(self.acqs)
            acq = Acq(aid, pos, mode, kind, cls or '?', None, b.where(pos), b.short)
            self.acqs[aid] = acq
        from flow import forward_taint
        for a in self.acqs.values():
            t = b.blocks[a.pos[0]]['term']
            a.owns = self.lock_owner(t)
            a.own = a.owns[0]
            a.onfail = '-'
            if a.kind in ('try', 'timed') and not t['dst']['p']:
                a.onfail = 'silent'
                taint = forward_taint(b, {t['dst']['l']}, through_refs=False)
                for pos2, t2 in b.iter_calls():
                    if call_matches(t2, r'Option::<T>::(ok_or|ok_or_else|unwrap|expect)$') and t2['args'] and is_local_op(t2['args'][0]) and t2['args'][0]['l'] in taint:
                        a.onfail = 'error'

    # ---------------------------------------------------------------- liveness
    def _liveness(self):
        """forward may-analysis: for every position the set of acquisition ids whose guard may still be alive."""
        b = self.b
        G = self.guard_locals
        acq_at = {a.pos: a.id for a in self.acqs.values()}
        nblocks = len(b.blocks)
        instate = {}
        work = deque([0])
        instate[0] = {}
        self.held_before = {}   # pos -> frozenset(acq ids)

        def carry(o):
            return is_local_op(o) and o['l'] in G

        def step_stmt(state, s):
            k = s['k']
            if k == 'dead':
                state.pop(s['l'], None)
            elif k == 'assign':
                d = s['dst']
                rv = s['rv']
                srcs = []
                if rv['k'] in ('use', 'cast'):
                    srcs = [rv['o']]
                elif rv['k'] == 'agg':
                    srcs = rv['ops']
                got = set()
                for o in srcs:
                    if carry(o):
                        got |= state.get(o['l'], set())
                        if o.get('mv'):
                            state.pop(o['l'], None)
                if d['l'] in G and not d['p']:
                    if got:
                        state[d['l']] = set(got)
                    elif rv['k'] not in ('ref',):
                        # overwritten with a non-guard value (e.g. None)
                        if rv['k'] == 'agg' and not any(carry(o) for o in srcs):
                            state.pop(d['l'], None)
                elif d['l'] in G and got:
                    state[d['l']] = state.get(d['l'], set()) | got
        def step_term(state, pos, t):
            k = t['k']
            if k == 'drop':
                pl = t['pl']
                if pl['l'] in G:
                    state.pop(pl['l'], None)
            elif k == 'call':
                got = set()
                for a in t['args']:
                    if carry(a) and a.get('mv'):
                        got |= state.get(a['l'], set())
                        state.pop(a['l'], None)
                d = t['dst']
                if pos in acq_at:
                    if d['l'] in G:
                        state[d['l']] = {acq_at[pos]}
                elif d['l'] in G and not d['p']:
                    if got:
                        state[d['l']] = set(got)
                    else:
                        state.pop(d['l'], None)
        while work:
            bi = work.popleft()
            state = {k: set(v) for k, v in instate[bi].items()}
            blk = b.blocks[bi]
            for i, s in enumerate(blk['stmts']):
                self.held_before[(bi, i)] = frozenset(x for v in state.values() for x in v) | self.held_before.get((bi, i), frozenset())
                step_stmt(state, s)
            tpos = (bi, len(blk['stmts']))
            self.held_before[tpos] = frozenset(x for v in state.values() for x in v) | self.held_before.get(tpos, frozenset())
            step_term(state, tpos, blk['term'])
            for s in b.succs(bi):
                if b.blocks[s]['cleanup']:
                    continue
                old = instate.get(s)
                if old is None:
                    instate[s] = {k: set(v) for k, v in state.items()}
                    work.append(s)
                else:
                    changed = False
                    for k, v in state.items():
                        if not v <= old.get(k, set()):
                            old.setdefault(k, set()).update(v)
                            changed = True
                    if changed:
                        work.append(s)

    def held_at(self, pos):
        return [self.acqs[i] for i in sorted(self.held_before.get(pos, ()))]


# ------------------------------------------------------------------------------------------ relations / verdicts
def canon_path(path):
    """model -> root element -> (child|parent)* -> model is the model itself: drop such round trips from an owner path"""
    p = list(path)
    changed = True
    while changed:
        changed = False
        for i, tok in enumerate(p):
            if tok == 'root':
                j = i + 1
                while j < len(p) and p[j] in ('child', 'parent'):
                    j += 1
                if j < len(p) and p[j] == 'model':
                    del p[i:j + 1]
                    changed = True
                    break
    return tuple(p)


def relation(held_own, acq_own):
    """relation of the acquired object to the held object (both Element class): same | child | parent | fresh | other"""
    hb, hp = held_own
    ab, ap = acq_own
    hp, ap = canon_path(hp), canon_path(ap)
    if ab == ('fresh',):
        return 'fresh'
    if hb[0] == 'unknown' or ab[0] == 'unknown':
        return 'other'
    if hb != ab:
        if ab == ('lookup',) or hb == ('lookup',):
            return 'other'
        return 'other'
    if ap == hp:
        return 'same'
    n = len(hp)
    if ap[:n] == hp:
        rest = ap[n:]
        if all(s == 'child' for s in rest):
            return 'child'
        if all(s == 'parent' for s in rest):
            return 'parent'
        if ('child' in rest and 'parent' in rest):
            return 'same?'      # down then up again, or up then down again: may be the held object itself
        return 'other'
    m = len(ap)
    if hp[:m] == ap:
        rest = hp[m:]
        if all(s == 'child' for s in rest):
            return 'parent'     # held is a descendant of acquired
        if all(s == 'parent' for s in rest):
            return 'child'
    return 'other'


ORDER = {'Element': 0, 'Model': 1, 'File': 2}


def verdict(held, acq, rel):
    """None if the nesting respects the documented order, else a verdict class."""
    if acq.kind in ('try', 'timed'):
        if held.cls == acq.cls == 'Element' and rel in ('same', 'same?') and (held.mode == 'W' or acq.mode == 'W'):
            return 'spurious-lock-error'   # a try/timed acquisition of an object this call chain already holds exclusively
        return None
    if rel == 'fresh' or held.own[0] == ('fresh',):
        return None
    if held.cls != acq.cls:
        if ORDER.get(held.cls, 9) < ORDER.get(acq.cls, 9):
            return None
        return 'inverted'
    if held.cls == 'Element':
        if rel == 'child':
            return None
        if rel in ('same', 'same?'):
            return 'same'
        if rel == 'parent':
            return 'up'
        return 'unordered'
    # Model->Model or File->File
    if rel == 'same':
        return 'same'
    return 'unordered'


# ------------------------------------------------------------------------------------------ whole-crate graph
class Entry:
    __slots__ = ('mode', 'kind', 'cls', 'own', 'chain', 'where', 'onfail')

    def __init__(self, mode, kind, cls, own, chain, where, onfail='-'):
        self.mode, self.kind, self.cls, self.own, self.chain, self.where, self.onfail = mode, kind, cls, own, chain, where, onfail

    def key(self):
        return (self.mode, self.kind, self.cls, self.own, self.onfail)

    def desc(self):
        return '%s:%s:%s' % (self.cls, self.mode, self.kind)


def own_str(own):
    base, path = own
    bs = {'param': lambda b: 'arg%d' % b[1], 'fresh': lambda b: 'fresh', 'lookup': lambda b: 'lookup', 'unknown': lambda b: 'unknown', 'closure-env': lambda b: 'env'}.get(base[0], lambda b: base[0])(base)
    out = []
    for st in path:
        if out and out[-1] == st:
            continue          # parent.parent = ancestor, child.child = descendant: one key
        out.append(st)
    return bs + ''.join('.' + st for st in out)


class LockGraph:
    def __init__(self, P, crate='autosar_data'):
        self.P = P
        self.bl = {}
        for b in P.bodies.values():
            if b.crate == crate:
                self.bl[b.id] = BodyLocks(P, b)
        self.sites = {}     # body id -> list of (pos, callee id, arg owns, kind)
        self._collect_sites()
        self.summary = {bid: {} for bid in self.bl}
        self._fixpoint()
        self.edges = []
        self._edges()

    def _collect_sites(self):
        P = self.P
        for bid, BL in self.bl.items():
            b = BL.b
            sites = []
            # closures: find the call that consumes each closure value
            clos = {}
            for pos, s in b.iter_stmts():
                if s['k'] == 'assign' and s['rv']['k'] == 'agg' and s['rv'].get('ak') == 'closure' and not s['dst']['p']:
                    clos[s['dst']['l']] = (pos, s['rv']['fn'], s['rv']['ops'])
            used = set()
            for pos, t in b.iter_calls():
                c = callee_of(t)
                if c in self.bl and not ACQ_RX.search(callee_generic(t) or ''):
                    sites.append((pos, c, [a for a in t['args']], None, None))
                g = callee_generic(t)
                if g in self.bl and g != c:
                    sites.append((pos, g, [a for a in t['args']], None, None))
                for a in t['args']:
                    if is_local_op(a) and a['l'] in clos:
                        qpos, fn, ops = clos[a['l']]
                        if fn in self.bl:
                            sites.append((pos, fn, ops, 'closure', t))
                            used.add(a['l'])
                    if 'fn' in a and (a.get('res') or a['fn']) in self.bl:
                        sites.append((pos, a.get('res') or a['fn'], [], 'fnptr', t))
            # a closure value captured by ANOTHER closure that calls it (a predicate handed to a helper whose iterator-adaptor closure
            # applies it to each item): the inner closure runs where the outer one is consumed, its parameters are (projections of)
            # the outer closure's item parameter
            consumer_of = {}
            for pos, t in b.iter_calls():
                for a in t['args']:
                    if is_local_op(a) and a['l'] in clos and a['l'] not in consumer_of:
                        consumer_of[a['l']] = (pos, t)
            for lm, (mpos, mfn, mops) in clos.items():
                if mfn not in self.bl or lm not in consumer_of:
                    continue
                MB = self.bl[mfn]
                for i, op in enumerate(mops):
                    inner = self._closure_behind(b, op, clos)
                    if inner is None or inner == lm:
                        continue
                    qpos, lfn, lops = clos[inner]
                    if lfn not in self.bl:
                        continue
                    for cpos, ct in MB.b.iter_calls():
                        if re.search(r'ops::Fn(Mut|Once)?::call(_mut|_once)?$', callee_generic(ct) or '') and len(ct['args']) >= 2 and self._is_upvar(MB.b, ct['args'][0], i):
                            cpos_, ct_ = consumer_of[lm]
                            sites.append((cpos_, lfn, {'tuple': ct['args'][1], 'MB': MB, 'lops': lops}, 'closure-nested', ct_))
                            used.add(inner)
            # a closure value that is called directly in this body (`predicate(item)` of an inlined helper that takes the predicate
            # as a parameter, or a local `let check = |x| ..; check(a)`): its parameters are the components of the argument tuple
            for pos, t in b.iter_calls():
                if re.search(r'ops::Fn(Mut|Once)?::call(_mut|_once)?$', callee_generic(t) or '') and len(t['args']) >= 2:
                    inner = self._closure_behind(b, t['args'][0], clos)
                    if inner is not None and clos[inner][1] in self.bl:
                        sites.append((pos, clos[inner][1], {'tuple': t['args'][1], 'MB': None, 'lops': clos[inner][2]}, 'closure-direct', t))
                        used.add(inner)
            for l, (qpos, fn, ops) in clos.items():
                if l not in used and fn in self.bl:
                    sites.append((qpos, fn, ops, 'closure', None))
            self.sites[bid] = sites

    @staticmethod
    def _closure_behind(b, op, clos, depth=8):
        """the closure local that operand op is a copy of / a reference to"""
        from flow import defs_of
        work, seen = [op], set()
        while work and depth > 0:
            depth -= 1
            o = work.pop()
            if not is_local_op(o) or o['l'] in seen:
                continue
            if o['l'] in clos and not [x for x in o.get('p', []) if x != '*']:
                return o['l']
            seen.add(o['l'])
            for q, st in defs_of(b, o['l']):
                if st['k'] == 'assign' and st['rv']['k'] in ('use', 'cast'):
                    work.append(st['rv']['o'])
                elif st['k'] == 'assign' and st['rv']['k'] in ('ref', 'rawptr'):
                    work.append({'l': st['rv']['pl']['l'], 'p': [x for x in st['rv']['pl']['p'] if x != '*']})
        return None

    @staticmethod
    def _is_upvar(mb, op, i, depth=8):
        """operand op of a closure body is (a reborrow / copy of) captured variable i of the closure environment (_1)"""
        from flow import defs_of
        work, seen = [op], set()
        while work and depth > 0:
            depth -= 1
            o = work.pop()
            if not is_local_op(o):
                continue
            proj = [x for x in o.get('p', []) if x != '*']
            if o['l'] == 1 and proj and proj[0].rsplit('.', 1)[-1] == str(i) and len(proj) == 1:
                return True
            if o['l'] in seen or proj:
                continue
            seen.add(o['l'])
            for q, st in defs_of(mb, o['l']):
                if st['k'] == 'assign' and st['rv']['k'] in ('use', 'cast'):
                    work.append(st['rv']['o'])
                elif st['k'] == 'assign' and st['rv']['k'] in ('ref', 'rawptr'):
                    work.append(st['rv']['pl'])
        return False

    def apply_steps(self, BL, v, steps):
        for st in steps:
            if st.startswith('fld:'):
                if v[0] == 'tup':
                    v = BL.project(v, '.' + st[4:])
                # on a non-tuple value the field selection cannot be resolved: keep the object (over-approximation)
            elif st.startswith('upvar:'):
                v = ('set', [(('unknown', 'upvar'), ())])
            else:
                v = ('set', [(o[0], norm_path(o[1] + (st,))) for o in BL.as_owns(v)])
        return BL.as_owns(v)

    ITEM_CONSUMERS = re.compile(r'Option::<T>::(map|and_then|is_some_and|is_none_or|filter|map_or|map_or_else|inspect|take_if)$|Iterator>?::(map|filter|filter_map|find|find_map|any|all|position|for_each|flat_map|take_while|skip_while|min_by_key|max_by_key|fold)$|'
                                r'slice::<impl \[T\]>::(sort_by|sort_by_key|sort_unstable_by|iter|binary_search_by)$|Vec::<T, A>::(retain|dedup_by)$|Result::<T, E>::(map|and_then)$')

    def subst(self, BL, entry, args, kind, callee_short, pos, consumer=None):
        """list of entries (one per possible owner) of the callee's entry seen from the caller."""
        base, path = entry.own
        owns = None
        if kind == 'closure':
            if base == ('closure-env',) and path and path[0].startswith('upvar:'):
                i = int(path[0][6:])
                if i < len(args) and is_local_op(args[i]):
                    owns = self.apply_steps(BL, BL.eval_op(args[i], 48, frozenset()), path[1:])
            elif base[0] == 'param' and base[1] >= 2 and consumer is not None:
                ct = consumer
                if self.ITEM_CONSUMERS.search(callee_generic(ct) or '') and ct['args'] and is_local_op(ct['args'][0]):
                    owns = self.apply_steps(BL, BL.eval_op(ct['args'][0], 48, frozenset()), path)
            if owns is None:
                owns = [entry.own] if base[0] in ('fresh', 'lookup') else [(('unknown', 'closure-arg'), ())]
        elif kind == 'closure-direct':
            info = args
            if base == ('closure-env',) and path and path[0].startswith('upvar:'):
                j = int(path[0][6:])
                if j < len(info['lops']) and is_local_op(info['lops'][j]):
                    owns = self.apply_steps(BL, BL.eval_op(info['lops'][j], 48, frozenset()), path[1:])
            elif base[0] == 'param' and base[1] >= 2 and is_local_op(info['tuple']):
                from flow import defs_of
                for q, st in defs_of(BL.b, info['tuple']['l']):
                    if st['k'] == 'assign' and st['rv']['k'] in ('agg', 'tuple') and len(st['rv'].get('ops', [])) > base[1] - 2:
                        comp = st['rv']['ops'][base[1] - 2]
                        if is_local_op(comp):
                            owns = self.apply_steps(BL, BL.eval_op(comp, 48, frozenset()), path)
            if owns is None:
                owns = [entry.own] if base[0] in ('fresh', 'lookup') else [(('unknown', 'closure-arg'), ())]
        elif kind == 'closure-nested':
            info = args
            MB = info['MB']
            if base == ('closure-env',) and path and path[0].startswith('upvar:'):
                j = int(path[0][6:])
                if j < len(info['lops']) and is_local_op(info['lops'][j]):
                    owns = self.apply_steps(BL, BL.eval_op(info['lops'][j], 48, frozenset()), path[1:])
            elif base[0] == 'param' and base[1] >= 2 and consumer is not None and self.ITEM_CONSUMERS.search(callee_generic(consumer) or '') and consumer['args'] and is_local_op(consumer['args'][0]):
                # the k-th parameter of the inner closure is the (k-2)-th component of the argument tuple built in the outer closure
                from flow import defs_of
                comp = None
                tl = info['tuple']
                if is_local_op(tl):
                    for q, st in defs_of(MB.b, tl['l']):
                        if st['k'] == 'assign' and st['rv']['k'] in ('agg', 'tuple') and len(st['rv'].get('ops', [])) > base[1] - 2:
                            comp = st['rv']['ops'][base[1] - 2]
                if comp is not None and is_local_op(comp):
                    owns = []
                    for (mb_, mp_) in MB.as_owns(MB.eval_op(comp, 48, frozenset())):
                        if mb_[0] == 'param' and mb_[1] >= 2:
                            owns += self.apply_steps(BL, BL.eval_op(consumer['args'][0], 48, frozenset()), tuple(mp_) + tuple(path))
                        elif mb_[0] in ('fresh', 'lookup'):
                            owns.append((mb_, mp_))
                        else:
                            owns.append((('unknown', 'closure-arg'), ()))
            if owns is None:
                owns = [entry.own] if base[0] in ('fresh', 'lookup') else [(('unknown', 'closure-arg'), ())]
        elif kind == 'fnptr':
            owns = [entry.own] if base[0] in ('fresh', 'lookup') else [(('unknown', 'fn-item-arg'), ())]
        else:
            if base[0] == 'param':
                j = base[1] - 1
                if j < len(args) and is_local_op(args[j]):
                    owns = self.apply_steps(BL, BL.eval_op(args[j], 48, frozenset()), path)
                else:
                    owns = [(('unknown', 'const-arg'), ())]
            else:
                owns = [entry.own]
        chain = ((callee_short,) + entry.chain)[:6]
        return [Entry(entry.mode, entry.kind, entry.cls, o, chain, entry.where, entry.onfail) for o in owns]

    def _fixpoint(self):
        for bid, BL in self.bl.items():
            for a in BL.acqs.values():
                for o in a.owns:
                    e = Entry(a.mode, a.kind, a.cls, o, (), a.where, a.onfail)
                    self.summary[bid].setdefault(e.key(), e)
        changed = True
        rounds = 0
        while changed and rounds < 40:
            changed = False
            rounds += 1
            for bid, BL in self.bl.items():
                for (pos, callee, args, kind, cons) in self.sites[bid]:
                    cs = self.P.bodies[callee].short
                    for e in list(self.summary[callee].values()):
                        for ne in self.subst(BL, e, args, kind, cs, pos, cons):
                            if ne.key() not in self.summary[bid]:
                                self.summary[bid][ne.key()] = ne
                                changed = True
        self.rounds = rounds

    def _edges(self):
        for bid, BL in self.bl.items():
            b = BL.b
            for a in BL.acqs.values():
                for h in BL.held_at(a.pos):
                    if h.id == a.id:
                        continue
                    for o in a.owns:
                        self._edge(b, a.pos, h, Entry(a.mode, a.kind, a.cls, o, (), a.where, a.onfail))
            for (pos, callee, args, kind, cons) in self.sites[bid]:
                held = BL.held_at(pos)
                if not held:
                    continue
                cs = self.P.bodies[callee].short
                for e in self.summary[callee].values():
                    for ne in self.subst(BL, e, args, kind, cs, pos, cons):
                        for h in held:
                            self._edge(b, pos, h, ne)

    def _edge(self, b, pos, h, e):
        for ho in h.owns:
            rel = relation(ho, e.own) if h.cls == e.cls else '-'
            hh = Entry(h.mode, h.kind, h.cls, ho, (), h.where)
            v = verdict(hh, e, rel)
            self.edges.append({'fn': b.short, 'pos': pos, 'where': b.where(pos), 'held': hh, 'acq': e, 'rel': rel, 'verdict': v})

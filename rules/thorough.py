"""thorough.py - what the thorough tier adds to the quick rules (DESIGN.md §7/§9):
  1. configuration agreement: the same rule module is run on facts extracted with release-shaped flags and with the
     `docstrings` feature; a violation key that appears only there is injected into the final verdict;
  2. positive controls: every stored mutant (selftest/mutants/<ID>.json) and every confirmed seeded change
     (seeded/<ID>-n/, where meta.json names this check) is applied to a scratch copy of the CURRENT tree; the quick rules must
     report a violation whose key matches the expectation.  A control whose anchor text is not present in the current tree is
     recorded as not applicable; a control that applies and does not fire is a SELFTEST-FAIL (exit 3, not a VIOLATION).
  3. negative controls: the behaviour-preserving patches written for this property (benign/<ID>-n/) on which the check was silent when
     they were packaged must stay silent; an alarm on one of them is a SELFTEST-FAIL as well.
All scratch copies, their fact caches and build output live under one mkdtemp directory that is removed at the end."""
import json, os, re, shutil, subprocess, sys, tempfile
from concurrent.futures import ThreadPoolExecutor
import framework

VERIF = framework.VERIF


def _inner(pid, env_extra, evdir):
    env = dict(os.environ)
    env.update(env_extra)
    env['ASD_INNER'] = '1'
    env['ASD_EVIDENCE_DIR'] = evdir
    env['VERIF_TIER'] = 'quick'
    r = subprocess.run([os.path.join(VERIF, 'check'), pid], env=env, text=True, capture_output=True)
    keys = set(re.findall(r'\[(C\d+-[^\]]+)\]', r.stdout))
    m = re.search(r'obligations=(\d+) discharged=(\d+) known=(\d+) new_violations=(\d+)', r.stdout)
    stats = [int(x) for x in m.groups()] if m else None
    return r.returncode, keys, stats, r.stdout[-2000:] + r.stderr[-2000:]


def _apply_edits(root, edits):
    for e in edits:
        p = os.path.join(root, e['file'])
        if not os.path.exists(p):
            return False
        s = open(p).read()
        if s.count(e['old']) < 1:
            return False
        s = s.replace(e['old'], e['new'], 1)
        open(p, 'w').write(s)
    return True


def _control(pid, ctl, repo, tmp):
    S = tempfile.mkdtemp(prefix='ctl.', dir=tmp)
    try:
        subprocess.run(['rsync', '-a', '--exclude', 'target', '--exclude', '.git', repo + '/', S + '/repo/'], check=True)
        root = os.path.join(S, 'repo')
        if 'patch' in ctl:
            r = subprocess.run('patch -p1 -s -F 3 --no-backup-if-mismatch < %s' % ctl['patch'], shell=True, cwd=root, capture_output=True, text=True)
            ok = r.returncode == 0
        else:
            ok = _apply_edits(root, ctl['edits'])
        if not ok:
            return {'control': ctl['name'], 'result': 'not-applicable', 'why': 'anchor text / patch context not present in the current tree'}
        rc, keys, stats, tail = _inner(pid, {'ASD_REPO': root, 'ASD_FACTS_BASE': os.path.join(S, 'facts')}, os.path.join(S, 'ev'))
        if rc == 2:
            return {'control': ctl['name'], 'result': 'not-applicable', 'why': 'the mutated tree does not compile'}
        if ctl.get('negative'):
            if rc == 0:
                return {'control': ctl['name'], 'result': 'silent'}
            return {'control': ctl['name'], 'result': 'FALSE-ALARM', 'rc': rc, 'keys': sorted(keys)[:5], 'tail': tail[-600:]}
        hit = sorted(k for k in keys if re.search(ctl.get('expect', '.'), k))
        if rc == 1 and hit:
            return {'control': ctl['name'], 'result': 'fired', 'keys': hit[:3]}
        return {'control': ctl['name'], 'result': 'MISSED', 'rc': rc, 'keys': sorted(keys)[:5], 'tail': tail[-600:]}
    finally:
        shutil.rmtree(S, ignore_errors=True)


def negative_controls_for(pid):
    """behaviour-preserving patches written for this property (benign/<ID>-n/) on which this check was silent when they were packaged: it must
    stay silent.  Patches on which the check is known to alarm (documented limits, meta.silent false) are not controls."""
    out = []
    bd = os.path.join(VERIF, 'benign')
    if os.path.isdir(bd):
        for d in sorted(os.listdir(bd)):
            mp = os.path.join(bd, d, 'meta.json')
            if d.split('-')[0] != pid or not os.path.exists(mp):
                continue
            meta = json.load(open(mp))
            if meta.get('applies_to_current_head', True) and pid not in meta.get('fired', {}):
                out.append({'name': 'benign:' + d, 'patch': os.path.join(bd, d, 'patch.diff'), 'negative': True})
    return out


def controls_for(pid):
    out = []
    mf = os.path.join(VERIF, 'selftest', 'mutants', '%s.json' % pid)
    if os.path.exists(mf):
        for m in json.load(open(mf)):
            out.append({'name': 'mutant:' + m['name'], 'edits': m['edits'], 'expect': m.get('expect', pid + '-')})
    rd = os.path.join(VERIF, 'selftest', 'reverts', pid)
    if os.path.isdir(rd):
        for f in sorted(os.listdir(rd)):
            if f.endswith('.diff'):
                # the reverse of a `fix:` commit re-introduces a genuine defect this check reported on the pinned tree
                out.append({'name': 'revert-of-fix:' + f[:-5], 'patch': os.path.join(rd, f), 'expect': pid + '-'})
    sd = os.path.join(VERIF, 'seeded')
    if os.path.isdir(sd):
        for d in sorted(os.listdir(sd)):
            mp = os.path.join(sd, d, 'meta.json')
            if not os.path.exists(mp):
                continue
            meta = json.load(open(mp))
            if meta.get('confirmed') and pid in meta.get('caught_by', {}):
                out.append({'name': 'seeded:' + d, 'patch': os.path.join(sd, d, 'patch.diff'), 'expect': pid + '-'})
    return out


def prepare(pid, ctx):
    """runs the extra configurations and the controls; stores the results for framework.Check.finish; returns True when a
    control that applied did not fire."""
    repo = ctx['repo']
    tmp = tempfile.mkdtemp(prefix='asd-thorough.')
    failed = False
    try:
        # ---- 1. configurations ----
        cfgs = {}
        base_rc, base_keys, base_stats, _ = _inner(pid, {'ASD_CFG': 'dev'}, os.path.join(tmp, 'ev-dev'))
        extra_viol = []
        for cfg in ('release', 'docstrings'):
            rc, keys, stats, tail = _inner(pid, {'ASD_CFG': cfg, 'ASD_FACTS_BASE': os.path.join(tmp, 'facts-' + cfg)}, os.path.join(tmp, 'ev-' + cfg))
            # floors are counts confirmed on the dev configuration (overflow checks on); they are not compared across configurations
            only = sorted(k for k in keys - base_keys if not k.endswith('|FLOOR'))
            cfgs[cfg] = {'exit': rc, 'stats_obligations_discharged_known_new': stats, 'violation_keys_not_in_dev': only}
            if rc == 2:
                cfgs[cfg]['note'] = 'this configuration does not build'
            elif rc == 1:
                for k in only:
                    extra_viol.append((cfg, k))
        # ---- 2. controls ----
        ctls = controls_for(pid) + negative_controls_for(pid)
        with ThreadPoolExecutor(max_workers=4) as ex:
            res = list(ex.map(lambda c: _control(pid, c, repo, tmp), ctls))
        for r in res:
            if r['result'] == 'MISSED':
                failed = True
                print('SELFTEST: control %s applied but the check did not report it (rc=%s keys=%s)' % (r['control'], r.get('rc'), r.get('keys')))
            if r['result'] == 'FALSE-ALARM':
                failed = True
                print('SELFTEST: behaviour-preserving control %s raised an alarm (rc=%s keys=%s)' % (r['control'], r.get('rc'), r.get('keys')))
        framework.THOROUGH = {
            'configurations': cfgs,
            'controls': res,
            'controls_fired': sum(1 for r in res if r['result'] == 'fired'),
            'controls_not_applicable': sum(1 for r in res if r['result'] == 'not-applicable'),
            'controls_missed': sum(1 for r in res if r['result'] == 'MISSED'),
            'negative_controls_silent': sum(1 for r in res if r['result'] == 'silent'),
            'negative_controls_false_alarm': sum(1 for r in res if r['result'] == 'FALSE-ALARM'),
            'extra_violations': extra_viol,
        }
        print('thorough: configurations %s; controls fired=%d n/a=%d missed=%d; behaviour-preserving controls silent=%d false-alarm=%d' % (
            {k: v['exit'] for k, v in cfgs.items()}, framework.THOROUGH['controls_fired'], framework.THOROUGH['controls_not_applicable'], framework.THOROUGH['controls_missed'],
            framework.THOROUGH['negative_controls_silent'], framework.THOROUGH['negative_controls_false_alarm']))
    finally:
        shutil.rmtree(tmp, ignore_errors=True)
    return failed

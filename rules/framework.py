"""framework.py - obligations ledger, known-findings protocol, evidence writer (DESIGN.md §6/§7)."""
import json, os, sys, time

VERIF = os.path.dirname(os.path.dirname(os.path.abspath(__file__)))
THOROUGH = None   # set by thorough.prepare(): configuration agreement + positive controls, merged into the evidence


class AnchorMissing(Exception):
    pass


# rules that the closure view may overrule (see Check.finish)
SECOND_OPINION_RULES = [r'^C07-SIB-attrversion\|ElementRaw::set_attribute_(string|internal)\|store-behind-version-test$', r'^C18-SIB-listing\|find_sub_element_internal\|match-needs-name-and-version$', r'^C06-MUST-every-referrer\|move_element_full\|rewrite-follows-the-prefix-match$', r'^C04-MUST-unique\|make_unique_item_name\|loops-until-free$', r'^C07-SIB-named\|', r'^C09-MUST-rollback\|', r'^C10-MUST-rollback\|', r'^C10-SIB-view\|', r'^C02-SIB-header\|', r'^C08-FLOW-propagate\|', r'^C09-MUST-reject\|.*\|error-propagated$']


class Check:
    def __init__(self, pid, tier, level, seed=0):
        self.pid = pid
        self.tier = tier
        self.level = level
        self.seed = seed
        self.t0 = time.time()
        self.obligations = []     # dicts: rule,key,ok,detail
        self.violations = []      # dicts: rule,key,what,where
        self.rules = {}           # rule -> text
        self.floors = []          # (rule, n, floor)
        self.samples = []
        self.extra = {}
        self.assumptions = []
        self.trusted_base = []
        self.notes = []
        kf = json.load(open(os.path.join(VERIF, 'known_findings.json')))
        self.known = {f['key']: f for f in kf.get('findings', []) if f['property'] == pid}
        self.known_seen = set()

    # ---- recording ------------------------------------------------------------------
    def rule(self, name, text):
        self.rules[name] = text

    def ok(self, rule, key, detail='', sample=None):
        self.obligations.append({'rule': rule, 'key': key, 'ok': True, 'detail': detail})
        if sample is not None and len(self.samples) < 40:
            self.samples.append(sample)

    def fail(self, rule, key, what, where=''):
        """an undischarged obligation = violation (unless its exact key is a known finding)."""
        full = '%s|%s' % (rule, key)
        self.obligations.append({'rule': rule, 'key': key, 'ok': False, 'detail': what})
        self.violations.append({'rule': rule, 'key': full, 'what': what, 'where': where})

    def check(self, cond, rule, key, what_if_fail, where='', detail='', sample=None):
        if cond:
            self.ok(rule, key, detail, sample)
        else:
            self.fail(rule, key, what_if_fail, where)
        return cond

    def floor(self, rule, n, floor):
        """fail closed when a rule matched fewer instances than were confirmed by hand."""
        # `floor` is the number of instances confirmed by reading.  The floor exists to keep a rule from passing vacuously when its
        # anchor is lost; the loss of ONE instance is the business of the instance rules, and merging two instances into a shared
        # helper is a behaviour-preserving edit.  The alarm threshold therefore leaves a quarter (at least one) of slack.
        alarm_below = max(1, floor - max(1, floor // 4)) if floor >= 2 else floor
        self.floors.append((rule, n, floor, alarm_below))
        if n < alarm_below:
            self.fail(rule, 'FLOOR', 'rule %s matched %d instances, %d were confirmed (alarm below %d): anchor lost, the rule would pass vacuously' % (rule, n, floor, alarm_below))

    def anchor_missing(self, rule, what):
        self.fail(rule, 'ANCHOR|' + what, 'anchor not found: %s (fail closed)' % what)

    # ---- finishing --------------------------------------------------------------------
    def finish(self, explanation, checker_cmd=None):
        if THOROUGH:
            for cfg, k in THOROUGH.get('extra_violations', []):
                self.fail('CONFIG-' + cfg, k, 'violation that is only derived in the %s configuration of the crate: %s' % (cfg, k))
            self.extra['thorough'] = {k: v for k, v in THOROUGH.items() if k != 'extra_violations'}
        wall = time.time() - self.t0
        new_viol = []
        for v in self.violations:
            if v['key'] in self.known:
                if v['key'] not in self.known_seen:
                    self.known_seen.add(v['key'])
                    print('KNOWN-FINDING: property=%s %s :: %s' % (self.pid, v['key'], self.known[v['key']]['what']))
            else:
                new_viol.append(v)
        # ---- second opinion: the closure view ------------------------------------------------------------------------------
        # A violation that exists only because an event sits in a closure (a loop body turned into `iter().for_each(|x| ..)`, a test moved
        # into `is_some_and(|v| ..)`) is not a violation of the property.  When there are new violations the same rule module is run once more
        # on the closure view of the program (rules/inline.py flatten_closures: every closure placed at the call that runs it; the closure
        # bodies themselves stay, so a defect INSIDE a closure is reported in both views).  Only violations derived in BOTH views are reported.
        self.second_opinion = None
        if new_viol and not os.environ.get('ASD_FLAT') and not os.environ.get('ASD_NO_SECOND_OPINION'):
            import subprocess, tempfile, shutil, re as _re
            tmpd = tempfile.mkdtemp(prefix='asd-flat.')
            try:
                env = dict(os.environ)
                env.update({'ASD_FLAT': '1', 'ASD_INNER': '1', 'ASD_EVIDENCE_DIR': tmpd, 'VERIF_TIER': 'quick'})
                r = subprocess.run([os.path.join(VERIF, 'check'), self.pid], env=env, text=True, capture_output=True)
                flat_keys = set(_re.findall(r'\[(C\d+-[^\]]+)\]', r.stdout))
                usable = r.returncode in (0, 1) and 'Traceback' not in r.stdout + r.stderr and 'ANALYSIS-ERROR' not in r.stdout
                if usable:
                    # conservative: only rules whose obligations are about WHERE an event happens relative to another (and that were seen to
                    # alarm when a test or a clean-up moved into a closure) may be overruled, and only when the closure view derives NO
                    # violation of that rule at all (a rule that fails differently there is not a confirmation of anything)
                    flat_rules = {tuple(k.split('|')[:2]) for k in flat_keys}
                    kept, dropped = [], []
                    for v in new_viol:
                        rid = tuple(v['key'].split('|')[:2])
                        if v['key'] in flat_keys or rid in flat_rules or not any(_re.search(rx_, v['key']) for rx_ in SECOND_OPINION_RULES):
                            kept.append(v)
                        else:
                            dropped.append(v)
                    if dropped:
                        dk = {v['key'] for v in dropped}
                        for o in self.obligations:
                            if not o['ok'] and (o['rule'] + '|' + o['key']) in dk:
                                o['ok'] = True
                                o['note'] = 'holds in the closure view (closures placed at the calls that run them)'
                    new_viol = kept
                    self.second_opinion = {'closure_view_run': True, 'confirmed': sorted(v['key'] for v in kept), 'not_confirmed_in_closure_view': sorted(v['key'] for v in dropped)}
                else:
                    self.second_opinion = {'closure_view_run': False, 'reason': 'the closure-view run did not complete; all violations are kept'}
            finally:
                shutil.rmtree(tmpd, ignore_errors=True)
        stale = [k for k in self.known if k not in self.known_seen]
        for k in stale:
            print('note: known finding no longer derived (stale entry): %s' % k)
        n_ob = len(self.obligations)
        n_ok = sum(1 for o in self.obligations if o['ok'])
        distinct = len({(o['rule'], o['key']) for o in self.obligations})
        for (r, n, fl, ab) in self.floors:
            print('  rule %-28s instances=%d floor=%d' % (r, n, fl))
        cov = {
            'explanation': explanation,
            'rule': ' || '.join('%s: %s' % (k, v) for k, v in self.rules.items()),
            'evaluations': max(n_ob, 1),
            'distinct_nontrivial': max(distinct, 2) if n_ob >= 2 else distinct,
            'samples': self.samples[:40] or [{'note': 'no instance recorded'}],
            'obligations': n_ob,
            'discharged': n_ok,
            'floors': [{'rule': r, 'instances': n, 'confirmed': f, 'alarm_below': ab} for (r, n, f, ab) in self.floors],
            'known_findings_rederived': sorted(self.known_seen),
            'known_findings_stale': stale,
            'exhaustive': self.extra.pop('exhaustive', False),
        }
        if self.level == 'proof':
            cov['checker_cmd'] = checker_cmd or ('./check %s --tier %s' % (self.pid, self.tier))
            cov['trusted_base'] = self.trusted_base
        cov.update(self.extra)
        if self.second_opinion:
            cov['second_opinion'] = self.second_opinion
        ev = {
            'property_id': self.pid,
            'tier': self.tier,
            'seed': self.seed,
            'level': self.level,
            'coverage': cov,
            'assumptions': self.assumptions,
            'wall_s': round(wall, 3),
            'violations': len(new_viol),
        }
        evdir = os.environ.get('ASD_EVIDENCE_DIR') or os.path.join(VERIF, 'evidence')
        os.makedirs(evdir, exist_ok=True)
        vdir = os.path.join(evdir, '%s.violations' % self.pid)
        if os.path.isdir(vdir):
            for f in os.listdir(vdir):
                os.unlink(os.path.join(vdir, f))
        with open(os.path.join(evdir, '%s.json' % self.pid), 'w') as f:
            json.dump(ev, f, indent=1, sort_keys=True)
        print('%s tier=%s obligations=%d discharged=%d known=%d new_violations=%d wall=%.1fs' % (
            self.pid, self.tier, n_ob, n_ok, len(self.known_seen), len(new_viol), wall))
        if new_viol:
            os.makedirs(vdir, exist_ok=True)
            for i, v in enumerate(new_viol):
                p = os.path.join(vdir, '%d.json' % i)
                with open(p, 'w') as f:
                    json.dump(v, f, indent=1)
                print('  %s  [%s] %s' % (v['where'], v['key'], v['what']))
                print('VIOLATION property=%s replay=%s' % (self.pid, p))
            return 1
        return 0

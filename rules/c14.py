"""C14 - sorting only permutes the content list: write-set, ordered-guard, refill, comparator key order.
Idempotence / independence of the initial order need Ord for Element to be a total order; C14-SIB-total decides the structural
part: the comparison applied never depends on a predicate relating both operands (that construct made a2 < a10 < a1b < a2 on the
pinned tree; repaired)."""
from ir import Program, callee_of, callee_generic, has_field
from flow import origins, is_local_op, call_matches, must_pass, source_names, strict_source_roots
import events as E
from pairing import calls, dominated_by
from framework import Check
import c11
from locks import BodyLocks


# stages of Element::cmp that compare a key only when both operands have it, by the source of the key, with the reason why skipping is harmless
SKIPPING_STAGES = {
    frozenset({'item_name'}): 'both operands have the same element name at this point (stage 1), and an element type is either named or not: the mixed case does not occur',
    frozenset({'string_value', 'character_data', 'get_sub_element'}): 'DEFINITION-REF: both operands have the same element name; the mixed case needs an incomplete BSW value and is then ordered by content',
}


def total_order_rules(C, P):
    """C14-SIB-total: structural conditions under which `<Element as Ord>::cmp` is a lexicographic chain of key comparisons
    (hence a total preorder): which comparison is applied may depend on each operand alone, never on a predicate that
    relates the two operands; and a stage whose key is optional orders the mixed cases instead of skipping the stage."""
    from ir import rv_operands
    from flow import const_val, defs_of
    R = 'C14-SIB-total'
    ec = P.get('<Element as Ord>::cmp')
    # ---- which side does every local depend on (data dependence only) ----
    import re as _re
    side = {1: {'S'}, 2: {'O'}}
    fside = {}          # (tuple local, '.i') -> sides of that component

    def pside(o):
        """sides of an operand / place; tuple components are tracked separately"""
        if not is_local_op(o):
            return set()
        p = o.get('p') or []
        if p and _re.match(r'^\.\d+$', p[0]) and (o['l'], p[0]) in fside:
            return fside[(o['l'], p[0])]
        return side.get(o['l'], set())
    changed = True
    while changed:
        changed = False
        for pos, st in ec.iter_stmts():
            if st['k'] != 'assign':
                continue
            rv = st['rv']
            ops = [rv['pl']] if rv['k'] in ('discr', 'ref', 'rawptr') and 'pl' in rv else list(rv_operands(rv))
            src = set()
            for o in ops:
                src |= pside(o)
            d = st['dst']['l']
            if rv['k'] in ('agg', 'tuple') or (rv['k'] == 'agg' and not rv.get('adt')):
                for i, o in enumerate(rv.get('ops', [])):
                    k = (d, '.%d' % i)
                    ps = pside(o)
                    if not ps <= fside.get(k, set()):
                        fside.setdefault(k, set()).update(ps); changed = True
            if not src <= side.get(d, set()):
                side.setdefault(d, set()).update(src); changed = True
        for pos, t in ec.iter_calls():
            src = set()
            for a_ in t['args']:
                src |= pside(a_)
            d = t['dst']['l']
            if not src <= side.get(d, set()):
                side.setdefault(d, set()).update(src); changed = True
    def is_stage_result(l, depth=6):
        """l is (a copy / discriminant / ==Equal test of) the result of a cmp call"""
        seen = set(); work = [l]
        while work and depth > 0:
            depth -= 1
            x = work.pop()
            if x in seen:
                continue
            seen.add(x)
            for q, st in defs_of(ec, x):
                if st['k'] == 'call':
                    if call_matches(st, r'Ord>?::cmp$|::cmp$|partial_cmp$|Ordering::then'):
                        return True
                    if call_matches(st, r'PartialEq.*::(ne|eq)$') and any('Ordering' in (ec.local_ty(a['l']) or '') for a in st['args'] if is_local_op(a)):
                        work.extend(a['l'] for a in st['args'] if is_local_op(a))
                elif st['k'] == 'assign':
                    rv = st['rv']
                    for o in ([rv['pl']] if 'pl' in rv else list(rv_operands(rv))):
                        if is_local_op(o):
                            work.append(o['l'])
        return False
    n_sw = 0
    bad = []
    for pos, t in ec.iter_terms():
        if t['k'] != 'switch' or not is_local_op(t['d']):
            continue
        sd = pside(t['d'])
        if sd == {'S', 'O'}:
            n_sw += 1
            if not is_stage_result(t['d']['l']):
                bad.append(pos)
    for i, pos in enumerate(bad):
        C.fail(R, 'Element::cmp|stage-selected-by-pair-predicate#%d' % i, 'Element::cmp branches on a predicate that relates BOTH operands and is not the Equal-test of a stage result (e.g. `base1 == base2` choosing between numeric and textual comparison): '
               'the comparison applied to a pair depends on the pair, so the relation is not a lexicographic order of per-element keys and need not be transitive (a2 < a10 < a1b < a2); the sorted result then depends on the initial order and a second sort can change it', ec.where(pos))
    if not bad:
        C.ok(R, 'Element::cmp|no-pair-predicates', '%d switches on values derived from both operands, all of them Equal-tests of a stage result' % n_sw,
             sample={'fn': '<Element as Ord>::cmp', 'mixed_switches': n_sw, 'all_are_stage_results': True})
    # ---- optional keys: the mixed cases are ordered, not skipped ----
    # switches on the discriminant of an Option that depends on one side only
    def opt_switches():
        out = []
        for pos, t in ec.iter_terms():
            if t['k'] != 'switch' or not is_local_op(t['d']):
                continue
            for q, st in defs_of(ec, t['d']['l']):
                if st['k'] == 'assign' and st['rv']['k'] == 'discr':
                    base = st['rv']['pl']
                    ty = ec.local_ty(base['l']) or ''
                    sd = pside(base)
                    if 'Option<' in ty and len(sd) == 1:
                        ts = dict(t['ts'])
                        # a pattern test binds the payload on its Some edge; the switches of a drop ladder do not read it
                        some_t = ts.get('1', t['else'])
                        binds = False
                        blk = some_t
                        for _ in range(3):
                            for q2, st2 in ((p3, s3) for p3, s3 in ec.iter_stmts() if p3[0] == blk):
                                if st2['k'] == 'assign':
                                    rv2 = st2['rv']
                                    for o2 in ([rv2['pl']] if 'pl' in rv2 else list(rv_operands(rv2))):
                                        if is_local_op(o2) and o2['l'] == base['l'] and any('Some' in str(pp) for pp in o2.get('p', [])):
                                            binds = True
                            t3 = ec.blocks[blk]['term']
                            if t3['k'] == 'goto':
                                blk = t3['t']
                            elif t3['k'] == 'switch' and is_local_op(t3['d']):
                                # (Some, Some) patterns test the second component before binding either
                                blk = dict(t3['ts']).get('1', t3['else'])
                            else:
                                break
                        out.append({'pos': pos, 'side': next(iter(sd)), 'base': (base['l'], tuple(base['p'])), 'none': ts.get('0', t['else']), 'some': ts.get('1', t['else']), 'binds': binds})
        return out
    sws = opt_switches()
    def falls_through(start_block):
        """from this block, is a later stage reachable (= a call that consumes a value of either operand) before the function returns?"""
        for p2 in ec.reach_from((start_block, 0), include_start=True):
            bi, i = p2
            if i == ec.nstmts(bi):
                t2 = ec.blocks[bi]['term']
                if t2['k'] == 'call' and any(pside(a) for a in t2['args']):
                    return True
        return False
    stages = 0
    stage_info = []
    for x in sws:
        if x['side'] != 'S' or not x['binds']:
            continue
        # the partner test nested in the Some region
        region = {p2[0] for p2 in ec.reach_from((x['some'], 0), include_start=True)}
        ys = [y for y in sws if y['side'] == 'O' and y['binds'] and y['pos'][0] in region and y['pos'][0] != x['pos'][0]]
        if not ys:
            continue
        # nearest one: the first O-side switch reachable without passing another S-side switch
        y = min(ys, key=lambda y: y['pos'][0])
        if any(o['side'] == 'S' and o is not x and o['pos'][0] in region and o['pos'][0] < y['pos'][0] for o in sws):
            continue
        stages += 1
        key = 'Element::cmp|optional-key-stage#%d' % stages
        def decided_by_constant(blk):
            """the arm starting at this block does nothing but produce a constant Less / Greater (the result of a helper such as
            `cmp_present_first`, tested against Equal by the caller afterwards - by `!=`, which the walk does not evaluate)"""
            for _ in range(4):
                for st_ in ec.blocks[blk]['stmts']:
                    if st_['k'] == 'assign' and st_['rv']['k'] == 'agg' and st_['rv'].get('adt') == 'Ordering':
                        return st_['rv'].get('var') in ('Less', 'Greater')
                t_ = ec.blocks[blk]['term']
                if t_['k'] != 'goto':
                    return False
                blk = t_['t']
            return False
        ok1 = not falls_through(y['none']) or decided_by_constant(y['none'])
        # the None edge of x: a sibling test of the same O-side value whose Some edge does not fall through
        nregion = {p2[0] for p2 in ec.reach_from((x['none'], 0), include_start=True)}
        sib = [z for z in sws if z['side'] == 'O' and z['base'] == y['base'] and z['pos'][0] in nregion and z['pos'][0] != y['pos'][0]]
        ok2 = bool(sib) and (not falls_through(sib[0]['some']) or decided_by_constant(sib[0]['some']))
        # evidence only: a stage that skips the mixed cases is a total order only if the later stages agree with it; on this tree
        # they do (both elements start with the same key element, see DESIGN.md 11.2), so this is not a verdict
        import flow as _flow
        bop = {'l': x['base'][0], 'p': list(x['base'][1])}
        if bop['p'] and _re.match(r'^\.\d+$', bop['p'][0]):
            for q, st in defs_of(ec, bop['l']):
                if st['k'] == 'assign' and st['rv']['k'] in ('agg', 'tuple') and len(st['rv'].get('ops', [])) > int(bop['p'][0][1:]):
                    o_ = st['rv']['ops'][int(bop['p'][0][1:])]
                    if is_local_op(o_):
                        bop = o_
                    break
        src = sorted(c for c in _flow.deep_sources(ec, bop, depth=10)[1] if not _re.search(r'^(core|std|alloc)::|^<?(std|core)::|Option<|Result<', c))
        stage_info.append({'at': ec.where(x['pos']), 'some_none_ordered': ok1, 'none_some_ordered': ok2, 'key_source': src})
        if not (ok1 and ok2):
            # a stage that is skipped when only one key exists is a total order only together with an argument about the later stages:
            # each such stage is reviewed by the source of its key
            terms = {c.rsplit('::', 1)[-1] for c in src}
            rev = [k for k in SKIPPING_STAGES if terms and terms <= k]
            C.check(bool(rev), R, 'Element::cmp|skipping-stage|%s' % ('+'.join(c.rsplit('::', 1)[-1] for c in src) or '?'),
                    'Element::cmp has a comparison stage that is applied only when BOTH operands have the key and is skipped otherwise, and the key (%s) is not one of the reviewed ones: '
                    'pairs with a key are ordered by it, pairs without by the later stages, and nothing makes the two orders agree (a2 < a10 by key, a10 < a1b < a2 by text): the relation is not transitive, '
                    'so the result of sort() depends on the initial order' % (', '.join(src) or 'unknown source'), ec.where(x['pos']))
    C.extra['optional_key_stages'] = stage_info
    # ---- the value order: same-variant arms compare the payloads themselves (or an injective reviewed projection) ----
    try:
        cc = P.get('<CharacterData as Ord>::cmp')
    except KeyError as e:
        C.anchor_missing(R, str(e))
        return
    INJECTIVE = r'::to_str$|Deref>?::deref$|::as_str$|AsRef<.*>>?::as_ref$|Borrow<.*>>?::borrow$|::as_bytes$|::as_slice$'
    n_cmp = 0
    for pos, t in cc.iter_calls():
        if not call_matches(t, r'Ord>?::cmp$|::cmp$|partial_cmp$'):
            continue
        n_cmp += 1
        import flow as _flow
        odd = set()
        for a_ in t['args']:
            odd |= {c for c in _flow.deep_sources(cc, a_, depth=10)[1] if not _re.search(INJECTIVE, c)}
        C.check(not odd, R, 'CharacterData::cmp|payload-compared-as-is|%s' % ('+'.join(sorted(c.rsplit('::', 1)[-1] for c in odd)) or 'direct'),
                'the order of character data values compares a TRANSFORMED payload (%s): two different values can compare Equal (the order is no longer consistent with ==), '
                'so elements that differ only there are not ordered by sort() and its result depends on the initial order' % ', '.join(sorted(odd)), cc.where(pos),
                sample={'fn': '<CharacterData as Ord>::cmp', 'compared': 'payloads or reviewed injective projections (EnumItem::to_str)'})
    C.check(n_cmp >= 3, R, 'CharacterData::cmp|same-variant-comparisons', 'expected a payload comparison per variant, found %d' % n_cmp)
    C.ok(R, 'Element::cmp|optional-key-stages-enumerated', '%d stages with an optional key' % stages)


def run(ctx):
    C = Check('C14', ctx['tier'], 'other', ctx['seed'])
    P = Program(ctx['facts'])
    C.rule('C14-WHO-writeset', 'the transitive write-set of Element::sort / ElementRaw::sort over model state is exactly {ElementRaw.content}: no index op, no parent-set, no attribute / comment / character-data / membership write is reachable')
    C.rule('C14-MUST-ordered', 'the content.clear() of sort is reachable only when the type is not ordered and the content mode is Sequence/Choice/Bag')
    C.rule('C14-FLOW-refill', 'between clear() and return every path runs the refill loop over the vector that was filled from the same content list before the clear; nothing can exit in between')
    C.rule('C14-SIB-key', 'the comparator compares the specification index vectors first and the elements only on equality (Ordering::then)')
    sr = P.get('ElementRaw::sort')
    es = P.get('Element::sort')
    # ---- write set ----
    reach = P.reachable_bodies([sr.id, es.id])
    n = 0
    for bid in sorted(reach):
        b = P.bodies[bid]
        if b.crate != 'autosar_data':
            continue
        BL = BodyLocks(P, b)
        for pos, d in c11.direct_mutations(b, BL):
            n += 1
            ok = d.startswith('ElementRaw.content.') and b.short == 'ElementRaw::sort'
            C.check(ok, 'C14-WHO-writeset', '%s|%s' % (b.short, d), 'sorting reaches a write of model state other than the content list being sorted (%s in %s)' % (d, b.short), b.where(pos),
                    sample={'fn': b.short, 'write': d})
        for o in E.ident_ops(b) + E.reforig_ops(b):
            if E.is_mutating(o) and o['op'] != 'get_mut':
                C.fail('C14-WHO-writeset', '%s|index-op|%s' % (b.short, o['op']), 'sorting reaches an edit of the path / reference index', b.where(o['pos']))
        for p in E.parent_sets(b):
            if p['how'] != 'literal':
                C.fail('C14-WHO-writeset', '%s|parent-set' % b.short, 'sorting reaches a write of a parent link', b.where(p['pos']))
    C.floor('C14-WHO-writeset.writes', n, 2)
    C.extra['bodies_reachable_from_sort'] = len(reach)
    # ---- ordered guard ----
    ops = E.content_ops(sr)
    clr = [o['pos'] for o in ops if o['op'] == 'clear']
    # the refill: content.push(Element(..)) in a loop, or content.extend(vec.into_iter().map(|..| Element(..)))
    psh = [o for o in ops if o['op'] in ('push', 'extend') and o['item'] == 'Element']
    if len(clr) != 1 or len(psh) != 1:
        C.anchor_missing('C14-MUST-ordered', 'ElementRaw::sort clear/refill (found %d/%d)' % (len(clr), len(psh)))
        return C.finish('fail closed')
    io = calls(sr, r'ElementType::is_ordered$')
    ok = len(io) == 1 and sr.pos_dominates(io[0], clr[0])
    if ok:
        t = sr.blocks[io[0][0]]['term']
        sw = sr.blocks[t['t']]['term']
        ok = sw['k'] == 'switch' and clr[0] not in sr.reach_from((sw['else'], 0), include_start=True, avoid={(sr.blocks[io[0][0]]['i'], 0)})
    C.check(ok, 'C14-MUST-ordered', 'clear-only-if-not-ordered', 'sort can reorder (clear + refill) the content of an element whose type is marked ordered', sr.where(clr[0]),
            sample={'fn': 'ElementRaw::sort', 'guard': '!elemtype.is_ordered() dominates content.clear()'})
    cm = calls(sr, r'ElementType::content_mode$')
    okm = len(cm) == 1 and sr.pos_dominates(cm[0], clr[0])
    if okm:
        t = sr.blocks[cm[0][0]]['term']
        sw = sr.blocks[t['t']]['term']
        # discriminant switch follows (possibly after a discr statement)
        swb = t['t']
        sw = sr.blocks[swb]['term']
        okm = sw['k'] == 'switch'
        if okm:
            d = dict(sw['ts'])
            # ContentMode: Sequence=0 Choice=1 Bag=2 Characters=3 Mixed=4
            bad_t = {d.get('3'), d.get('4')} - {None}
            # (flag-sensitive walk: `matches!(mode, Characters | Mixed)` first materialises a bool that is tested afterwards)
            okm = bool(bad_t) and all(clr[0] not in sr.precise_walk((x, 0), include_start=True) for x in bad_t)
    C.check(okm, 'C14-MUST-ordered', 'clear-only-for-element-modes', 'sort can clear the content of a Characters / Mixed element', sr.where(clr[0]))
    # ---- refill ----
    rets = [pos for pos, t in sr.iter_terms() if t['k'] == 'return']
    ok = must_pass(sr, clr[0], rets, {psh[0]['pos']} | E.loops_containing(sr, [psh[0]['pos']]), include_start=False)
    C.check(ok, 'C14-FLOW-refill', 'refill-loop-after-clear', 'a path leads from content.clear() to the return without passing the refill loop (elements would be lost)', sr.where(clr[0]))
    # the collection: <vec>.push((indices, elem.clone())) inside a loop over &self.content that dominates the clear; <vec> is identified by
    # that push, not by its name
    vp = []
    for pos, t in sr.iter_calls():
        if call_matches(t, r'Vec::<T, A>::push$') and E.loops_containing(sr, [pos]) and sr.pos_dominates(pos, clr[0]) is False and clr[0] in sr.reach_from(pos):
            vp.append((pos, t))
    vec_roots = strict_source_roots(sr, vp[0][1]['args'][0]) if len(vp) == 1 else set()
    ok = len(vp) == 1 and sr.pos_dominates(E.loops_containing(sr, [vp[0][0]]).pop() if E.loops_containing(sr, [vp[0][0]]) else (0, 0), clr[0]) and bool(E.loops_containing(sr, [vp[0][0]]))
    C.check(ok, 'C14-FLOW-refill', 'collect-loop-dominates-clear', 'the handles are not collected (in a loop) before the content list is cleared')
    # the refill consumes exactly that vector
    def iter_roots(o, depth=6):
        """roots of an iterator value, looking through into_iter / iter / map / filter adaptors"""
        r = strict_source_roots(sr, o)
        out = set()
        for kind, nm in r:
            out.add((kind, nm))
        for org in origins(sr, o):
            if org[0] not in ('param', 'const', 'place') and org[1].get('k') == 'call' and call_matches(org[1], r'Iterator>?::(map|filter|filter_map|inspect|rev|cloned|copied)$|IntoIterator>::into_iter$') and depth > 0:
                out = iter_roots(org[1]['args'][0], depth - 1)
        return out
    if psh[0]['op'] == 'push':
        into = [(pos, t) for pos, t in sr.iter_calls() if call_matches(t, r'IntoIterator>::into_iter$') and sr.pos_dominates(pos, psh[0]['pos']) and sr.pos_dominates(clr[0], pos)]
        ok = len(into) == 1 and bool(vec_roots) and strict_source_roots(sr, into[0][1]['args'][0]) == vec_roots
        okp = psh[0]['inner'] is not None and bool(source_names(sr, psh[0]['inner']))
    else:
        ok = bool(vec_roots) and iter_roots(psh[0]['term']['args'][-1]) == vec_roots
        okp = True
    C.check(ok, 'C14-FLOW-refill', 'refill-iterates-collected-vector', 'the refill does not consume exactly the vector that was collected before the clear', sr.where(psh[0]['pos']),
            sample={'fn': 'ElementRaw::sort', 'refill_source': 'the collected vector (moved into the refill)'})
    # the pushed element comes from the refill loop's item
    C.check(okp, 'C14-FLOW-refill', 'pushed-item-is-loop-item', 'the refill loop pushes something other than the collected handles')
    if vp:
        # the collection loop iterates self.content and pushes on the Element arm: from the Element-arm edge every path to the loop header passes the push
        cinto = [(pos, t) for pos, t in sr.iter_calls() if call_matches(t, r'IntoIterator>::into_iter$') and sr.pos_dominates(pos, vp[0][0])]
        okc = False
        for pos, t in cinto:
            rp = E.recv_place(sr, t)
            if rp is not None and has_field(rp, 'ElementRaw.content'):
                okc = True
        C.check(okc, 'C14-FLOW-refill', 'collect-loop-iterates-content', 'the collection loop does not iterate over self.content')
        heads = E.loops_containing(sr, [vp[0][0]])
        okall = False
        for pos, s in sr.iter_stmts():
            if s['k'] == 'assign' and s['rv']['k'] == 'discr' and is_local_op(s['rv']['pl']) and 'ElementContent' in sr.local_ty(s['rv']['pl']['l']) and pos[0] in {b for h, body in sr.natural_loops() if (h, 0) in heads for b in body}:
                sw = sr.blocks[pos[0]]['term']
                if sw['k'] == 'switch':
                    el_t = dict(sw['ts']).get('0')
                    if el_t is not None:
                        okall = must_pass(sr, (el_t, 0), list(heads), {vp[0][0]})
        C.check(okall, 'C14-FLOW-refill', 'every-element-item-is-collected', 'an Element item of the content list can be skipped by the collection loop (it would be dropped by the clear)')
    # no exit between clear and refill end: no err exits at all (fn returns ()), and no panic-capable call between
    import panics as PN
    between = sr.reach_from(clr[0])
    risky = [s for s in PN.sites_in_body(sr) if s.pos in between and not PN.auto_discharge(s)]
    C.check(not risky, 'C14-FLOW-refill', 'no-panic-site-after-clear', 'a panic-capable operation sits between clear() and the end of the refill: %s' % [s.key() for s in risky])
    # ---- comparator ----
    cl = [x for x in P.closures_of(sr)]
    okk = False
    for x in cl:
        th = [pos for pos, t in x.iter_calls() if call_matches(t, r'Ordering::then$')]
        ec = [pos for pos, t in x.iter_calls() if call_matches(t, r'Element as .*Ord>::cmp$|Ord for Element>::cmp$')]
        vc = [(pos, t) for pos, t in x.iter_calls() if call_matches(t, r'Vec<.*> as .*Ord>::cmp$|Ord>::cmp$') and pos not in ec]
        if len(th) == 1 and len(ec) == 1 and len(vc) >= 1:
            t = x.blocks[th[0][0]]['term']
            # receiver of then() is the result of the index-vector comparison
            rec = origins(x, t['args'][0])
            okk = any(o[0] not in ('param', 'const', 'place') and o[1].get('k') == 'call' and o[1] is vc[0][1] for o in rec)
    C.check(okk, 'C14-SIB-key', 'indices-then-elements', 'the sort comparator no longer orders by specification position first and by element comparison only on ties',
            sample={'comparator': 'elem_indices_a.cmp(elem_indices_b).then(elem_a.cmp(elem_b))'})
    # children are sorted BEFORE the siblings are compared (the comparison falls back to content): every Element::sort call
    # of the sorting branch precedes the sort_by call
    sb = calls(sr, r'<impl \[T\]>::sort_by$|sort_by$|sort_unstable_by$|sort_by_key$')
    rs0 = calls(sr, r'impl Element>::sort$')
    if len(sb) != 1:
        C.anchor_missing('C14-SIB-key', 'sort_by call in ElementRaw::sort')
    else:
        late = [p for p in rs0 if p in sr.reach_from(sb[0])]
        early = [p for p in rs0 if sb[0] in sr.reach_from(p)]
        C.check(not late and bool(early), 'C14-SIB-key', 'children-sorted-before-siblings-are-compared',
                'child elements are sorted after (or not before) their parents are compared; sibling comparison falls back to content, so the result depends on the previous order and a second sort changes it', sr.where(sb[0]),
                sample={'fn': 'ElementRaw::sort', 'order': 'elem.sort() for every child, then sort_by'})
    # Element::cmp: no sub-comparison result is returned untested (falling through on Equal), except the final tie-breaker chain
    ec = P.get('<Element as Ord>::cmp')
    untested = []
    n_cmp = 0
    for pos, t in ec.iter_calls():
        if not call_matches(t, r'Ord>::cmp$|::cmp$') or call_matches(t, r'Ordering::then'):
            continue
        n_cmp += 1
        d = t['dst']
        if d['l'] == 0 and not d['p']:
            untested.append(pos)
            continue
        from flow import forward_taint
        tl = forward_taint(ec, {d['l']}, through_refs=True)
        tested = False
        feeds_then = False
        direct_ret = False
        for p2, role, pl, st in __import__('flow').iter_uses(ec):
            if not (is_local_op(pl) and pl['l'] in tl):
                continue
            if role == 'switch' or role == 'discr' or (role.startswith('arg') and st.get('k') == 'call' and call_matches(st, r'PartialEq.*::(ne|eq)$')):
                tested = True
            if role.startswith('arg') and st.get('k') == 'call' and call_matches(st, r'Ordering::then'):
                feeds_then = True
            if role.startswith('use') and st.get('k') == 'assign' and st['dst']['l'] == 0 and not st['dst']['p']:
                direct_ret = True
        if direct_ret and not tested and not feeds_then:
            untested.append(pos)
    C.check(not untested and n_cmp >= 6, 'C14-SIB-key', 'Element::cmp|no-untested-early-return',
            'Element::cmp returns the result of a sub-comparison without testing it for Equal (%d sites): elements that tie on that key are never compared further, so their order depends on the previous order' % len(untested),
            ec.where(untested[0]) if untested else '', sample={'fn': '<Element as Ord>::cmp', 'sub_comparisons': n_cmp, 'untested_returns': len(untested)})
    # recursion into children happens on both branches
    rs = calls(sr, r'impl Element>::sort$')
    C.check(len(rs) == 2, 'C14-FLOW-refill', 'descends-into-children-on-both-branches', 'sort no longer descends into the child elements on both the sorting and the non-sorting branch (%d calls)' % len(rs))
    # ... into EVERY child: each descent is inside a loop that walks a list (the content list, or the vector collected from it)
    from flow import deep_sources
    for i, p_ in enumerate(rs):
        loops = [(h, body) for h, body in sr.natural_loops() if p_[0] in body]
        okl = False
        for h, body in loops:
            for q, t in sr.iter_calls():
                if q[0] in body and call_matches(t, r'Iterator>?::next$'):
                    n_, c_, f_ = deep_sources(sr, t['args'][0], depth=12)
                    if 'ElementRaw.content' in f_ or any(c.endswith('IntoIterator>::into_iter') or c.endswith('::iter') or c.endswith('::iter_mut') for c in c_):
                        okl = True
        C.check(okl, 'C14-FLOW-refill', 'descends-into-every-child#%d' % i, 'sort descends into a single child (e.g. content.first()) instead of walking all children: below an ordered container only the first child is sorted, the result then depends on the initial order of the others',
                sr.where(p_), sample={'fn': 'ElementRaw::sort', 'descent_in_loop_over_children': okl} if i == 0 else None)
    # sorting never fails: the closure of sort()/cmp has no undischarged panic site (same ledger as C12, restricted to this closure)
    C.rule('C14-LEDGER-panic', 'every panic-capable operation reachable from Element::sort / ElementRaw::sort / <Element as Ord>::cmp is discharged (automatic rule or reviewed ledger entry with its guard facts)')
    import ledger as LG
    LG.run_ledger(C, P, 'C14-LEDGER-panic', [es.id, sr.id, P.get('<Element as Ord>::cmp').id], 'sort()')
    C.rule('C14-SIB-total', 'Element::cmp is a lexicographic chain of per-element key comparisons: no branch on a predicate relating both operands other than the Equal-test of a stage result (stages with optional keys are enumerated as evidence)')
    total_order_rules(C, P)
    return C.finish('Narrow structural clauses: sorting only permutes the content list (write-set), never reorders ordered types, re-inserts exactly the handles it removed, compares specification position first. '
                    'Idempotence and order-independence are NOT decided.')

"""C14 - sorting only permutes the content list: write-set, ordered-guard, refill, comparator key order.
Does NOT decide idempotence / independence of the initial order (they need Ord for Element to be a total order, a statement
about run-time values; it is not: a2 < a10 < a1b < a2 - recorded in DESIGN.md, no static rule claims to detect it)."""
from ir import Program, callee_of, callee_generic, has_field
from flow import origins, is_local_op, call_matches, must_pass, source_names, strict_source_roots
import events as E
from pairing import calls, dominated_by
from framework import Check
import c11
from locks import BodyLocks


def run(ctx):
    C = Check('C14', ctx['tier'], 'other', ctx['seed'])
    P = Program(ctx['facts'])
    C.rule('C14-WHO-writeset', 'the transitive write-set of Element::sort / ElementRaw::sort over model state is exactly {ElementRaw.content}: no index op, no parent-set, no attribute / comment / character-data / membership write is reachable')
    C.rule('C14-MUST-ordered', 'the content.clear() of sort is reachable only when the type is not ordered and the content mode is Sequence/Choice/Bag')
    C.rule('C14-FLOW-refill', 'between clear() and return every path runs the refill loop over the vector that was filled from the same content list before the clear; nothing can exit in between')
    C.rule('C14-SIB-key', 'the comparator compares the specification index vectors first and the elements only on equality (Ordering::then)')
    sr = P.get('ElementRaw::sort')
    es = P.get('Element::sort')
    # ---- write set ----
    reach = P.reachable_bodies([sr.id, es.id])
    n = 0
    for bid in sorted(reach):
        b = P.bodies[bid]
        if b.crate != 'autosar_data':
            continue
        BL = BodyLocks(P, b)
        for pos, d in c11.direct_mutations(b, BL):
            n += 1
            ok = d.startswith('ElementRaw.content.') and b.short == 'ElementRaw::sort'
            C.check(ok, 'C14-WHO-writeset', '%s|%s' % (b.short, d), 'sorting reaches a write of model state other than the content list being sorted (%s in %s)' % (d, b.short), b.where(pos),
                    sample={'fn': b.short, 'write': d})
        for o in E.ident_ops(b) + E.reforig_ops(b):
            if E.is_mutating(o) and o['op'] != 'get_mut':
                C.fail('C14-WHO-writeset', '%s|index-op|%s' % (b.short, o['op']), 'sorting reaches an edit of the path / reference index', b.where(o['pos']))
        for p in E.parent_sets(b):
            if p['how'] != 'literal':
                C.fail('C14-WHO-writeset', '%s|parent-set' % b.short, 'sorting reaches a write of a parent link', b.where(p['pos']))
    C.floor('C14-WHO-writeset.writes', n, 2)
    C.extra['bodies_reachable_from_sort'] = len(reach)
    # ---- ordered guard ----
    ops = E.content_ops(sr)
    clr = [o['pos'] for o in ops if o['op'] == 'clear']
    psh = [o for o in ops if o['op'] == 'push' and o['item'] == 'Element']
    if len(clr) != 1 or len(psh) != 1:
        C.anchor_missing('C14-MUST-ordered', 'ElementRaw::sort clear/push (found %d/%d)' % (len(clr), len(psh)))
        return C.finish('fail closed')
    io = calls(sr, r'ElementType::is_ordered$')
    ok = len(io) == 1 and sr.pos_dominates(io[0], clr[0])
    if ok:
        t = sr.blocks[io[0][0]]['term']
        sw = sr.blocks[t['t']]['term']
        ok = sw['k'] == 'switch' and clr[0] not in sr.reach_from((sw['else'], 0), include_start=True, avoid={(sr.blocks[io[0][0]]['i'], 0)})
    C.check(ok, 'C14-MUST-ordered', 'clear-only-if-not-ordered', 'sort can reorder (clear + refill) the content of an element whose type is marked ordered', sr.where(clr[0]),
            sample={'fn': 'ElementRaw::sort', 'guard': '!elemtype.is_ordered() dominates content.clear()'})
    cm = calls(sr, r'ElementType::content_mode$')
    okm = len(cm) == 1 and sr.pos_dominates(cm[0], clr[0])
    if okm:
        t = sr.blocks[cm[0][0]]['term']
        sw = sr.blocks[t['t']]['term']
        # discriminant switch follows (possibly after a discr statement)
        swb = t['t']
        sw = sr.blocks[swb]['term']
        okm = sw['k'] == 'switch'
        if okm:
            d = dict(sw['ts'])
            # ContentMode: Sequence=0 Choice=1 Bag=2 Characters=3 Mixed=4
            bad_t = {d.get('3'), d.get('4')} - {None}
            okm = bool(bad_t) and all(clr[0] not in sr.reach_from((x, 0), include_start=True) for x in bad_t)
    C.check(okm, 'C14-MUST-ordered', 'clear-only-for-element-modes', 'sort can clear the content of a Characters / Mixed element', sr.where(clr[0]))
    # ---- refill ----
    rets = [pos for pos, t in sr.iter_terms() if t['k'] == 'return']
    ok = must_pass(sr, clr[0], rets, {psh[0]['pos']} | E.loops_containing(sr, [psh[0]['pos']]), include_start=False)
    C.check(ok, 'C14-FLOW-refill', 'refill-loop-after-clear', 'a path leads from content.clear() to the return without passing the refill loop (elements would be lost)', sr.where(clr[0]))
    # refill loop iterates the vector `sorting_vec`
    into = [(pos, t) for pos, t in sr.iter_calls() if call_matches(t, r'IntoIterator>::into_iter$') and sr.pos_dominates(pos, psh[0]['pos']) and sr.pos_dominates(clr[0], pos)]
    ok = len(into) == 1 and strict_source_roots(sr, into[0][1]['args'][0]) == {('local', 'sorting_vec')}
    C.check(ok, 'C14-FLOW-refill', 'refill-iterates-collected-vector', 'the refill loop does not iterate over exactly the vector that was collected before the clear', sr.where(psh[0]['pos']),
            sample={'fn': 'ElementRaw::sort', 'refill_source': 'sorting_vec (moved into the loop)'})
    # the pushed element comes from the refill loop's item
    okp = psh[0]['inner'] is not None and 'elem' in source_names(sr, psh[0]['inner']) or (psh[0]['inner'] is not None and bool(source_names(sr, psh[0]['inner'])))
    C.check(okp, 'C14-FLOW-refill', 'pushed-item-is-loop-item', 'the refill loop pushes something other than the collected handles')
    # the collection: sorting_vec.push((indices, elem.clone())) inside a loop over &self.content that dominates the clear
    vp = [(pos, t) for pos, t in sr.iter_calls() if call_matches(t, r'Vec::<T, A>::push$') and 'sorting_vec' in source_names(sr, t['args'][0])]
    ok = len(vp) == 1 and sr.pos_dominates(E.loops_containing(sr, [vp[0][0]]).pop() if E.loops_containing(sr, [vp[0][0]]) else (0, 0), clr[0]) and bool(E.loops_containing(sr, [vp[0][0]]))
    C.check(ok, 'C14-FLOW-refill', 'collect-loop-dominates-clear', 'the handles are not collected (in a loop) before the content list is cleared')
    if vp:
        # the collection loop iterates self.content and pushes on the Element arm: from the Element-arm edge every path to the loop header passes the push
        cinto = [(pos, t) for pos, t in sr.iter_calls() if call_matches(t, r'IntoIterator>::into_iter$') and sr.pos_dominates(pos, vp[0][0])]
        okc = False
        for pos, t in cinto:
            rp = E.recv_place(sr, t)
            if rp is not None and has_field(rp, 'ElementRaw.content'):
                okc = True
        C.check(okc, 'C14-FLOW-refill', 'collect-loop-iterates-content', 'the collection loop does not iterate over self.content')
        heads = E.loops_containing(sr, [vp[0][0]])
        okall = False
        for pos, s in sr.iter_stmts():
            if s['k'] == 'assign' and s['rv']['k'] == 'discr' and is_local_op(s['rv']['pl']) and 'ElementContent' in sr.local_ty(s['rv']['pl']['l']) and pos[0] in {b for h, body in sr.natural_loops() if (h, 0) in heads for b in body}:
                sw = sr.blocks[pos[0]]['term']
                if sw['k'] == 'switch':
                    el_t = dict(sw['ts']).get('0')
                    if el_t is not None:
                        okall = must_pass(sr, (el_t, 0), list(heads), {vp[0][0]})
        C.check(okall, 'C14-FLOW-refill', 'every-element-item-is-collected', 'an Element item of the content list can be skipped by the collection loop (it would be dropped by the clear)')
    # no exit between clear and refill end: no err exits at all (fn returns ()), and no panic-capable call between
    import panics as PN
    between = sr.reach_from(clr[0])
    risky = [s for s in PN.sites_in_body(sr) if s.pos in between and not PN.auto_discharge(s)]
    C.check(not risky, 'C14-FLOW-refill', 'no-panic-site-after-clear', 'a panic-capable operation sits between clear() and the end of the refill: %s' % [s.key() for s in risky])
    # ---- comparator ----
    cl = [x for x in P.closures_of(sr)]
    okk = False
    for x in cl:
        th = [pos for pos, t in x.iter_calls() if call_matches(t, r'Ordering::then$')]
        ec = [pos for pos, t in x.iter_calls() if call_matches(t, r'Element as .*Ord>::cmp$|Ord for Element>::cmp$')]
        vc = [(pos, t) for pos, t in x.iter_calls() if call_matches(t, r'Vec<.*> as .*Ord>::cmp$|Ord>::cmp$') and pos not in ec]
        if len(th) == 1 and len(ec) == 1 and len(vc) >= 1:
            t = x.blocks[th[0][0]]['term']
            # receiver of then() is the result of the index-vector comparison
            rec = origins(x, t['args'][0])
            okk = any(o[0] not in ('param', 'const', 'place') and o[1].get('k') == 'call' and o[1] is vc[0][1] for o in rec)
    C.check(okk, 'C14-SIB-key', 'indices-then-elements', 'the sort comparator no longer orders by specification position first and by element comparison only on ties',
            sample={'comparator': 'elem_indices_a.cmp(elem_indices_b).then(elem_a.cmp(elem_b))'})
    # children are sorted BEFORE the siblings are compared (the comparison falls back to content): every Element::sort call
    # of the sorting branch precedes the sort_by call
    sb = calls(sr, r'<impl \[T\]>::sort_by$|sort_by$|sort_unstable_by$|sort_by_key$')
    rs0 = calls(sr, r'impl Element>::sort$')
    if len(sb) != 1:
        C.anchor_missing('C14-SIB-key', 'sort_by call in ElementRaw::sort')
    else:
        late = [p for p in rs0 if p in sr.reach_from(sb[0])]
        early = [p for p in rs0 if sb[0] in sr.reach_from(p)]
        C.check(not late and bool(early), 'C14-SIB-key', 'children-sorted-before-siblings-are-compared',
                'child elements are sorted after (or not before) their parents are compared; sibling comparison falls back to content, so the result depends on the previous order and a second sort changes it', sr.where(sb[0]),
                sample={'fn': 'ElementRaw::sort', 'order': 'elem.sort() for every child, then sort_by'})
    # Element::cmp: no sub-comparison result is returned untested (falling through on Equal), except the final tie-breaker chain
    ec = P.get('<Element as Ord>::cmp')
    untested = []
    n_cmp = 0
    for pos, t in ec.iter_calls():
        if not call_matches(t, r'Ord>::cmp$|::cmp$') or call_matches(t, r'Ordering::then'):
            continue
        n_cmp += 1
        d = t['dst']
        if d['l'] == 0 and not d['p']:
            untested.append(pos)
            continue
        from flow import forward_taint
        tl = forward_taint(ec, {d['l']}, through_refs=True)
        tested = False
        feeds_then = False
        direct_ret = False
        for p2, role, pl, st in __import__('flow').iter_uses(ec):
            if not (is_local_op(pl) and pl['l'] in tl):
                continue
            if role == 'switch' or role == 'discr' or (role.startswith('arg') and st.get('k') == 'call' and call_matches(st, r'PartialEq.*::(ne|eq)$')):
                tested = True
            if role.startswith('arg') and st.get('k') == 'call' and call_matches(st, r'Ordering::then'):
                feeds_then = True
            if role.startswith('use') and st.get('k') == 'assign' and st['dst']['l'] == 0 and not st['dst']['p']:
                direct_ret = True
        if direct_ret and not tested and not feeds_then:
            untested.append(pos)
    C.check(not untested and n_cmp >= 6, 'C14-SIB-key', 'Element::cmp|no-untested-early-return',
            'Element::cmp returns the result of a sub-comparison without testing it for Equal (%d sites): elements that tie on that key are never compared further, so their order depends on the previous order' % len(untested),
            ec.where(untested[0]) if untested else '', sample={'fn': '<Element as Ord>::cmp', 'sub_comparisons': n_cmp, 'untested_returns': len(untested)})
    # recursion into children happens on both branches
    rs = calls(sr, r'impl Element>::sort$')
    C.check(len(rs) == 2, 'C14-FLOW-refill', 'descends-into-children-on-both-branches', 'sort no longer descends into the child elements on both the sorting and the non-sorting branch (%d calls)' % len(rs))
    return C.finish('Narrow structural clauses: sorting only permutes the content list (write-set), never reorders ordered types, re-inserts exactly the handles it removed, compares specification position first. '
                    'Idempotence and order-independence are NOT decided.')

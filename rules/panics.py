"""panics.py - closed ledger of panic-capable sites reachable from an entry set (C02-LEDGER-panic, C12-LEDGER-panic),
loop-progress and recursion facts.  A site is keyed (function, kind, descriptor, ordinal) - never by line."""
import re
from collections import defaultdict
from ir import callee_of, callee_generic
from flow import origins, is_local_op, call_matches, defs_of, const_val, source_names, resolve_place, forward_taint, deep_sources

PANIC_CALLS = [
    (re.compile(r'Option::<T>::(unwrap|expect)$'), 'unwrap'),
    (re.compile(r'Result::<T, E>::(unwrap|expect|unwrap_err|expect_err)$'), 'unwrap'),
    (re.compile(r'slice::index::<impl .*Index(Mut)?<I> for \[T\]>::index(_mut)?$|<impl .*Index(Mut)?<I> for \[T\]>::index(_mut)?$'), 'slice-index'),
    (re.compile(r'str::traits::<impl .*Index(Mut)?<I> for str>::index(_mut)?$|Index<I> for str>::index$|String as .*Index<.*>>::index$'), 'str-index'),
    (re.compile(r'array::<impl .*Index(Mut)?<I> for \[T; N\]>::index(_mut)?$'), 'array-index'),
    (re.compile(r'Vec<T, A> as .*Index(Mut)?<I>>::index(_mut)?$|SmallVec<A> as .*Index(Mut)?<I>>::index(_mut)?$|VecDeque.*Index'), 'vec-index'),
    (re.compile(r'(Vec::<T, A>|SmallVec::<A>)::(insert|remove|swap_remove|drain|split_off|insert_many)$|String::(insert|insert_str|remove|drain|replace_range|split_off)$'), 'vec-position'),
    (re.compile(r'<impl \[T\]>::(rotate_left|rotate_right|split_at|split_at_mut|copy_from_slice|clone_from_slice|swap|chunks|chunks_exact|windows|select_nth_unstable.*)$|<impl str>::(split_at|split_at_mut)$'), 'slice-position'),
    (re.compile(r'core::panicking::(panic|panic_fmt|panic_display|panic_explicit|unreachable_display|panic_nounwind.*|assert_failed.*|panic_str.*)$|std::rt::(begin_panic|panic_fmt)$|core::panicking::panic_cannot_unwind$|core::option::(unwrap_failed|expect_failed)$|core::result::unwrap_failed$'), 'panic'),
    (re.compile(r'IndexMap.* as .*Index<.*>>::index$|HashMap.* as .*Index<.*>>::index$|BTreeMap.*Index'), 'map-index'),
    (re.compile(r'(u8|u16|u32|u64|usize|i32|i64)::from_str_radix$|char::from_digit$|<impl char>::to_digit$'), 'radix'),
    (re.compile(r'Iterator>?::step_by$|RefCell.*::(borrow|borrow_mut)$|LocalKey.*::with$|Duration::(from_secs_f64|from_secs_f32)$'), 'misc'),
]
IGNORED_ASSERTS = ('misaligned', 'nullptr')


def opname(b, o):
    if not is_local_op(o):
        v = o.get('v', '?')
        return str(v)[:20]
    n = source_names(b, o)
    base = sorted(n)[0] if n else ('_t')
    proj = ''.join(p for p in o['p'] if p not in ('*',))
    flds = [p.rsplit('.', 1)[-1] for p in o['p'] if p.startswith('.') and not p[1:2].isdigit()]
    if flds:
        return '%s.%s' % (base, flds[-1])
    return base


def callee_tail(t):
    c = callee_of(t) or callee_generic(t) or '?'
    c = re.sub(r'<[^<>]*>', '', c)
    return c.rsplit('::', 2)[-2:] and '::'.join(c.rsplit('::', 2)[-2:])


def receiver_desc(b, t):
    """what an unwrap/expect/index is applied to: the producing call or the variable"""
    if not t['args']:
        return '?'
    a = t['args'][0]
    for org in origins(b, a):
        if org[0] in ('param',):
            return 'param:' + b.names.get(org[1], '_%d' % org[1])
        if org[0] == 'const':
            return 'const'
        if org[0] == 'place':
            return opname(b, org[1])
        st = org[1]
        if st.get('k') == 'call':
            return callee_tail(st) + '()'
        if st.get('k') == 'assign' and st['rv']['k'] == 'ref':
            return '&' + opname(b, st['rv']['pl'])
        if st.get('k') == 'assign' and st['rv']['k'] == 'agg':
            return 'agg:' + str(st['rv'].get('var') or st['rv'].get('ak'))
    return opname(b, a)


class Site:
    def __init__(self, b, pos, kind, desc, term):
        self.b, self.pos, self.kind, self.desc, self.term = b, pos, kind, desc, term
        self.ordinal = 0
        self.discharge = None
        self.macro = (term.get('s') or {}).get('x')

    def key(self):
        return '%s|%s|%s|#%d' % (self.b.short, self.kind, self.desc, self.ordinal)

    def canon(self):
        return canon_desc(self.desc)

    def operand_names(self):
        """user variable names of the operands of the panic-capable operation (for rename-tolerant guard facts)"""
        b, t = self.b, self.term
        out = set()
        ops = []
        if t['k'] == 'assert':
            ops = [t.get(k) for k in ('a', 'b', 'index', 'len') if t.get(k) is not None]
        elif t['k'] == 'call':
            ops = list(t['args'])
            for o, role in site_index_operands(b, self):
                ops.append(o)
        for o in ops:
            if is_local_op(o):
                n, c, f = deep_sources(b, o, depth=6)
                out |= set(n)
        return out - {'self'}

    def where(self):
        return self.b.where(self.pos)


def canon_desc(desc):
    """description of a site with the names of local variables replaced by `$`: `&rem.index<RangeFrom>` -> `&$.index<RangeFrom>`,
    `Sub(comment_endpos,2_usize)` -> `Sub($,2_usize)`, `bytestr[_t]` -> `$[$]`; field paths after `self.` and method names stay"""
    m = re.match(r'^(\w+)\((.*),(.*)\)$', desc)
    def var(x):
        x = x.strip()
        if re.match(r'^\d', x) or x == '':
            return x
        return '$'
    if m and m.group(1)[0].isupper():
        return '%s(%s,%s)' % (m.group(1), var(m.group(2)), var(m.group(3)))
    m = re.match(r'^([^\[\]]*)\[(.*)\]$', desc)
    if m:
        base = m.group(1)
        base = base if base.startswith('self.') or base.startswith('len=') else '$'
        return '%s[%s]' % (base, '$')
    m = re.match(r'^(&?)(\w+)((?:\.\w+)*)\.(\w+(?:<\w+>)?)$', desc)
    if m:
        amp, root, path, meth = m.groups()
        if root == 'self' and path:
            return desc
        return '%s$%s.%s' % (amp, path, meth)
    return desc


def sites_in_body(b):
    out = []
    for pos, t in b.iter_terms():
        if t['k'] == 'assert':
            mk = t['mk']
            if mk in IGNORED_ASSERTS:
                continue
            if mk == 'bounds':
                desc = '%s[%s]' % (opname(b, t['len']) if is_local_op(t['len']) else 'len=' + str(const_val(t['len'])), opname(b, t['index']))
                # find the indexed place: the Len operand's origin
                out.append(Site(b, pos, 'bounds', bounds_desc(b, pos, t), t))
            elif mk.startswith('overflow:'):
                op = mk.split(':', 1)[1]
                a = opname(b, t['a']) if 'a' in t else '?'
                bb = opname(b, t['b']) if 'b' in t else ''
                out.append(Site(b, pos, 'overflow', '%s(%s,%s)' % (op, a, bb), t))
            elif mk in ('divzero', 'remzero'):
                out.append(Site(b, pos, mk, opname(b, t['a']), t))
            elif mk.startswith('other:'):
                if 'InvalidEnumConstruction' in mk:
                    continue
                out.append(Site(b, pos, 'assert-other', mk[6:30], t))
        elif t['k'] == 'call':
            for rx, kind in PANIC_CALLS:
                if call_matches(t, rx):
                    nm = (callee_generic(t) or '').rsplit('::', 1)[-1]
                    if kind == 'panic':
                        macro = (t.get('s') or {}).get('x', '')
                        desc = macro or nm
                    elif kind in ('unwrap', 'slice-index', 'str-index', 'array-index', 'vec-index', 'vec-position', 'slice-position', 'map-index'):
                        desc = '%s.%s' % (receiver_desc(b, t), nm)
                        if kind in ('slice-index', 'str-index', 'array-index', 'vec-index'):
                            sub = t['f'].get('substs', [])
                            idx = [x for x in sub if 'Range' in x or x == 'usize']
                            if idx:
                                desc += '<%s>' % re.sub(r'.*::', '', idx[0].split('<')[0])
                    else:
                        desc = nm
                    out.append(Site(b, pos, kind, desc, t))
                    break
    # ordinals
    cnt = defaultdict(int)
    for s in sorted(out, key=lambda s: s.pos):
        k = (s.kind, s.desc)
        s.ordinal = cnt[k]
        cnt[k] += 1
    return out


def bounds_desc(b, pos, t):
    # the assert's condition is Lt(index, len); find what is indexed by looking at the first use after the assert
    idx = t['index']
    tgt = t['t']
    blk = b.blocks[tgt]
    il = idx['l'] if is_local_op(idx) else None
    for s in blk['stmts']:
        if s['k'] == 'assign':
            for pl in [s['dst']] + ([s['rv'].get('pl')] if s['rv'].get('pl') else []) + [o for o in [s['rv'].get('o')] if o]:
                if is_local_op(pl) and il is not None and ('[_%d]' % il) in pl['p']:
                    rp = resolve_place(b, {'l': pl['l'], 'p': pl['p'][:pl['p'].index('[_%d]' % il)]})
                    return '%s[%s]' % (opname(b, rp), opname(b, idx))
    return '?[%s]' % opname(b, idx)


# ------------------------------------------------------------------------------------------ automatic discharges
def auto_discharge(s):
    """returns a reason string when the site provably cannot fire, else None."""
    b, t = s.b, s.term
    if s.macro and 'debug_assert' in s.macro:
        return 'auto/debug-assert: compiled out without debug assertions; states an invariant also relied on by the indexing that follows (listed for review in the dev profile)'
    if s.kind == 'overflow':
        op = t['mk'].split(':', 1)[1]
        a, bb = t.get('a'), t.get('b')
        ty = _overflow_type(b, t)
        if op == 'Add' and ty == 'usize':
            for o in (a, bb):
                c = o.get('i') if isinstance(o, dict) and 'c' in o else None
                if c is not None and int(c) <= 65536:
                    return 'auto/usize-plus-small-const: a count/position of in-memory objects is <= isize::MAX, adding %s cannot wrap' % c
        if op == 'Add' and ty in ('u32', 'u64') and False:
            return None
    if s.kind in ('bounds', 'array-index'):
        st = _static_base(b, s)
        if st:
            return 'auto/spec-table: index into the literal table %s; all stored indices/ranges are in range (C18-DATA-wellformed) and the index has type-id/definition-id provenance (C18-WHO-tableindex)' % st
    if s.kind == 'overflow' and t['mk'].endswith(':Add'):
        a, bb = t.get('a'), t.get('b')
        if _overflow_type(b, t) == 'usize' and not _from_parsed_number(b, a) and not _from_parsed_number(b, bb):
            return 'auto/usize-add-of-positions: both operands are positions/lengths/counters of in-memory objects (none derives from a parsed number), each <= isize::MAX'
    if s.kind == 'bounds':
        # index derived from a u8 (cast) into an array of length >= 256, or constant index below a constant length
        ln, idx = t['len'], t['index']
        lc = int(ln['i']) if isinstance(ln, dict) and 'i' in ln else None
        if lc is not None:
            if isinstance(idx, dict) and 'i' in idx and int(idx['i']) < lc:
                return 'auto/const-index: %s < %d' % (idx['i'], lc)
            if is_local_op(idx):
                for org in origins(b, idx):
                    if org[0] not in ('param', 'const', 'place') and org[1].get('k') == 'assign' and org[1]['rv']['k'] == 'cast':
                        src = org[1]['rv']['o']
                        if is_local_op(src) and b.local_ty(src['l']) == 'u8' and lc >= 256:
                            return 'auto/u8-index: a u8 value indexes an array of length %d' % lc
                # Rem by the same constant
                for p2, s2 in b.iter_stmts():
                    if s2['k'] == 'assign' and s2['rv']['k'] == 'bin' and s2['rv']['op'] == 'Rem' and not s2['dst']['p']:
                        if s2['dst']['l'] in {x for x in _copies_back(b, idx['l'])}:
                            c = s2['rv']['b']
                            if isinstance(c, dict) and 'i' in c and int(c['i']) <= lc:
                                return 'auto/modulo-index: index is a remainder modulo %s <= array length %d' % (c['i'], lc)
        # dominating compare  i < len(p) with the same slice
        d = dominating_lt(b, s.pos, idx, ln)
        if d:
            return d
    if s.kind == 'overflow' and t['mk'].endswith(':Sub') and is_local_op(t.get('a')) and is_local_op(t.get('b')):
        la = _len_source(b, t['a'])
        if la is not None:
            n_, c_, f_ = deep_sources(b, t['b'], depth=12)
            counted = any(re.search(r'Iterator>?::count$', c or '') for c in c_) and not any(re.search(r'::(chain|cycle|repeat|flat_map|flatten|zip)$', c or '') for c in c_)
            if counted and (set(la) & (set(n_) | {x.split('.')[-1] for x in f_})):
                return 'auto/len-minus-count: the subtrahend counts items of an iterator over the same collection (without chain / flat_map), so it is <= len'
    if s.kind == 'overflow' and t['mk'].endswith(':Sub') and is_local_op(t.get('a')) and not is_local_op(t.get('b')) and str(t['b'].get('i')) == '1':
        d = _nonempty_tail_minus_one(b, t['a'])
        if d:
            return d
    d = search_index_discharge(b, s)
    if d:
        return d
    d = const_bound_under_len_test(b, s)
    if d:
        return d
    if s.kind in ('remzero', 'divzero'):
        a = t['a']
        if isinstance(a, dict) and 'i' in a and int(a['i']) != 0:
            return 'auto/const-divisor: %s' % a['i']
    if s.kind == 'unwrap':
        for org in origins(b, t['args'][0]) if t['args'] else []:
            if org[0] not in ('param', 'const', 'place') and org[1].get('k') == 'call' and call_matches(org[1], r'ElementType::find_sub_element$'):
                m = org[1]['args'][2] if len(org[1]['args']) > 2 else None
                if isinstance(m, dict) and m.get('i') == '4294967295':
                    return 'auto/any-version-lookup: find_sub_element(name of an existing child, u32::MAX) - the loader admits a child only if it exists in SOME version, the editor only if it exists in the file version'
        d = unwrap_after_check(b, s.pos, t)
        if d:
            return d
    return None


SEARCH_CALLS = r'Iterator>?::(position|rposition)$|<impl \[T\]>::(iter)$|<impl str>::(find|rfind)$|memchr|<impl \[T\]>::(partition_point|binary_search)'
PREFIX_CALLS = r'<impl str>::(trim_end_matches|trim_end|trim_right_matches|strip_suffix|trim_right)$|<impl \[T\]>::(strip_suffix|trim_ascii_end)$'


def site_receiver_names(b, s):
    """user variable names of the indexed collection of a site (call based kinds: arg0; bounds asserts: the indexed place)"""
    t = s.term
    if t['k'] == 'call' and t['args']:
        n, c, f = deep_sources(b, t['args'][0], depth=6)
        return set(n) | {x.split('.')[-1] for x in f}
    if t['k'] == 'assert' and t.get('mk') == 'bounds':
        n, c, f = deep_sources(b, t['len'], depth=6) if is_local_op(t['len']) else (set(), set(), set())
        return set(n) | {x.split('.')[-1] for x in f}
    return set()


def site_index_operands(b, s):
    """[(operand, role)] role in {'index','start','end','end_incl'}"""
    t = s.term
    out = []
    if t['k'] == 'assert' and t.get('mk') == 'bounds':
        return [(t['index'], 'index')]
    if t['k'] != 'call' or len(t['args']) < 2:
        return out
    a = t['args'][1]
    got = False
    for org in origins(b, a):
        if org[0] not in ('param', 'const', 'place') and org[1].get('k') == 'assign' and org[1]['rv']['k'] == 'agg' and org[1]['rv'].get('adt') in ('Range', 'RangeFrom', 'RangeTo', 'RangeInclusive', 'RangeToInclusive'):
            rv = org[1]['rv']
            got = True
            if rv['adt'] == 'Range':
                out += [(rv['ops'][0], 'start'), (rv['ops'][1], 'end')]
            elif rv['adt'] == 'RangeFrom':
                out += [(rv['ops'][0], 'start')]
            elif rv['adt'] == 'RangeTo':
                out += [(rv['ops'][0], 'end')]
            else:
                out += [(o, 'end_incl') for o in rv['ops'][:2]]
    if not got and is_local_op(a) and (b.local_ty(a['l']) or '') == 'usize':
        out.append((a, 'index'))
    return out


def _search_derived(b, o, recv_names, plus_ok, depth=8):
    """True iff operand o is (a copy of) the result of a search over the collection named by recv_names - position()/rposition()/
    find()/rfind() - possibly unwrapped (pattern match on Some, unwrap, unwrap_or(len), `?`), possibly +1 when plus_ok; or the length
    of a prefix of that collection (trim_end_matches / strip_suffix).  Such a value is < len (<= len with +1 / for a prefix)."""
    if depth == 0 or not is_local_op(o):
        return False
    res = []
    for org in origins(b, o):
        if org[0] == 'param' or org[0] == 'const':
            return False
        if org[0] == 'place':
            pl = org[1]
            # (opt as Some).0  /  (cf as Continue).0
            if any(x in ('as Some', 'as Continue') for x in pl['p']):
                res.append(_search_derived(b, {'l': pl['l'], 'p': []}, recv_names, plus_ok, depth - 1))
                continue
            if pl['p'] and pl['p'][-1] == '.0' and 'l' in pl:
                # checked arithmetic tuple
                res.append(_search_derived(b, {'l': pl['l'], 'p': []}, recv_names, plus_ok, depth - 1))
                continue
            return False
        st = org[1]
        if st.get('k') == 'assign' and st['rv']['k'] == 'bin' and st['rv']['op'] in ('Sub', 'SubWithOverflow', 'SubUnchecked') and plus_ok:
            ls = _len_source(b, st['rv']['a'])
            res.append(ls is not None and bool(set(ls) & recv_names))
            continue
        if st.get('k') == 'assign' and st['rv']['k'] == 'bin' and st['rv']['op'] in ('Add', 'AddWithOverflow', 'AddUnchecked'):
            a_, b_ = st['rv']['a'], st['rv']['b']
            c = b_ if not is_local_op(b_) else (a_ if not is_local_op(a_) else None)
            v = a_ if c is b_ else b_
            if c is None or not plus_ok or str(c.get('i')) != '1':
                return False
            res.append(_search_derived(b, v, recv_names, False, depth - 1))
            continue
        if st.get('k') == 'call':
            if call_matches(st, r'Iterator>?::(position|rposition)$|<impl str>::(find|rfind)$'):
                n, c, f = deep_sources(b, st['args'][0], depth=8)
                names = set(n) | {x.split('.')[-1] for x in f}
                res.append(bool(names & recv_names))
                continue
            if call_matches(st, r'Option::<T>::(unwrap|expect|unwrap_unchecked)$|Try>::branch$') and st['args']:
                res.append(_search_derived(b, st['args'][0], recv_names, plus_ok, depth - 1))
                continue
            if call_matches(st, r'Option::<T>::(map_or|map)$') and len(st['args']) >= 2 and _closure_plus(b, st['args'][-1]) is not None:
                # opt.map_or(0, |p| p + 1) / opt.map(|p| p + 1): the closure adds at most one to the position
                plus = _closure_plus(b, st['args'][-1])
                if plus and not plus_ok:
                    return False
                if call_matches(st, r'map_or$'):
                    dflt = st['args'][1]
                    ls = _len_source(b, dflt) if is_local_op(dflt) else None
                    zero = (not is_local_op(dflt)) and str(dflt.get('i')) == '0'
                    if not plus_ok or not (zero or (ls is not None and set(ls) & recv_names)):
                        return False
                res.append(_search_derived(b, st['args'][0], recv_names, plus_ok and not plus, depth - 1))
                continue
            if call_matches(st, r'Option::<T>::(unwrap_or|map_or)$') and len(st['args']) >= 2:
                # the default must be the length of the collection (a valid end) - only meaningful for range ends
                dflt = st['args'][1]
                ls = _len_source(b, dflt)
                if not plus_ok or ls is None or not (set(ls) & recv_names):
                    return False
                res.append(_search_derived(b, st['args'][0], recv_names, plus_ok, depth - 1))
                continue
            if call_matches(st, r'<impl str>::len$|<impl \[T\]>::len$') and st['args']:
                # length of a prefix of the collection
                n, c, f = deep_sources(b, st['args'][0], depth=8)
                names = set(n) | {x.split('.')[-1] for x in f}
                if plus_ok and any(re.search(PREFIX_CALLS, x or '') for x in c) and names & recv_names:
                    res.append(True)
                    continue
                return False
            return False
        return False
    return bool(res) and all(res)


def _closure_plus(b, o):
    """the closure passed as operand o returns its argument (0) or its argument + 1 (1); None for anything else"""
    P = getattr(b, 'program', None)
    if P is None or not is_local_op(o):
        return None
    for org in origins(b, o):
        if org[0] in ('param', 'const', 'place') or org[1].get('k') != 'assign' or org[1]['rv']['k'] != 'agg' or org[1]['rv'].get('ak') != 'closure':
            return None
        cb = P.bodies.get(org[1]['rv'].get('fn'))
        if cb is None or cb.argc != 2:
            return None
        plus = None
        for o2 in origins(cb, {'l': 0, 'p': []}):
            if o2[0] == 'param' and o2[1] == 2:
                plus = max(plus or 0, 0)
                continue
            pl = o2[1] if o2[0] == 'place' else None
            st = None
            if pl is not None and pl['p'] == ['.0']:
                ds = defs_of(cb, pl['l'])
                st = ds[0][1] if len(ds) == 1 else None
            elif o2[0] not in ('param', 'const', 'place'):
                st = o2[1]
            if st is not None and st.get('k') == 'assign' and st['rv']['k'] == 'bin' and st['rv']['op'] in ('Add', 'AddWithOverflow', 'AddUnchecked'):
                a_, b_ = st['rv']['a'], st['rv']['b']
                c = b_ if not is_local_op(b_) else (a_ if not is_local_op(a_) else None)
                v = a_ if c is b_ else b_
                if c is not None and str(c.get('i')) == '1' and is_local_op(v) and all(x[0] == 'param' and x[1] == 2 for x in origins(cb, v)):
                    plus = 1
                    continue
            return None
        return plus
    return None


def search_index_discharge(b, s):
    if s.kind not in ('slice-index', 'str-index', 'vec-index', 'vec-position', 'bounds', 'slice-position'):
        return None
    if s.kind == 'slice-position' and s.term['k'] == 'call':
        nm = (callee_generic(s.term) or '').rsplit('::', 1)[-1]
        if nm in ('windows', 'chunks', 'chunks_exact', 'rchunks', 'chunks_mut', 'chunks_exact_mut') and len(s.term['args']) >= 2:
            a1 = s.term['args'][1]
            c = a1.get('i') if not is_local_op(a1) else None
            if c is not None and int(c) > 0:
                return 'auto/nonzero-chunk-size: %s(%s) only panics for a size of 0' % (nm, c)
    recv = site_receiver_names(b, s) - {'self'}
    if not recv:
        return None
    ops = site_index_operands(b, s)
    if s.kind in ('vec-position', 'slice-position') and len(s.term['args']) >= 2 and (not ops or all(r == 'index' for o, r in ops)):
        ops = [(s.term['args'][1], 'index')]
        nm = (callee_generic(s.term) or '').rsplit('::', 1)[-1]
        if nm in ('insert', 'split_at', 'split_at_mut', 'split_off', 'truncate'):
            ops = [(s.term['args'][1], 'end')]      # mid == len is allowed
    if not ops:
        return None
    roles = [r for o, r in ops]
    if 'start' in roles and 'end' in roles and any(r == 'start' and is_local_op(o) for o, r in ops):
        return None        # a..b additionally needs a <= b, which two independent searches do not give
    for o, role in ops:
        if not is_local_op(o):
            if role in ('start', 'end') and str(o.get('i')) == '0':
                continue
            return None
        plus_ok = role in ('start', 'end')
        if s.kind == 'str-index' and role in ('start', 'end'):
            # +1 after a str::find is a char boundary only for a one-byte pattern; keep to the unshifted position and prefix lengths
            if not (_search_derived(b, o, recv, False) or _prefix_len(b, o, recv)):
                return None
            continue
        if not _search_derived(b, o, recv, plus_ok):
            return None
    return 'auto/index-from-search: every index/range bound is the result of position()/find() on the same collection (< len; +1 only for a range bound) or the length of one of its prefixes'


def const_bound_under_len_test(b, s):
    """x[..c] / x[c..] / x.split_at(c) / x[c] with a CONSTANT c, on an edge where `x.len() >= c` (resp. > c for a plain index) holds:
    a comparison of the length of the same collection with a constant whose needed outcome implies the bound"""
    if s.kind not in ('slice-index', 'str-index', 'slice-position', 'bounds', 'vec-index'):
        return None
    recv = site_receiver_names(b, s) - {'self'}
    ops = site_index_operands(b, s)
    if s.kind == 'slice-position' and s.term['k'] == 'call' and len(s.term['args']) >= 2:
        nm = (callee_generic(s.term) or '').rsplit('::', 1)[-1]
        if nm in ('split_at', 'split_at_mut'):
            ops = [(s.term['args'][1], 'end')]
    if not recv or not ops:
        return None
    need = 0
    for o, role in ops:
        if is_local_op(o) or o.get('i') is None:
            return None
        c = int(o['i'])
        need = max(need, c + 1 if role == 'index' else c)
    roles = [r for o, r in ops]
    if 'start' in roles and 'end' in roles:
        vals = {r: int(o['i']) for o, r in ops}
        if vals['start'] > vals['end']:
            return None
    from flow import must_pass
    for p2, st in b.iter_stmts():
        if st['k'] != 'assign' or st['rv']['k'] != 'bin' or st['rv']['op'] not in ('Lt', 'Le', 'Gt', 'Ge', 'Eq', 'Ne'):
            continue
        a_, c_ = st['rv']['a'], st['rv']['b']
        op = st['rv']['op']
        if not is_local_op(a_) and is_local_op(c_):
            a_, c_ = c_, a_
            op = {'Lt': 'Gt', 'Gt': 'Lt', 'Le': 'Ge', 'Ge': 'Le'}.get(op, op)
        if not is_local_op(a_) or is_local_op(c_) or c_.get('i') is None:
            continue
        ls = _len_source(b, a_)
        if ls is None or not (set(ls) & recv):
            continue
        k = int(c_['i'])
        sw = b.blocks[p2[0]]['term']
        if sw['k'] != 'switch' or set(dict(sw['ts']).keys()) != {'0'}:
            continue
        t_edge, f_edge = (p2[0], sw['else']), (p2[0], dict(sw['ts'])['0'])
        # which outcome is needed to reach the site?
        if must_pass(b, (0, 0), [s.pos], through=(), avoid_edges={t_edge}):
            holds = op
        elif must_pass(b, (0, 0), [s.pos], through=(), avoid_edges={f_edge}):
            holds = {'Lt': 'Ge', 'Le': 'Gt', 'Gt': 'Le', 'Ge': 'Lt', 'Eq': 'Ne', 'Ne': 'Eq'}[op]
        else:
            continue
        lower = {'Ge': k, 'Gt': k + 1, 'Eq': k}.get(holds)
        if lower is not None and lower >= need:
            return 'auto/const-bound-under-length-test: len(%s) %s %d holds on every path to the site, the constant bound needs len >= %d' % ('/'.join(sorted(recv)), {'Ge': '>=', 'Gt': '>', 'Eq': '=='}[holds], k, need)
    return None


def _prefix_len(b, o, recv):
    for org in origins(b, o):
        if org[0] in ('param', 'const', 'place'):
            return False
        st = org[1]
        if st.get('k') == 'call' and call_matches(st, r'<impl str>::len$|<impl \[T\]>::len$') and st['args']:
            n, c, f = deep_sources(b, st['args'][0], depth=8)
            names = set(n) | {x.split('.')[-1] for x in f}
            if any(re.search(PREFIX_CALLS, x or '') for x in c) and names & recv:
                continue
        return False
    return True



def _overflow_type(b, t):
    c = t.get('cond')
    if is_local_op(c):
        m = re.match(r'\((\w+), bool\)$', b.local_ty(c['l']))
        if m:
            return m.group(1)
    return None


def _static_base(b, s):
    t = s.term
    if s.kind == 'array-index':
        for org in origins(b, t['args'][0]):
            if org[0] == 'const' and 'static' in org[1]:
                return org[1]['static'].rsplit('::', 1)[-1]
            if org[0] not in ('param', 'const', 'place') and org[1].get('k') == 'assign' and org[1]['rv']['k'] == 'ref':
                for o2 in origins(b, {'l': org[1]['rv']['pl']['l'], 'p': []}):
                    if o2[0] == 'const' and 'static' in o2[1]:
                        return o2[1]['static'].rsplit('::', 1)[-1]
        return None
    idx = t['index']
    if not is_local_op(idx):
        return None
    blk = b.blocks[t['t']]
    for st in blk['stmts']:
        if st['k'] != 'assign':
            continue
        cands = [st['dst']] + [x for x in (st['rv'].get('pl'), st['rv'].get('o')) if x]
        for pl in cands:
            if is_local_op(pl) and ('[_%d]' % idx['l']) in pl['p'] and pl['p'][0] == '*':
                for o2 in origins(b, {'l': pl['l'], 'p': []}):
                    if o2[0] == 'const' and 'static' in o2[1]:
                        return o2[1]['static'].rsplit('::', 1)[-1]
    return None


def _from_parsed_number(b, o):
    if not is_local_op(o):
        return False
    for org in origins(b, o):
        if org[0] in ('param', 'const', 'place'):
            continue
        st = org[1]
        if st.get('k') == 'call' and call_matches(st, r'::parse$|from_str_radix$|FromStr>::from_str$|unsigned_integer_value$|parse_integer$'):
            return True
        if st.get('k') == 'assign' and st['rv']['k'] == 'cast' and is_local_op(st['rv']['o']) and b.local_ty(st['rv']['o']['l']) in ('u64', 'i64', 'u128', 'f64'):
            return True
    return False


def _copies_back(b, l, depth=6):
    out = {l}
    st = [l]
    while st and depth:
        depth -= 1
        x = st.pop()
        for pos, d in defs_of(b, x):
            if d['k'] == 'assign' and d['rv']['k'] in ('use', 'cast') and is_local_op(d['rv']['o']) and not d['rv']['o']['p']:
                if d['rv']['o']['l'] not in out:
                    out.add(d['rv']['o']['l'])
                    st.append(d['rv']['o']['l'])
    return out


def _nonempty_tail_minus_one(b, a):
    """`tail.len() - 1` where (head, tail) = x.split_at(p) and p is the result of a search over x (position / find: p < x.len()):
    the tail starts at the found item, so it has at least one item"""
    for org in origins(b, a):
        if org[0] in ('param', 'const', 'place'):
            continue
        st = org[1]
        src = None
        if st.get('k') == 'call' and call_matches(st, r'<impl \[T\]>::len$|<impl str>::len$') and st['args']:
            src = st['args'][0]
        elif st.get('k') == 'assign' and st['rv']['k'] == 'un' and st['rv']['op'] == 'PtrMetadata':
            src = st['rv']['o']
        if src is None or not is_local_op(src):
            continue
        # follow borrows / reborrows / copies back to `<tuple>.1`
        work, seen = [src], set()
        while work:
            o = work.pop()
            if not is_local_op(o):
                continue
            if o['p'] and o['p'][-1] == '.1' or (len(o['p']) >= 2 and o['p'][0] == '.1'):
                for o3 in origins(b, {'l': o['l'], 'p': []}):
                    if o3[0] in ('param', 'const', 'place'):
                        continue
                    c3 = o3[1]
                    if c3.get('k') == 'call' and call_matches(c3, r'<impl \[T\]>::split_at$|<impl str>::split_at$|<impl \[T\]>::split_at_mut$') and len(c3['args']) >= 2:
                        recv = source_names(b, c3['args'][0]) - {'self'}
                        if recv and _search_derived(b, c3['args'][1], recv, False):
                            return 'auto/nonempty-tail: the slice is the tail of split_at(p) with p the result of a search over the same collection (p < len), so its length is >= 1'
                continue
            if o['l'] in seen:
                continue
            seen.add(o['l'])
            from flow import defs_of
            for q, st2 in defs_of(b, o['l']):
                if st2['k'] == 'assign' and st2['rv']['k'] in ('use', 'cast'):
                    work.append(st2['rv']['o'])
                elif st2['k'] == 'assign' and st2['rv']['k'] in ('ref', 'rawptr'):
                    pl = st2['rv']['pl']
                    work.append({'l': pl['l'], 'p': [x for x in pl['p'] if x != '*']})
    return None


def _len_source(b, o):
    """name of the slice whose length an operand holds (through <[T]>::len / Len / PtrMetadata), or None"""
    if not is_local_op(o):
        return None
    for org in origins(b, o):
        if org[0] in ('param', 'const', 'place'):
            continue
        st = org[1]
        if st.get('k') == 'call' and call_matches(st, r'<impl \[T\]>::len$|Vec::<T, A>::len$|SmallVec::<A>::len$|<impl str>::len$|String::len$'):
            return tuple(sorted(source_names(b, st['args'][0]))) or ('?',)
        if st.get('k') == 'assign' and st['rv']['k'] == 'un' and st['rv']['op'] in ('PtrMetadata',):
            return tuple(sorted(source_names(b, st['rv']['o']))) or ('?',)
    return None


def dominating_lt(b, pos, idx, ln):
    """bounds assert Lt(idx, len): dominated by the true edge of a comparison idx < len(same slice) with idx not
    redefined in between."""
    if not is_local_op(idx):
        return None
    lsrc = _len_source(b, ln)
    if lsrc is None:
        return None
    inames = source_names(b, idx)
    for p2, s2 in b.iter_stmts():
        if s2['k'] != 'assign' or s2['rv']['k'] != 'bin' or s2['rv']['op'] not in ('Lt', 'Gt', 'Le', 'Ge', 'Ne', 'Eq'):
            continue
        op = s2['rv']['op']
        a, c = s2['rv']['a'], s2['rv']['b']
        if op == 'Gt':
            a, c, op = c, a, 'Lt'
        if op != 'Lt':
            continue
        if not (is_local_op(a) and inames & source_names(b, a)):
            continue
        if _len_source(b, c) != lsrc:
            continue
        # the switch on this comparison: true edge must dominate the assert
        sw = b.blocks[p2[0]]['term']
        if sw['k'] != 'switch':
            continue
        true_t = sw['else']
        if not b.pos_dominates((true_t, 0), pos):
            continue
        # idx variable not assigned between
        ivars = {l for l, n in b.names.items() if n in inames}
        region = b.reach_from((true_t, 0), include_start=True, avoid={pos, p2})
        redefined = False
        for p3, s3 in b.iter_stmts():
            if p3 in region and s3['k'] == 'assign' and not s3['dst']['p'] and s3['dst']['l'] in ivars and pos in b.reach_from(p3):
                redefined = True
        if not redefined:
            return 'auto/dominating-compare: `%s < len(%s)` tested on the dominating edge and %s not reassigned in between' % ('/'.join(sorted(inames)), '/'.join(lsrc), '/'.join(sorted(inames)))
    return None


def unwrap_after_check(b, pos, t):
    a = t['args'][0] if t['args'] else None
    if a is None or not is_local_op(a):
        return None
    names = source_names(b, a)
    # is_some()/is_ok() on the same variable dominating with true edge
    for p2, t2 in b.iter_calls():
        if call_matches(t2, r'Option::<T>::is_some$|Result::<T, E>::is_ok$') and t2['args'] and is_local_op(t2['args'][0]):
            if names & source_names(b, t2['args'][0]) and t2['t'] is not None:
                sw = b.blocks[t2['t']]['term']
                if sw['k'] == 'switch' and b.pos_dominates((sw['else'], 0), pos):
                    return 'auto/unwrap-after-check: is_some()/is_ok() on the same value tested on the dominating edge'
    # first next() of a split(): documented never None
    for org in origins(b, a):
        if org[0] not in ('param', 'const', 'place') and org[1].get('k') == 'call' and call_matches(org[1], r'Iterator>?::next$'):
            it = org[1]['args'][0]
            for o2 in origins(b, it):
                if o2[0] not in ('param', 'const', 'place') and o2[1].get('k') == 'assign' and o2[1]['rv']['k'] == 'ref':
                    il = o2[1]['rv']['pl']['l']
                    ds = defs_of(b, il)
                    if len(ds) == 1 and ds[0][1].get('k') == 'call' and call_matches(ds[0][1], r'<impl \[T\]>::split$|<impl str>::split$'):
                        # no earlier next() on this iterator
                        nexts = [p3 for p3, t3 in b.iter_calls() if call_matches(t3, r'Iterator>?::next$') and t3['args'] and is_local_op(t3['args'][0]) and il in {x for x in _ref_targets(b, t3['args'][0])}]
                        if nexts and min(nexts) == _pos_of_term(b, org[1]):
                            return 'auto/first-split-item: the first item of split() always exists'
    return None


def _ref_targets(b, o):
    out = set()
    for org in origins(b, o):
        if org[0] not in ('param', 'const', 'place') and org[1].get('k') == 'assign' and org[1]['rv']['k'] == 'ref':
            out.add(org[1]['rv']['pl']['l'])
    return out


def _pos_of_term(b, t):
    for pos, tt in b.iter_terms():
        if tt is t:
            return pos
    return None


# ------------------------------------------------------------------------------------------ closure / recursion / loops
def closure_of(P, entry_ids):
    return P.reachable_bodies(entry_ids)


def recursion_sccs(P, body_ids):
    """SCCs (size>1 or self-loop) of the call graph restricted to body_ids."""
    cg = P.callgraph()
    ids = set(body_ids)
    index = {}
    low = {}
    stack = []
    onstack = set()
    out = []
    counter = [0]
    import sys
    sys.setrecursionlimit(10000)

    def strong(v):
        index[v] = low[v] = counter[0]
        counter[0] += 1
        stack.append(v)
        onstack.add(v)
        for w in cg.get(v, ()):
            if w not in ids:
                continue
            if w not in index:
                strong(w)
                low[v] = min(low[v], low[w])
            elif w in onstack:
                low[v] = min(low[v], index[w])
        if low[v] == index[v]:
            comp = []
            while True:
                w = stack.pop()
                onstack.discard(w)
                comp.append(w)
                if w == v:
                    break
            if len(comp) > 1 or v in cg.get(v, ()):
                out.append(sorted(comp))
    for v in sorted(ids):
        if v not in index:
            strong(v)
    return out


def _origin_calls(b, l, depth=8):
    """call statements a local's value comes from, through reborrows / copies"""
    from flow import defs_of
    out = []; work = [l]; seen = set()
    while work and depth > 0:
        depth -= 1
        x = work.pop()
        if x in seen:
            continue
        seen.add(x)
        for q, st in defs_of(b, x):
            if st['k'] == 'call':
                out.append(st)
            elif st['k'] == 'assign':
                rv = st['rv']
                o = rv.get('pl') if 'pl' in rv else rv.get('o')
                if is_local_op(o):
                    work.append(o['l'])
    return out


def _positive(b, o, depth=8, seen=None):
    """is the usize operand certainly >= 1?  constants, x + c (c >= 1), and such values carried through tuples / Some(..) payloads
    (a helper returning Some((ch, consumed)))"""
    from flow import const_val, defs_of
    if seen is None:
        seen = set()
    if depth == 0:
        return False
    if not is_local_op(o):
        v = const_val(o)
        m = re.match(r'^(\d+)', str(v)) if v is not None else None
        return bool(m) and int(m.group(1)) >= 1

    def from_defs(l, proj):
        """value of local l projected by proj (list of tuple-field / Some-payload steps)"""
        key = (l, tuple(proj))
        if key in seen:
            return True
        seen.add(key)
        ds = defs_of(b, l)
        if not ds:
            return False
        res = []
        for q, st in ds:
            if st['k'] != 'assign':
                if st['k'] == 'call' and call_matches(st, r'FromResidual.*::from_residual$') and proj[:1] in (['as Some'], ['as Ok'], ['as Continue']):
                    continue        # `?` produced None / Err: the payload is only read on the other path
                if st['k'] == 'call' and proj and call_matches(st, r'Option::<T>::(and_then|map)$') and len(st['args']) >= 2:
                    # the payload is what the closure returns
                    P_ = getattr(b, 'program', None)
                    ok_c = False
                    for o_ in origins(b, st['args'][1]):
                        if o_[0] not in ('param', 'const', 'place') and o_[1].get('k') == 'assign' and o_[1]['rv']['k'] == 'agg' and o_[1]['rv'].get('ak') == 'closure' and P_ is not None:
                            cb = P_.bodies.get(o_[1]['rv'].get('fn'))
                            if cb is not None:
                                pr = list(proj) if call_matches(st, r'and_then$') else (list(proj[2:]) if proj[:2] == ['as Some', '.Option.0'] else None)
                                if pr is not None:
                                    ok_c = _positive(cb, {'l': 0, 'p': pr}, depth - 1)
                    res.append(ok_c)
                    continue
                if st['k'] == 'call' and not proj:
                    return False
                if st['k'] == 'call' and call_matches(st, r'Try>::branch$') and st['args'] and is_local_op(st['args'][0]):
                    res.append(from_defs(st['args'][0]['l'], [p for p in proj if p not in ('as Continue', '.ControlFlow.0')] if proj[:1] != ['as Continue'] else ['as Some', '.Option.0'] + proj[2:]))
                    continue
                return False
            rv = st['rv']
            if rv['k'] == 'use' and is_local_op(rv['o']):
                res.append(from_defs(rv['o']['l'], list(rv['o']['p']) + proj))
            elif rv['k'] == 'use':
                res.append(not proj and _positive(b, rv['o'], depth - 1, seen))
            elif rv['k'] == 'agg' and rv.get('var') in ('None', 'Break'):
                continue            # the payload is only read on the Some path
            elif rv['k'] == 'agg' and rv.get('var') in ('Some', 'Continue', 'Ok') and proj[:2] in (['as Some', '.Option.0'], ['as Continue', '.ControlFlow.0'], ['as Ok', '.Result.0']):
                o2 = rv['ops'][0]
                rest = proj[2:]
                res.append(from_defs(o2['l'], list(o2['p']) + rest) if is_local_op(o2) else (not rest and _positive(b, o2, depth - 1, seen)))
            elif rv['k'] == 'agg' and rv.get('ak') == 'tuple' and proj and re.match(r'^\.\d+$', proj[0]):
                idx = int(proj[0][1:])
                if idx >= len(rv['ops']):
                    return False
                o2 = rv['ops'][idx]
                rest = proj[1:]
                res.append(from_defs(o2['l'], list(o2['p']) + rest) if is_local_op(o2) else (not rest and _positive(b, o2, depth - 1, seen)))
            elif rv['k'] == 'bin' and 'Add' in rv['op'] and (not proj or proj == ['.0']):
                res.append(any(_positive(b, x, depth - 1, seen) for x in (rv['a'], rv['b'])))
            else:
                return False
        return bool(res) and all(res)
    return from_defs(o['l'], list(o['p']))


def _range_from_advances(b, rng):
    """is the start of this RangeFrom certainly >= 1?  (unknown shapes count as advancing: only the provably-maybe-zero case is excluded)"""
    from flow import const_val, defs_of
    if not is_local_op(rng):
        return True
    for org in origins(b, rng):
        if org[0] in ('param', 'const', 'place'):
            continue
        st = org[1]
        if st.get('k') == 'assign' and st['rv']['k'] == 'agg' and str(st['rv'].get('adt', '')).endswith('RangeFrom'):
            start = st['rv']['ops'][0]
            v = const_val(start)
            if v is not None:
                m = re.match(r'^(\d+)', str(v))
                return bool(m) and int(m.group(1)) >= 1
            if is_local_op(start) and _positive(b, start):
                return True
            for o2 in origins(b, start) if is_local_op(start) else []:
                if o2[0] == 'place':
                    # the .0 of a checked addition
                    for q, s3 in defs_of(b, o2[1]['l']):
                        if s3.get('k') == 'assign' and s3['rv']['k'] == 'bin' and 'Add' in s3['rv']['op']:
                            for x in (s3['rv']['a'], s3['rv']['b']):
                                cv = const_val(x)
                                m = re.match(r'^(\d+)', str(cv)) if cv is not None else None
                                if m and int(m.group(1)) >= 1:
                                    return True
                    continue
                if o2[0] in ('param', 'const'):
                    continue
                s2 = o2[1]
                if s2.get('k') == 'assign' and s2['rv']['k'] == 'bin' and 'Add' in s2['rv']['op']:
                    for x in (s2['rv']['a'], s2['rv']['b']):
                        cv = const_val(x)
                        m = re.match(r'^(\d+)', str(cv)) if cv is not None else None
                        if m and int(m.group(1)) >= 1:
                            return True
                    return False
                if s2.get('k') == 'call' or (s2.get('k') == 'assign' and s2['rv']['k'] in ('use', 'cast')):
                    return False      # a position found by a search (may be 0), or a plain variable
            return False
    return True


_ADV_CACHE = {}


def _must_advance(b, callee_id):
    P = getattr(b, 'program', None)
    cb = P.bodies.get(callee_id) if P is not None else None
    if cb is None:
        return True
    key = (id(P), callee_id)
    if key in _ADV_CACHE:
        return _ADV_CACHE[key]
    _ADV_CACHE[key] = True      # recursion: assume
    from flow import must_pass
    stores = [pos for pos, s in cb.iter_stmts() if s['k'] == 'assign' and any(p in ('.ArxmlLexer.bufpos', '.ArxmlLexer.deferred_end') for p in s['dst'].get('p', []))]    # deferred_end: the one-shot pending EndElement is consumed
    errs = [pos for pos, s in cb.iter_stmts() if s['k'] == 'assign' and s['rv']['k'] == 'agg' and s['rv'].get('adt') in ('AutosarDataError', 'ArxmlLexerError')]
    errs += [pos for pos, t in cb.iter_calls() if call_matches(t, r'ArxmlLexer[^:]*(::<[^>]*>)?::error$|FromResidual.*::from_residual$')]     # `?`: the error of a callee is returned
    # a reader that delegates to another reader which must advance
    deleg = [pos for pos, t in cb.iter_calls() if callee_of(t) and callee_of(t) != callee_id and re.search(r'ArxmlLexer.*::(next|read_characters|read_xml_header|read_comment|read_element_start|read_element_end)$', callee_of(t)) and _must_advance(cb, callee_of(t))]
    rets = [pos for pos, t in cb.iter_terms() if t['k'] == 'return']
    if re.search(r'ArxmlLexer.*::next$', callee_id) or re.search(r'ArxmlParser.*::next$', callee_id):
        # next(): returns an event a reader produced, EndOfFile, or an error
        eof = [pos for pos, s in cb.iter_stmts() if s['k'] == 'assign' and s['rv']['k'] == 'agg' and s['rv'].get('var') == 'EndOfFile']
        ok = must_pass(cb, (0, 0), rets, set(stores) | set(errs) | set(deleg) | set(eof))
    else:
        ok = bool(rets) and must_pass(cb, (0, 0), rets, set(stores) | set(errs) | set(deleg))
    _ADV_CACHE[key] = ok
    return ok


def loop_progress(b):
    """for every natural loop: is there, on every path header -> back to header, a progress event?
    progress = Iterator::next (or next_back/find/position...) on an iterator, or an assignment to a variable that the
    loop's exit comparison reads.  Returns list of (header, ok, why)."""
    out = []
    succ = b.normal_succs()
    for h, body in b.natural_loops():
        if b.blocks[h].get('nd_loop'):
            continue        # the artificial `zero or more times` loop of a closure placed at its adaptor call (closure view)
        # progress events inside the loop body
        prog = set()
        for bi in body:
            blk = b.blocks[bi]
            t = blk['term']
            if t['k'] == 'call' and call_matches(t, r'Iterator>?::(next|next_back|nth|find|find_map|position|any|all)$|DoubleEndedIterator>?::next_back$|Vec::<T, A>::pop$|SmallVec::<A>::pop$'):
                prog.add((bi, len(blk['stmts'])))
            if t['k'] == 'call' and callee_of(t) and any(x in (callee_of(t) or '') for x in ('ArxmlLexer', 'ArxmlParser')) and re.search(r'::(next|read_characters|read_xml_header|read_comment|read_element_start|read_element_end)$', callee_of(t) or ''):
                # a reader of the lexer is progress only if it cannot return without having moved the read position (or with an error,
                # which ends the caller's loop): every path to its return stores ArxmlLexer.bufpos or builds an error value
                if _must_advance(b, callee_of(t)):
                    prog.add((bi, len(blk['stmts'])))
        # exit-test variables: locals (by user name) read by comparisons / switches in the loop that have an edge leaving the loop
        exit_vars = set()
        for bi in body:
            t = b.blocks[bi]['term']
            if t['k'] == 'switch' and any(s not in body for s in b.succs(bi) if not b.blocks[s]['cleanup']):
                exit_vars |= source_names(b, t['d']) if is_local_op(t['d']) else set()
                if is_local_op(t['d']):
                    # `while let Some(x) = v.find(..)`: the tested value is the discriminant of a call result on v
                    from flow import deep_sources as _deep
                    exit_vars |= _deep(b, t['d'], depth=8)[0]
                # comparison operands
                for org in origins(b, t['d']) if is_local_op(t['d']) else []:
                    if org[0] not in ('param', 'const', 'place') and org[1].get('k') == 'assign' and org[1]['rv']['k'] == 'bin':
                        for o in (org[1]['rv']['a'], org[1]['rv']['b']):
                            exit_vars |= source_names(b, o)
                            for o2 in origins(b, o) if is_local_op(o) else []:
                                if o2[0] not in ('param', 'const', 'place') and o2[1].get('k') == 'call':
                                    for a2 in o2[1]['args']:
                                        exit_vars |= source_names(b, a2)
                    if org[0] not in ('param', 'const', 'place') and org[1].get('k') == 'call':
                        for o in org[1]['args']:
                            exit_vars |= source_names(b, o)
        var_locals = {l for l, n in b.names.items() if n in exit_vars}
        for bi in body:
            for i, s in enumerate(b.blocks[bi]['stmts']):
                if s['k'] == 'assign' and s['dst']['l'] in var_locals:
                    # x = x + c, x = &x[k..], x = call(...)
                    rv = s['rv']
                    src = rv.get('pl') if 'pl' in rv else rv.get('o')
                    nonadv = False
                    if is_local_op(src):
                        for cst in _origin_calls(b, src['l']):
                            if call_matches(cst, r'Index<.*>>::index$|::index$') and len(cst['args']) == 2 and not _range_from_advances(b, cst['args'][1]):
                                nonadv = True
                    if nonadv:
                        continue
                    # progress only if the variable is loop-carried: its new value is computed from its old value (x = x + 1,
                    # rem = &rem[k..], cur = cur.parent()) - a value recomputed from other state (endpos = find(..)) is not
                    vname = b.names.get(s['dst']['l'])
                    if not s['dst']['p'] and vname is not None and vname != 'self' and rv['k'] == 'use' and is_local_op(rv['o']):
                        from flow import deep_sources as _deep2
                        orgs = origins(b, rv['o'])
                        from_calls = [o_ for o_ in orgs if o_[0] not in ('param', 'const', 'place') and o_[1].get('k') == 'call']
                        if from_calls and len(from_calls) == len(orgs) and vname not in _deep2(b, rv['o'], depth=10)[0]:
                            # the value is the result of a call that does not involve the variable itself (endpos = find(..))
                            continue
                    prog.add((bi, i))
            t = b.blocks[bi]['term']
            if t['k'] == 'call' and not t['dst']['p'] and t['dst']['l'] in var_locals:
                # `x = &x[k..]` only advances if k >= 1 is certain (a constant, or something + constant); `&x[pos..]` with pos
                # from find()/position() may be `&x[0..]` and is NOT progress
                if call_matches(t, r'Index<.*>>::index$|::index$') and len(t['args']) == 2 and not _range_from_advances(b, t['args'][1]):
                    continue
                vname = b.names.get(t['dst']['l'])
                if vname is not None and vname != 'self' and call_matches(t, r'Iterator>?::(position|rposition|find)$|<impl str>::(find|rfind)$|memchr'):
                    from flow import deep_sources as _deep3
                    srcs = set()
                    for o_ in t['args']:
                        if is_local_op(o_):
                            srcs |= _deep3(b, o_, depth=10)[0]
                    if vname not in srcs:
                        continue
                prog.add((bi, len(b.blocks[bi]['stmts'])))
        # every cycle through h passes a progress event: remove progress positions, check h not reachable from h inside body
        ok = _no_cycle_without(b, h, body, prog)
        out.append((h, ok, sorted(exit_vars)))
    return out


def _no_cycle_without(b, h, body, prog):
    """True iff no cycle h -> ... -> h inside `body` avoids every progress position.  Boolean flags that are only ever assigned
    constants inside the loop (`let mut valid = false; .. valid = true; .. if !valid {..}`) are tracked, so that the infeasible
    combination "flag still false, but the `if !flag` branch not taken" is not followed."""
    from collections import deque
    from flow import const_val, defs_of
    flags = set()
    for l in range(len(b.locals)):
        if (b.local_ty(l) or '') != 'bool':
            continue
        ds = [(q, st) for q, st in defs_of(b, l) if q[0] in body]
        if ds and all(st['k'] == 'assign' and st['rv']['k'] == 'use' and str(const_val(st['rv']['o'])) in ('true', 'false') for q, st in ds):
            flags.add(l)

    def flag_of(d):
        neg = False
        cur = d
        for _ in range(4):
            if not is_local_op(cur) or cur.get('p'):
                return None
            if cur['l'] in flags:
                return cur['l'], neg
            ds = defs_of(b, cur['l'])
            if len(ds) != 1 or ds[0][1]['k'] != 'assign':
                return None
            rv = ds[0][1]['rv']
            if rv['k'] == 'use':
                cur = rv['o']
            elif rv['k'] == 'un' and rv.get('op') == 'Not':
                neg = not neg
                cur = rv['o']
            else:
                return None
        return None

    start = (h, 0)
    if start in prog:
        return True
    seen = set()
    dq = deque()

    def step(p, facts):
        bi, i = p
        out = []
        if i < b.nstmts(bi):
            st = b.blocks[bi]['stmts'][i]
            f2 = facts
            if st['k'] == 'assign' and not st['dst']['p'] and st['dst']['l'] in flags:
                v = str(const_val(st['rv']['o'])) == 'true'
                f2 = frozenset((k, x) for k, x in facts if k != st['dst']['l']) | {(st['dst']['l'], v)}
            out.append(((bi, i + 1), f2))
            return out
        t = b.blocks[bi]['term']
        succs = [s_ for s_ in b.succs(bi) if not b.blocks[s_]['cleanup']]
        if t['k'] == 'switch':
            fo = flag_of(t['d'])
            fd = dict(facts)
            if fo is not None and fo[0] in fd and set(dict(t['ts']).keys()) == {'0'}:
                val = fd[fo[0]] != fo[1]
                succs = [t['else'] if val else dict(t['ts'])['0']]
        for s_ in succs:
            out.append(((s_, 0), facts))
        return out

    for n, f in step(start, frozenset()):
        if n[0] in body and n not in prog:
            dq.append((n, f)); seen.add((n, f))
    while dq:
        p, facts = dq.popleft()
        if p == start:
            return False
        for n, f in step(p, facts):
            if n[0] not in body or n in prog:
                continue
            if (n, f) in seen:
                continue
            seen.add((n, f))
            dq.append((n, f))
    return True


def flag_reach(b, start, avoid, within=None):
    """positions reachable from `start` without entering a position of `avoid`, pruning the branches that contradict boolean flags
    which are only ever assigned constants (see _no_cycle_without).  `within`: optional set of blocks the walk must stay in;
    positions outside are returned (as reached) but not expanded."""
    from collections import deque
    from flow import const_val, defs_of
    flags = set()
    for l in range(len(b.locals)):
        if (b.local_ty(l) or '') != 'bool':
            continue
        ds = defs_of(b, l)
        if ds and all(st['k'] == 'assign' and st['rv']['k'] == 'use' and str(const_val(st['rv']['o'])) in ('true', 'false') for q, st in ds):
            flags.add(l)

    def flag_of(d):
        neg = False
        cur = d
        for _ in range(4):
            if not is_local_op(cur) or cur.get('p'):
                return None
            if cur['l'] in flags:
                return cur['l'], neg
            ds = defs_of(b, cur['l'])
            if len(ds) != 1 or ds[0][1]['k'] != 'assign':
                return None
            rv = ds[0][1]['rv']
            if rv['k'] == 'use':
                cur = rv['o']
            elif rv['k'] == 'un' and rv.get('op') == 'Not':
                neg = not neg
                cur = rv['o']
            else:
                return None
        return None
    avoid = set(avoid)
    seen = set()
    out = set()
    dq = deque([(start, frozenset())])
    seen.add((start, frozenset()))
    while dq:
        p, facts = dq.popleft()
        out.add(p)
        bi, i = p
        if within is not None and bi not in within:
            continue
        nxt = []
        if i < b.nstmts(bi):
            st = b.blocks[bi]['stmts'][i]
            f2 = facts
            if st['k'] == 'assign' and not st['dst']['p'] and st['dst']['l'] in flags:
                v = str(const_val(st['rv']['o'])) == 'true'
                f2 = frozenset((k, x) for k, x in facts if k != st['dst']['l']) | {(st['dst']['l'], v)}
            nxt.append(((bi, i + 1), f2))
        else:
            t = b.blocks[bi]['term']
            succs = [s_ for s_ in b.succs(bi) if not b.blocks[s_]['cleanup']]
            if t['k'] == 'switch':
                fo = flag_of(t['d'])
                fd = dict(facts)
                if fo is not None and fo[0] in fd and set(dict(t['ts']).keys()) == {'0'}:
                    val = fd[fo[0]] != fo[1]
                    succs = [t['else'] if val else dict(t['ts'])['0']]
            nxt = [((s_, 0), facts) for s_ in succs]
        for n, f in nxt:
            if n in avoid or (n, f) in seen:
                continue
            seen.add((n, f))
            dq.append((n, f))
    return out

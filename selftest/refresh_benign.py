#!/usr/bin/env python3
"""refresh_benign.py <sweep log>...: update benign/*/meta.json from the result lines of selftest/trypatches.sh sweeps over the packaged
patches (benign/<id>/patch.diff) or their originals (<root>/<PID>/benign_out/<n>/patch.diff).  A known_limit text is kept only while
the patch still fires; a patch that fires without one is printed (it needs triage: correct the rule or document the limit)."""
import json, os, re, sys
VERIF = os.path.dirname(os.path.dirname(os.path.abspath(__file__)))
res, keys = {}, {}
for log in sys.argv[1:]:
    cur = []
    for l in open(log):
        l = l.rstrip('\n')
        m = re.match(r'^== (\S+) (DOES-NOT-APPLY|fired:(.*))$', l)
        if m:
            p = m.group(1)
            mm = re.search(r'benign/(C\d+-\d+)/patch\.diff$', p) or re.search(r'/(C\d+)/benign_out/(\d+)/patch\.diff$', p)
            if mm:
                cid = mm.group(1) if mm.lastindex == 1 else '%s-%s' % (mm.group(1), mm.group(2))
                res[cid] = None if m.group(2) == 'DOES-NOT-APPLY' else re.findall(r'(C\d+)\(rc=\d+\)', m.group(3) or '')
                keys[cid] = sorted(set(re.findall(r'\[(C\d+-[^\]]+)\]', '\n'.join(cur))))
            cur = []
        else:
            cur.append(l)
head = os.popen('git -C /repo rev-parse --short HEAD').read().strip()
n = sil = na = 0
for cid in sorted(os.listdir(os.path.join(VERIF, 'benign'))):
    mp = os.path.join(VERIF, 'benign', cid, 'meta.json')
    if cid not in res or not os.path.exists(mp):
        continue
    meta = json.load(open(mp))
    fired = res[cid]
    meta['applies_to_current_head'] = fired is not None
    meta['checked_at_repo_head'] = head
    meta['fired'] = {c: [x for x in keys[cid] if x.startswith(c + '-')][:6] for c in (fired or [])}
    meta['silent'] = fired == []
    if fired is None:
        na += 1
        meta.pop('known_limit', None)
        meta['note'] = 'the patch no longer applies: a later fix: commit changed the same lines'
    elif not fired:
        sil += 1
        if 'known_limit' in meta:
            meta['was_known_limit'] = meta.pop('known_limit')
    elif 'known_limit' not in meta:
        print('NEEDS TRIAGE: %s fires %s without a documented limit' % (cid, fired))
    json.dump(meta, open(mp, 'w'), indent=1)
    n += 1
print('%d controls refreshed: %d silent, %d do not apply, %d fire' % (n, sil, na, n - sil - na))

#!/bin/bash
# usage: seed.sh <patch.diff> <check ids...> : apply a seeded patch to a scratch copy of /repo, run checks against it
set -u
PATCH="$1"; shift
S=$(mktemp -d /tmp/asd-seed.XXXXXX)
rsync -a --exclude target --exclude .git /repo/ "$S/"
if ! (cd "$S" && patch -p1 -s -F 3 --no-backup-if-mismatch < "$PATCH"); then echo "SEED $PATCH: patch does not apply"; rm -rf "$S"; exit 9; fi
for c in "$@"; do
  out=$(ASD_REPO="$S" ASD_EVIDENCE_DIR="$S/.evidence" /verif/check "$c" 2>&1)
  rc=$?
  echo "SEED $(basename $(dirname $PATCH))/$(basename $PATCH) check=$c rc=$rc"
  echo "$out" | grep -E "^  .*\[C[0-9]+-|FACT-EXTRACTION|Traceback" | head -${MUT_LINES:-4} | cut -c1-330
done
rm -rf "$S"

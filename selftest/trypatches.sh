#!/bin/bash
# trypatches.sh <patch>... : for every patch, run ALL registered checks (of the /verif this script lives in) against a scratch copy
# of /repo with the patch applied and print which of them report.  Used for seeded (must fire) and benign (must stay silent) rounds.
# Jobs run 4 at a time; scratch copies are removed.
V="$(cd "$(dirname "$0")/.." && pwd)"
one() {
  P="$1"
  S=$(mktemp -d /tmp/asd-try.XXXXXX)
  rsync -a --exclude target --exclude .git /repo/ "$S/"
  if ! (cd "$S" && patch -p1 -s -F 3 --no-backup-if-mismatch < "$P" >/dev/null 2>&1); then echo "== $P DOES-NOT-APPLY"; rm -rf "$S"; return; fi
  out=""; det=""
  for c in $(python3 -c "import json;print(' '.join(c['property_id'] for c in json.load(open('$V/MANIFEST.json'))['checks']))"); do
    o=$(ASD_REPO="$S" ASD_EVIDENCE_DIR="$S/.evidence" "$V/check" $c 2>&1); rc=$?
    if [ $rc -ne 0 ]; then out="$out $c(rc=$rc)"; det="$det$(echo "$o" | grep -E "^\s+.*\[C[0-9]+-|FACT-EXTR|Traceback|Error" | head -3 | cut -c1-260)
"; fi
  done
  echo "$det== $P fired:$out"
  rm -rf "$S"
}
export -f one; export V
printf '%s\n' "$@" | xargs -P 4 -I{} bash -c 'one {}'

#!/bin/bash
# usage: verify_seed.sh <seed_out/n dir> <id>   -> confirms: demo passes on HEAD, suite passes + demo fails with patch. Writes <dir>/verify.log
# Uses a scratch worktree /tmp/seedverify (created if missing), shared target dir inside it.
set -u
D="$1"; ID="$2"
W=${SEEDVERIFY_DIR:-/tmp/seedverify}
if [ ! -d "$W" ]; then git -C /repo worktree add -q --detach "$W" HEAD; fi
cd "$W" && git checkout -q --detach $(git -C /repo rev-parse HEAD) && git checkout -q -- . && git clean -fdq -e target
export CARGO_TARGET_DIR=$W/target CARGO_NET_OFFLINE=true
CR=autosar-data
grep -qi "autosar-data-specification/tests" "$D/notes.md" 2>/dev/null && CR=autosar-data-specification
mkdir -p $CR/tests && cp "$D/demo.rs" $CR/tests/demo.rs
LOG="$D/verify.log"; : > "$LOG"
echo "== demo on unpatched HEAD $(git rev-parse --short HEAD)" >> "$LOG"
timeout 600 cargo test -p $CR --test demo --offline >> "$LOG" 2>&1; A=$?
echo "exit=$A" >> "$LOG"
if ! patch -p1 -s -F 3 --no-backup-if-mismatch < "$D/patch.diff" >> "$LOG" 2>&1; then echo "VERIFY $ID: patch does not apply"; exit 9; fi
echo "== demo with patch" >> "$LOG"
timeout 600 cargo test -p $CR --test demo --offline >> "$LOG" 2>&1; B=$?
echo "exit=$B" >> "$LOG"
rm -f $CR/tests/demo.rs; rmdir $CR/tests 2>/dev/null
echo "== suite with patch" >> "$LOG"
timeout 900 cargo test --workspace --offline >> "$LOG" 2>&1; C=$?
echo "exit=$C" >> "$LOG"
git checkout -q -- . ; git clean -fdq -e target
if [ $A -eq 0 ] && [ $B -ne 0 ] && [ $C -eq 0 ]; then echo "VERIFY $ID: CONFIRMED (demo ok on HEAD, fails with patch; suite passes with patch)"; else echo "VERIFY $ID: NOT CONFIRMED head=$A patched=$B suite=$C"; fi

#!/usr/bin/env python3
"""package_benign.py <seed root> <sweep log>: copy every <root>/<PID>/benign_out/<n>/{patch.diff,notes.md} to /verif/benign/<PID>-<n>/ and write
meta.json from the result lines of a selftest/trypatches.sh sweep ("== <patch> fired: C01(rc=1) ..." / "DOES-NOT-APPLY") and its detail lines."""
import json, os, re, shutil, sys
VERIF = os.path.dirname(os.path.dirname(os.path.abspath(__file__)))
root, log = sys.argv[1], sys.argv[2]
res, keys, cur = {}, {}, []
for l in open(log):
    l = l.rstrip('\n')
    if l.startswith('==='):
        cur = []
        continue
    m = re.match(r'^== (\S+) (DOES-NOT-APPLY|fired:(.*))$', l)
    if m:
        p = m.group(1)
        if '/benign_out/' in p:
            res[p] = None if m.group(2) == 'DOES-NOT-APPLY' else re.findall(r'(C\d+)\(rc=\d+\)', m.group(3) or '')
            keys[p] = sorted(set(re.findall(r'\[(C\d+-[^\]]+)\]', '\n'.join(cur))))
        cur = []
    else:
        cur.append(l)
head = os.popen('git -C /repo rev-parse --short HEAD').read().strip()
n = 0
for pid in sorted(os.listdir(root)):
    bd = os.path.join(root, pid, 'benign_out')
    if not os.path.isdir(bd):
        continue
    for k in sorted(os.listdir(bd)):
        src = os.path.join(bd, k)
        patch = os.path.join(src, 'patch.diff')
        if not os.path.exists(patch) or patch not in res:
            continue
        dst = os.path.join(VERIF, 'benign', '%s-%s' % (pid, k))
        os.makedirs(dst, exist_ok=True)
        shutil.copy(patch, os.path.join(dst, 'patch.diff'))
        if os.path.exists(os.path.join(src, 'notes.md')):
            shutil.copy(os.path.join(src, 'notes.md'), os.path.join(dst, 'notes.md'))
        fired = res[patch]
        meta = {
            'control': '%s-%s' % (pid, k), 'property': pid, 'round': (int(k) - 1) // 3 + 1,
            'origin': 'behaviour-preserving change written by a fresh sub-agent that was given only the property text and its own scratch worktree of /repo (nothing from /verif); the unedited test suite passes with it',
            'applies_to_current_head': fired is not None, 'checked_at_repo_head': head,
            'fired': {c: [x for x in keys[patch] if x.startswith(c + '-')][:6] for c in (fired or [])},
            'silent': fired == [],
        }
        json.dump(meta, open(os.path.join(dst, 'meta.json'), 'w'), indent=1)
        n += 1
print(n, 'benign controls packaged')

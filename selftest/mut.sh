#!/bin/bash
# usage: mut.sh <name> <check ids...>   (reads a sed script or patch from stdin: lines "FILE|||PYTHON-REPLACE-OLD|||NEW")
# Makes a scratch copy of /repo under /tmp, applies the edits, verifies it compiles (cargo check), runs the given checks
# against the copy (ASD_REPO), prints their verdict lines, and removes the copy.
set -u
NAME="$1"; shift
S=$(mktemp -d /tmp/asd-mut.XXXXXX)
rsync -a --exclude target --exclude .git /repo/ "$S/"
python3 - "$S" <<'PY' || { echo "MUT $NAME: edit failed"; rm -rf "$S"; exit 9; }
import sys, os
S = sys.argv[1]
spec = open('/dev/fd/3').read() if False else os.environ['MUT_SPEC']
for line in spec.split('\n@@@\n'):
    if not line.strip():
        continue
    f, old, new = line.split('|||')
    p = os.path.join(S, f.strip())
    s = open(p).read()
    old = old.strip('\n'); new = new.strip('\n')
    if s.count(old) < 1:
        print('pattern not found in', f, ':', old[:80]); sys.exit(1)
    s = s.replace(old, new, 1)
    open(p, 'w').write(s)
PY
for c in "$@"; do
  out=$(ASD_REPO="$S" ASD_EVIDENCE_DIR="$S/.evidence" /verif/check "$c" 2>&1)
  rc=$?
  echo "MUT $NAME check=$c rc=$rc"
  echo "$out" | grep -E "^\s+.*\[C[0-9]+|VIOLATION|FACT-EXTRACTION|Traceback|Error" | head -${MUT_LINES:-6}
done
rm -rf "$S"

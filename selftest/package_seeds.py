#!/usr/bin/env python3
"""package_seeds.py <seed root> [ids...]
For every <seed root>/<PID>/seed_out/<n>/ (patch.diff or patch.rebased.diff, demo.rs, notes.md):
  1. copy into /verif/seeded/<PID>-<n>/ (patch.diff = the patch that applies to the current /repo HEAD)
  2. verify in a scratch worktree: demo passes on HEAD, fails with the patch, the repository suite passes with the patch
  3. run ALL registered checks against a scratch copy with the patch and record which of them report a violation (and the keys)
  4. write meta.json
Nothing is written to /repo; scratch copies are removed."""
import json, os, re, shutil, subprocess, sys, tempfile

VERIF = os.path.dirname(os.path.dirname(os.path.abspath(__file__)))
ALL = [c['property_id'] for c in json.load(open(os.path.join(VERIF, 'MANIFEST.json')))['checks']]


def sh(cmd, **kw):
    return subprocess.run(cmd, shell=True, text=True, capture_output=True, **kw)


def main():
    args = [a for a in sys.argv[1:] if not a.startswith('--')]
    refresh = '--refresh' in sys.argv      # keep the verification result of an existing meta.json, only re-run the checks
    root = args[0]
    only = set(args[1:])
    props = {}
    for l in open(os.path.join(VERIF, 'properties.jsonl')):
        d = json.loads(l)
        props[d['id']] = d['title']
    head = sh('git -C /repo rev-parse --short HEAD').stdout.strip()
    for pid in sorted(os.listdir(root)):
        sd = os.path.join(root, pid, 'seed_out')
        if not os.path.isdir(sd):
            continue
        for n in sorted(os.listdir(sd)):
            src = os.path.join(sd, n)
            sid = '%s-%s' % (pid, n)
            if only and sid not in only and pid not in only:
                continue
            if not os.path.exists(os.path.join(src, 'demo.rs')):
                continue
            patch = os.path.join(src, 'patch.rebased.diff')
            rebased = os.path.exists(patch)
            if not rebased:
                patch = os.path.join(src, 'patch.diff')
            dst = os.path.join(VERIF, 'seeded', sid)
            os.makedirs(dst, exist_ok=True)
            shutil.copy(patch, os.path.join(dst, 'patch.diff'))
            shutil.copy(os.path.join(src, 'demo.rs'), os.path.join(dst, 'demo.rs'))
            if os.path.exists(os.path.join(src, 'notes.md')):
                shutil.copy(os.path.join(src, 'notes.md'), os.path.join(dst, 'notes.md'))
            # 2. verify
            old_meta = None
            if refresh and os.path.exists(os.path.join(dst, 'meta.json')):
                old_meta = json.load(open(os.path.join(dst, 'meta.json')))
            if old_meta and old_meta.get('confirmed'):
                verdict = [w for w in old_meta['what_i_ran'] if 'verify_seed' in w][0].split('-> ', 1)[-1]
                confirmed = True
                head_v = old_meta.get('verified_at_repo_head', head)
            else:
                r = sh('%s/selftest/verify_seed.sh %s %s' % (VERIF, dst, sid))
                verdict = (r.stdout.strip().splitlines() or ['?'])[-1]
                confirmed = 'CONFIRMED' in verdict and 'NOT CONFIRMED' not in verdict
                head_v = head
            # 3. checks
            S = tempfile.mkdtemp(prefix='asd-pkg.')
            sh('rsync -a --exclude target --exclude .git /repo/ %s/' % S)
            ap = sh('cd %s && patch -p1 -s -F 3 --no-backup-if-mismatch < %s' % (S, os.path.join(dst, 'patch.diff')))
            caught = {}
            if ap.returncode == 0:
                for c in ALL:
                    rr = sh('ASD_REPO=%s ASD_EVIDENCE_DIR=%s/.evidence %s/check %s' % (S, S, VERIF, c))
                    if rr.returncode != 0:
                        keys = re.findall(r'\[(C\d+-[^\]]+)\]', rr.stdout)
                        caught[c] = sorted(set(keys))[:6] or ['(exit %d without keyed report)' % rr.returncode]
            shutil.rmtree(S, ignore_errors=True)
            notes = open(os.path.join(dst, 'notes.md')).read() if os.path.exists(os.path.join(dst, 'notes.md')) else ''
            needs = ''
            m = re.search(r'(?is)\*{0,2}needs?(?: to manifest)?\*{0,2}\s*:?\s*(.+?)(?:\n\s*\n|\n\*\*|\nCommands|\Z)', notes)
            if m:
                needs = ' '.join(m.group(1).split())[:900]
            meta = {
                'seed': sid,
                'property': pid,
                'property_title': props.get(pid, ''),
                'origin': 'written by a fresh sub-agent that was given only the property text and its own scratch worktree of /repo (nothing from /verif)',
                'patch_rebased_onto_later_fix_commits': rebased,
                'needs_to_manifest': needs,
                'demonstration': 'demo.rs: an integration test (tests/demo.rs of the crate named in notes.md) that passes on the unchanged tree and fails with the patch',
                'verified_at_repo_head': head_v,
                'checks_run_at_repo_head': head,
                'what_i_ran': ['selftest/verify_seed.sh seeded/%s %s  -> %s' % (sid, sid, verdict),
                               'for every registered check: ASD_REPO=<scratch copy with patch> ./check <ID>'],
                'confirmed': confirmed,
                'caught_by': caught,
                'missed': not caught,
            }
            json.dump(meta, open(os.path.join(dst, 'meta.json'), 'w'), indent=1)
            print('%s confirmed=%s caught_by=%s' % (sid, confirmed, sorted(caught)), flush=True)


if __name__ == '__main__':
    main()

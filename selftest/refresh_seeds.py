#!/usr/bin/env python3
"""refresh_seeds.py [ids...]: re-run ALL registered checks against every packaged seed (seeded/<ID>-<n>/patch.diff applied to a scratch
copy of the current /repo) and update caught_by / missed / checks_run_at_repo_head in its meta.json. Verification results are kept."""
import json, os, re, shutil, subprocess, sys, tempfile
from concurrent.futures import ThreadPoolExecutor
VERIF = os.path.dirname(os.path.dirname(os.path.abspath(__file__)))
ALL = [c['property_id'] for c in json.load(open(os.path.join(VERIF, 'MANIFEST.json')))['checks']]


def sh(cmd):
    return subprocess.run(cmd, shell=True, text=True, capture_output=True)


def one(d):
    dst = os.path.join(VERIF, 'seeded', d)
    mp = os.path.join(dst, 'meta.json')
    meta = json.load(open(mp))
    S = tempfile.mkdtemp(prefix='asd-refresh.')
    try:
        sh('rsync -a --exclude target --exclude .git /repo/ %s/' % S)
        ap = sh('cd %s && patch -p1 -s -F 3 --no-backup-if-mismatch < %s' % (S, os.path.join(dst, 'patch.diff')))
        if ap.returncode != 0:
            meta['applies_to_current_head'] = False
            json.dump(meta, open(mp, 'w'), indent=1)
            return '%s patch does not apply to the current HEAD' % d
        caught = {}
        for c in ALL:
            rr = sh('ASD_REPO=%s ASD_EVIDENCE_DIR=%s/.evidence %s/check %s' % (S, S, VERIF, c))
            if rr.returncode == 2:
                caught = {'(does not compile at the current HEAD)': []}
                break
            if rr.returncode != 0:
                keys = re.findall(r'\[(C\d+-[^\]]+)\]', rr.stdout)
                caught[c] = sorted(set(keys))[:6] or ['(exit %d without keyed report)' % rr.returncode]
        meta['applies_to_current_head'] = True
        meta['caught_by'] = caught
        meta['missed'] = not caught
        meta['checks_run_at_repo_head'] = sh('git -C /repo rev-parse --short HEAD').stdout.strip()
        json.dump(meta, open(mp, 'w'), indent=1)
        return '%s caught_by=%s' % (d, sorted(caught))
    finally:
        shutil.rmtree(S, ignore_errors=True)


if __name__ == '__main__':
    only = set(sys.argv[1:])
    ds = [d for d in sorted(os.listdir(os.path.join(VERIF, 'seeded'))) if os.path.exists(os.path.join(VERIF, 'seeded', d, 'meta.json')) and (not only or d in only or d.split('-')[0] in only)]
    with ThreadPoolExecutor(max_workers=4) as ex:
        for r in ex.map(one, ds):
            print(r, flush=True)

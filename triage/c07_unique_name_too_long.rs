use autosar_data::*;
fn main() {
    let model = AutosarModel::new();
    let _f = model.create_file("a.arxml", AutosarVersion::LATEST).unwrap();
    let pkgs = model.root_element().create_sub_element(ElementName::ArPackages).unwrap();
    let long = "P".repeat(128);
    let pkg = pkgs.create_named_sub_element(ElementName::ArPackage, &long).unwrap();
    println!("129 chars directly: {:?}", pkgs.create_named_sub_element(ElementName::ArPackage, &"Q".repeat(129)).map(|e| e.item_name()));
    let c = pkgs.create_copied_sub_element(&pkg);
    println!("copy of 128-char package: {:?}", c.as_ref().map(|e| e.item_name().map(|n| n.len())));
    let text = model.files().next().unwrap().serialize().unwrap();
    let m2 = AutosarModel::new();
    println!("strict reload: {:?}", m2.load_buffer(text.as_bytes(), "b.arxml", true).map(|_| ()));
    let m3 = AutosarModel::new();
    println!("lenient reload warnings: {:?}", m3.load_buffer(text.as_bytes(), "b.arxml", false).map(|(_, w)| w.len()));
}

use autosar_data::*;
fn main() {
    let model = AutosarModel::new();
    model.create_file("a.arxml", AutosarVersion::LATEST).unwrap();
    let pkg = model.root_element().create_sub_element(ElementName::ArPackages).unwrap().create_named_sub_element(ElementName::ArPackage, "Pkg").unwrap();
    // AR-PACKAGE: SHORT-NAME, ..., ELEMENTS, AR-PACKAGES ; use DESC? simpler: SW-BASE-TYPE ... use AR-PACKAGES container with two packages? need a following different element.
    let intro = pkg.create_sub_element(ElementName::Introduction).unwrap();
    let p = intro.create_sub_element(ElementName::P).unwrap();
    let a = p.create_sub_element(ElementName::L1).unwrap();
    let b = p.create_sub_element(ElementName::L1).unwrap();
    let vp = p.create_sub_element(ElementName::VariationPoint);
    println!("vp: {:?}", vp.as_ref().map(|e| e.element_name()));
    println!("before: {:?}", p.sub_elements().map(|e| e.element_name()).collect::<Vec<_>>());
    println!("range for L-1: {:?}", p.calc_element_insert_range(ElementName::L1, AutosarVersion::LATEST));
    let r = p.move_element_here_at(&a, 2);
    println!("move first L-1 to 2: {:?}", r.map(|e| e.element_name()));
    println!("after:  {:?}", p.sub_elements().map(|e| e.element_name()).collect::<Vec<_>>());
    let _ = b;
    let text = model.files().next().unwrap().serialize().unwrap();
    let m2 = AutosarModel::new();
    println!("strict reload: {:?}", m2.load_buffer(text.as_bytes(), "b.arxml", true).map(|_| ()));
    let (_, w) = AutosarModel::new().load_buffer(text.as_bytes(), "c.arxml", false).unwrap();
    println!("lenient warnings: {}", w.len());
}

use autosar_data::*;
use std::sync::{Arc, atomic::{AtomicU64, Ordering}};
use std::thread;
use std::time::Duration;
fn setup() -> (AutosarModel, Element, Element, Element) {
    let m = AutosarModel::new(); m.create_file("f", AutosarVersion::LATEST).unwrap();
    let pk = m.root_element().create_sub_element(ElementName::ArPackages).unwrap();
    let p = pk.create_named_sub_element(ElementName::ArPackage, "p").unwrap();
    let els = p.create_sub_element(ElementName::Elements).unwrap();
    let sys = els.create_named_sub_element(ElementName::System, "sys").unwrap();
    let a = els.create_named_sub_element(ElementName::CanCluster, "a").unwrap();
    let fe = sys.create_sub_element(ElementName::FibexElements).unwrap();
    (m, fe, a, els)
}
fn run(name: &str, f1: impl Fn() + Send + 'static, f2: impl Fn() + Send + 'static) {
    let c1 = Arc::new(AtomicU64::new(0)); let c2 = Arc::new(AtomicU64::new(0));
    let (d1, d2) = (c1.clone(), c2.clone());
    thread::spawn(move || loop { f1(); d1.fetch_add(1, Ordering::Relaxed); });
    thread::spawn(move || loop { f2(); d2.fetch_add(1, Ordering::Relaxed); });
    let mut last = (0,0); let mut stuck = 0;
    for sec in 0..20 {
        thread::sleep(Duration::from_millis(500));
        let cur = (c1.load(Ordering::Relaxed), c2.load(Ordering::Relaxed));
        if cur == last { stuck += 1; } else { stuck = 0; }
        if stuck >= 4 { println!("{name}: DEADLOCK after {:.1}s: counters frozen at {:?}", sec as f64 * 0.5, cur); return; }
        last = cur;
    }
    println!("{name}: no deadlock in 10s, counters {:?}", last);
}
fn main() {
    let which = std::env::args().nth(1).unwrap();
    match which.as_str() {
        "inverted" => {
            let (m, fe, a, _) = setup(); let m2 = m.clone();
            run("check_references vs remove_sub_element", move || { let _ = m2.check_references(); },
                move || { let c = fe.create_sub_element(ElementName::FibexElementRefConditional).unwrap(); let r = c.create_sub_element(ElementName::FibexElementRef).unwrap(); let _ = r.set_reference_target(&a); let _ = fe.remove_sub_element(c); });
        }
        "up" => {
            let (_m, _fe, _a, els) = setup(); let els2 = els.clone();
            let child = els.create_named_sub_element(ElementName::System, "s0").unwrap();
            let ch = std::sync::Mutex::new(child);
            let ch = Arc::new(ch); let ch2 = ch.clone();
            run("path vs remove/create", move || { let c = ch.lock().unwrap().clone(); let _ = c.path(); },
                move || { let old = ch2.lock().unwrap().clone(); let _ = els2.remove_sub_element(old); let n = els2.create_named_sub_element(ElementName::System, "s0").unwrap(); *ch2.lock().unwrap() = n; });
        }
        "same" => {
            let (m, _fe, a, _) = setup(); let m2 = m.clone();
            run("serialize vs set_comment", move || { let _ = m2.root_element().serialize(); },
                move || { a.set_comment(Some("x".into())); });
        }
        _ => {}
    }
}

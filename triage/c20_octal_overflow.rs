use autosar_data::*;
fn main() {
    for t in ["02000000000000000000000", "010", "0.5", "0e5", "0x10", "0x10000000000000000", "0b101", "08", "1e3", "-0x10", "INF", "-INF", "NaN", "0", "00"] {
        let c = CharacterData::String(t.to_string());
        println!("{:<26} float={:?} int(u64)={:?} int(i128)={:?}", t, c.parse_float(), c.parse_integer::<u64>(), c.parse_integer::<i128>());
    }
}

use autosar_data::*;
fn main() {
    let model = AutosarModel::new();
    let file = model.create_file("a.arxml", AutosarVersion::Autosar_00050).unwrap();
    let unit = model.root_element().create_sub_element(ElementName::ArPackages).unwrap().create_named_sub_element(ElementName::ArPackage, "Pkg").unwrap()
        .create_sub_element(ElementName::Elements).unwrap().create_named_sub_element(ElementName::Unit, "U").unwrap();
    let f = unit.create_sub_element(ElementName::FactorSiToUnit).unwrap();
    f.set_character_data(1.5).unwrap();
    println!("set S: {:?}", f.set_attribute_string(AttributeName::S, "x"));
    let (errs, mask) = file.check_version_compatibility(AutosarVersion::Autosar_4_0_1);
    println!("check 4.0.1: {} errors, mask has 4.0.1: {}", errs.len(), AutosarVersion::Autosar_4_0_1.compatible(mask));
    println!("set_version: {:?}", file.set_version(AutosarVersion::Autosar_4_0_1));
    let text = file.serialize().unwrap();
    println!("strict reload: {:?}", AutosarModel::new().load_buffer(text.as_bytes(), "b.arxml", true).map(|_| ()));
}
